"""C18 — normalisation statistics, deltas and returns equal their defining formulas.

Four case kinds, all run against the real `pydrobert.torch` code in-process:

* ``mvn``     MeanVarianceNormalization: one pool of integer-valued tensors, one *history*
              (an ordering of the tensors cut into contiguous chunks, each chunk concatenated and
              given to one ``accumulate`` call), ``store(bessel)``, ``forward`` with the stored
              statistics, with the input's own statistics, and with only one of the two stored; a
              *forward grid*: a probe input that is NOT the pool (a sub-pool) normalised with every
              combination of supplied / omitted statistics (none / mean only / std only / both; the
              supplied ones differ from the probe's own) through the functional, the constructor and
              a module whose buffers are assigned one at a time.
* ``mvnseq``  the module as a state machine: a random sequence of ``accumulate`` /
              ``store(delete_stats, bessel)`` calls (failing stores included), buffers and statistics
              observed after every call.
* ``cli``     ``compute-mvn-stats-for-torch-feat-data-dir`` on a temporary directory
              (``--num-workers 0``), optionally with ``--id2gid`` groups.
* ``deltas``  ``feat_deltas`` / ``FeatureDeltas`` for one (shape, dim, time_dim, concatenate, order,
              width, pad_mode).
* ``return``  ``time_distributed_return`` / ``TimeDistributedReturn``.

Every kind also varies what the property text quantifies over only implicitly: the memory layout of
the inputs (the result must not depend on strides), arguments left at their documented defaults, the
`eps` clamp, accumulate calls of different rank, a `store` in the middle of a history, and checks that the
caller's tensors are never modified.

Exactness: features, rewards and pad values are small integers; the accumulators, the width-1
deltas and the returns for dyadic gamma are then exact in float32/float64 and compared as
rationals.  Means, variances, normalised outputs and width>1 deltas (the kernel k/sum(k^2) is
not dyadic) go through the tolerance stream: the Lean model computes them exactly and the
difference must stay below a bound far above float rounding and far below any real change.
"""
import contextlib
import io
import itertools
import math
import os
import tempfile
from fractions import Fraction

from common.framework import PropertyCheck, frac_str

import c18_big

PAD_MODES = ("replicate", "constant", "reflect", "circular")
SIG_SINGLE = "C18.store.single_frame_rejected"
SIG_NAN = "C18.return.nonfinite_underflow"


# ------------------------------------------------------------------------------- helpers
def prod(shape):
    p = 1
    for s in shape:
        p *= s
    return p


def F(s):
    return Fraction(s)


def fl(xs):
    return [frac_str(float(v)) for v in xs]


def tcase(t):
    return {"shape": list(t.shape), "data": [int(v) for v in t.flatten().tolist()]}


def mk(tc, dtype):
    import torch
    dt = torch.float32 if dtype == "float32" else torch.float64
    return torch.tensor(tc["data"], dtype=dt).view(tc["shape"])


def relayout(t, layout):
    """The same values with another memory layout (the ops under test must not care)."""
    if layout == "transposed" and t.dim() >= 2:
        perm = list(reversed(range(t.dim())))
        return t.permute(perm).contiguous().permute(perm)        # reversed strides
    if layout == "strided" and t.dim() >= 1:
        big = t.new_full(list(t.shape[:-1]) + [2 * t.size(-1) + 1], 77.0)
        big[..., 1::2] = t
        return big[..., 1::2]                                    # stride 2, storage offset 1
    return t


LAYOUTS = ("contig", "contig", "transposed", "strided")
EPS_CHOICES = (None, None, None, "0", "1/4", "2", "16")
EPS_ACTIVE = ("1/4", "2", "16")
COMBOS = ("none", "mean", "std", "both")
GIVEN_STD = ("1/4", "1/2", "1", "3/2", "2", "3", "5")


def coeff_values(tensors, dim):
    """Per coefficient of the normalised dimension: the values of all tensors (pure python)."""
    out = {}
    for t in tensors:
        shape = t["shape"]
        d = dim % len(shape)
        inner = prod(shape[d + 1:])
        for k, v in enumerate(t["data"]):
            out.setdefault((k // inner) % shape[d], []).append(v)
    return out


def close(a, b, rtol, atol):
    """a, b exact rationals (Fractions or 'n/d')."""
    if a in ("nan", "inf", "-inf") or b in ("nan", "inf", "-inf"):
        return False
    a, b = Fraction(a), Fraction(b)
    return abs(a - b) <= atol + rtol * max(abs(a), abs(b))


def all_close(xs, ys, rtol, atol):
    return len(xs) == len(ys) and all(close(x, y, rtol, atol) for x, y in zip(xs, ys))


def first_bad(xs, ys, rtol, atol):
    if len(xs) != len(ys):
        return f"lengths {len(xs)} vs {len(ys)}"
    for i, (x, y) in enumerate(zip(xs, ys)):
        if not close(x, y, rtol, atol):
            try:
                return f"[{i}] impl={float(Fraction(x)):.9g} model={float(Fraction(y)):.9g}"
            except Exception:
                return f"[{i}] impl={x} model={y}"
    return None


def compositions(n):
    """All ways to cut range(n) into contiguous non-empty chunks (as lists of lengths)."""
    if n == 0:
        yield []
        return
    for mask in range(1 << (n - 1)):
        out, cur = [], 1
        for g in range(n - 1):
            if mask >> g & 1:
                out.append(cur)
                cur = 1
            else:
                cur += 1
        out.append(cur)
        yield out


def cut(order, comp):
    out, i = [], 0
    for c in comp:
        out.append(list(order[i:i + c]))
        i += c
    return out


class C18(PropertyCheck):
    pid = "C18"
    rule = ("mvn: pools of <= 6 integer-valued tensors (ranks 1-4, every normalised dim incl. negative "
            "aliases, float32/float64), every ordering x every cut into chunks for <= 4 tensors (quick; <= 5 "
            "thorough) and sampled for more, store(bessel) both ways; per case additionally: eps in {default, 0 "
            "(no constant coefficient), 1/4, 2, 16} (clamp inactive / active), memory layout of every chunk and of "
            "the pooled tensor in {contiguous, reversed strides, stride 2 + offset}, accumulate calls of "
            "different rank over the same frames, store(delete_stats=False) in the middle of the history "
            "(buffers must survive, later accumulate + store pool everything), store(delete_stats=True) then "
            "store (must raise) then accumulate (fresh start), forward with stored / own / half-stored "
            "statistics through module and functional, arguments equal to documented defaults left out, inputs "
            "must not be modified; a forward grid per case: a probe that is a random non-empty sub-pool (own "
            "statistics differ from the pooled ones) normalised with every combination of supplied / omitted "
            "statistics {none, mean only, std only, both}, once with free vectors forced to differ from the "
            "probe's own statistics in every coefficient (float32/float64, contiguous / strided) and once with "
            "the statistics stored from the whole pool, each through the functional (positional, keywords), the "
            "constructor, buffers assigned one at a time and the storing module with one buffer set to None; "
            "the accumulating module optionally starts with preset statistics that store must overwrite; "
            "mvn0: a normalised dimension of extent 0 (ranks 1-3, 1-3 calls, 0..n frames): count = frames, empty "
            "sum / sumsq, store raises only below the minimum count and otherwise writes empty statistics, forward "
            "keeps the shape, the constructor rejects empty statistics; "
            "mvnseq: random sequences of 1-10 accumulate / store(delete_stats, bessel) calls on one module incl. "
            "stores that must raise (nothing pending, zero / one frame) followed by further calls, buffers and "
            "statistics observed after every call; cli: the directory command with --num-workers 0, with and "
            "without --id2gid (1-3 groups, ids without a file, groups without a file, a file missing from the "
            "map -> exit 1, a repeated id / a line of three tokens / of one token -> exit 1, whitespace "
            "styles), --bessel, default --dim/prefix/suffix left out, files of different "
            "rank, stray files, an empty directory; deltas: orders 0-3 x widths 1-3 x 4 pad modes, every legal "
            "(dim, time_dim, concatenate) on rank 2-4 inputs incl. negative aliases, widths 4-10 / orders 4-5, "
            "fractional pad value, non-contiguous inputs, an axis of extent 0 (legal padding: empty result; a "
            "padding the mode forbids for the T frames: RuntimeError although there is no row; time axis of "
            "extent 0: RuntimeError in every mode), the all-defaults call, "
            "functional and module (also on the malformed stream); returns: gamma in {0, +-1/2, 1/4, +-1, 2} "
            "(also as python int) x T <= 8 x both layouts exact, non-contiguous rewards, empty batch, rewards "
            "that are not 2-D (RuntimeError), real gammas within tolerance, long horizons oracle-only; "
            "big (size-triggered paths, c18_big.py; inputs regenerated from a seed): every function with LONG "
            "inputs at and around SIZES = 255, 256, 257, 1023, 1024, 1025, 2047, 2048, 2049, 4097, 10000 -- returns: "
            "T in SIZES x both layouts (gamma rotating through 1/2, 1, -1, -1/2, 1/4, 0.9, 0.95, 0.99, -0.97, 1.001; "
            "functional / module / keyword routes; 1-3 sequences; float32/float64, 10000 in float32), gamma = 0 on a "
            "long horizon, batches of SIZES sequences on a horizon <= 8; deltas: time axis in SIZES (rank 1-3, every "
            "pad mode rotating, order <= 3, width <= 3), windows of width 16-1024 (T just above or far below the "
            "padding), orders 6-12, SIZES rows; mvn: SIZES frames in one call or cut at random into <= 7 calls "
            "(shuffled), SIZES accumulate calls, SIZES coefficients, store + forward (module, functional, own "
            "statistics); cli: an utterance of SIZES frames next to short ones, 257 (thorough: 1025) short files, with "
            "and without groups.  Oracle there: the defining formula in exact python integer arithmetic; FIRST and "
            "LAST time step / frame compared and reported separately; sizes <= 257 also through the Lean driver "
            "(python oracle == Lean spec exactly). "
            "non-trivial: >= 2 chunks / >= 3 calls with a store / order >= 1 / gamma != 0 and T >= 2; distinct by case.")
    assumptions = [
        "float rounding is not modelled: accumulators, width-1 deltas and dyadic-gamma returns are compared "
        "exactly on integer-valued inputs; means, variances, normalised outputs, width>1 deltas and "
        "real-gamma returns within a tolerance against the exact model",
        "sqrt is a trusted primitive: theorems are stated for the variance (std*std = var); the driver uses an "
        "IEEE double sqrt only to produce normalised outputs for the tolerance comparison",
        "accumulate() sums each chunk in the input's dtype before adding into the double buffers; precision "
        "loss inside a float32 chunk of real-valued features is float behaviour, not modelled",
        "overflow of gamma^t (|gamma| > 1, long horizons) is float behaviour, not modelled; the long-horizon "
        "oracle stream uses |gamma| < 1 where every R_t is representable",
        "torch primitives (transpose/flatten/view/movedim, F.pad, conv1d, matmul, pow, tril/triu) at their "
        "documented meaning",
        "big stream: beyond 257 steps the interpreted Lean driver is too slow (deltas: 26 s at T = 1025), the oracle "
        "is the defining recurrence / regression formula / pooled sums in exact python integers (c18_big.py "
        "*_oracle), tied to the Lean spec only on the sizes <= 257; float tolerance of a T-term dot product "
        "(1e-5 + 2e-7 sqrt T) * sum |gamma|^k |r| in float32; |gamma| <= 1.001 so that nothing overflows",
    ]
    quick_budget_s = 150
    thorough_budget_s = 900

    # ================================================================ generators
    def cases(self, rng, tier):
        big = tier != "quick"
        yield from self.gen_return(rng, big)
        yield from self.gen_mvn(rng, big)
        yield from self.gen_mvn0(rng, big)
        yield from self.gen_mvnseq(rng, big)
        yield from self.gen_cli(rng, big)
        yield from self.gen_deltas(rng, big)
        # size-triggered paths: a few LONG inputs for every function (c18_big.py)
        yield from c18_big.gen_big(rng, big)

    # ---------------------------------------------------------------- big (c18_big.py)
    def impl_big(self, case):
        return c18_big.impl_big(case)

    def req_big(self, case):
        return c18_big.req_big(case)

    def cmp_big(self, case, impl, model):
        out = c18_big.cmp_big(case, impl, model)
        if out or case["what"] != "return":
            return out
        # the ordinary correspondence for the sizes the Lean model can run: implementation against the model
        R = impl["full"]["R"]
        if not case["batch_first"]:
            R = [[R[n][t] for n in range(case["N"])] for t in range(case["T"])]
        sub = {"stream": "exact" if impl.get("stream") == "exact" else "tol", "dtype": case["dtype"]}
        return self.cmp_return(sub, {"R": R}, model)

    def pred_big(self, case, impl, model):
        return c18_big.pred_big(case, impl, model)

    # ---------------------------------------------------------------- mvn
    def rand_pool(self, rng, n, rank=None, dim=None, dtype=None, X=None):
        rank = rank or rng.choice([1, 2, 2, 3, 3, 4])
        if dim is None:
            dim = rng.randrange(-rank, rank)
        d = dim % rank
        X = X or rng.choice([1, 2, 3])
        dtype = dtype or rng.choice(["float32", "float64"])
        others = [a for a in range(rank) if a != d]
        cat_axis = rng.choice(others) if others else None
        base = [rng.choice([1, 2]) for _ in range(rank)]
        base[d] = X
        tensors = []
        for i in range(n):
            shape = list(base)
            if cat_axis is not None:
                shape[cat_axis] = rng.choice([1, 1, 2, 3]) if rng.random() > 0.06 else 0
            kind = rng.random()
            if kind < 0.1:
                data = [rng.randrange(-8, 9)] * prod(shape)          # constant: zero variance
            else:
                data = [rng.randrange(-8, 9) for _ in range(prod(shape))]
            tensors.append({"shape": shape, "data": data})
        return {"kind": "mvn", "dtype": dtype, "dim": dim, "cat_axis": cat_axis, "tensors": tensors}

    def decorate_mvn(self, rng, case):
        """Options beyond the history itself: eps (default / 0 / above the deviations), the memory layout
        of every chunk and of the pooled tensor, accumulate calls of different rank over the same frames,
        a store(delete_stats=False) in the middle of the history (accumulate after store), and the forward
        grid (`fwd`): which sub-pool is normalised and which statistics are supplied."""
        n = len(case["history"])
        eps = rng.choice(EPS_CHOICES)
        rank = len(case["tensors"][0]["shape"])
        X = case["tensors"][0]["shape"][case["dim"] % rank]
        if eps == "0":
            vals = coeff_values(case["tensors"], case["dim"])
            if len(vals) < X or any(len(set(v)) < 2 for v in vals.values()):
                eps = None          # 0 / max(0, 0) is not specified: eps = 0 only without constant coefficients
        case = dict(case, eps=eps, layouts=[rng.choice(LAYOUTS) for _ in range(n + 1)],
                    lift=[rng.random() < 0.25 for _ in range(n)],
                    store_after=rng.randrange(1, n) if n >= 2 and rng.random() < 0.5 else None)
        return self.decorate_fwd(rng, case, X)

    def decorate_fwd(self, rng, case, X):
        """The forward grid.  The probe is a non-empty sub-pool (so its own statistics differ from the
        pooled ones: one utterance normalised with corpus statistics); the supplied mean / std are free
        vectors forced to differ from the probe's own statistics in every coefficient, given in either
        float dtype and memory layout.  An omitted deviation is the probe's own: where that is 0 (a
        constant coefficient, a single frame) the quotient is only representable with eps well above
        the default, so eps is then drawn from the clamp-active values."""
        nt = len(case["tensors"])
        for attempt in range(4):
            k = rng.randrange(1, nt + 1)
            probe = sorted(rng.sample(range(nt), k)) if attempt < 3 else list(range(nt))
            vals = coeff_values([case["tensors"][i] for i in probe], case["dim"])
            if len(vals) == X and all(len(v) >= 1 for v in vals.values()):
                break
        else:
            return dict(case, fwd=None)             # no frame at all anywhere
        if len(vals) < X:
            return dict(case, fwd=None)
        if any(len(set(v)) < 2 for v in vals.values()) and case.get("eps") in (None, "0"):
            case = dict(case, eps=rng.choice(EPS_ACTIVE))
        mean, std = [], []
        for i in range(X):
            v = [Fraction(a) for a in vals[i]]
            own_mean = sum(v) / len(v)
            own_var = sum((a - own_mean) ** 2 for a in v) / len(v)
            m = Fraction(rng.randrange(-16, 17), 2)
            if m == own_mean:
                m += rng.choice([-3, 1, Fraction(5, 2)])
            sd = Fraction(rng.choice(GIVEN_STD))
            if sd * sd == own_var:
                sd *= 2
            mean.append(frac_str(m))
            std.append(frac_str(sd))
        return dict(case, fwd={"probe": probe, "mean": mean, "std": std,
                               "stat_dtype": rng.choice(["float32", "float64"]),
                               "stat_layout": rng.choice(["contig", "contig", "strided"]),
                               "preset": rng.choice(["none", "none", "mean", "std", "both"])})

    def gen_mvn(self, rng, big):
        for c in self.gen_mvn_plain(rng, big):
            yield self.decorate_mvn(rng, c)

    def gen_mvn_plain(self, rng, big):
        full_upto = 5 if big else 4
        npools = 3 if big else 2
        for n in range(1, full_upto + 1):
            for p in range(npools if n < 5 else 1):
                pool = self.rand_pool(rng, n)
                if pool["cat_axis"] is None:
                    comps = [[1] * n]
                else:
                    comps = list(compositions(n))
                k = 0
                for order in itertools.permutations(range(n)):
                    for comp in comps:
                        for bessel in ((False, True) if n <= 3 else (bool(k & 1),)):
                            yield dict(pool, history=cut(order, comp), bessel=bessel)
                        k += 1
        # larger pools: sampled histories
        for n in ((5, 6) if not big else (6,)):
            for p in range(2 if not big else 4):
                pool = self.rand_pool(rng, n)
                for k in range(40 if not big else 400):
                    order = list(range(n))
                    rng.shuffle(order)
                    comp = [1] * n if pool["cat_axis"] is None else rng.choice(list(compositions(n)))
                    yield dict(pool, history=cut(order, comp), bessel=bool(k & 1))
        # every normalised dimension (negative aliases too) of ranks 1..4, both dtypes
        for rank in (1, 2, 3, 4):
            for dim in range(-rank, rank):
                for dtype in ("float32", "float64"):
                    for rep in range(3 if big else 1):
                        n = rng.choice([2, 3])
                        pool = self.rand_pool(rng, n, rank=rank, dim=dim, dtype=dtype)
                        order = list(range(n))
                        rng.shuffle(order)
                        comp = [1] * n if pool["cat_axis"] is None else rng.choice(list(compositions(n)))
                        yield dict(pool, history=cut(order, comp), bessel=rng.random() < 0.5)
        # too few frames: one frame in total (biased: allowed; Bessel: RuntimeError), no frame at all
        for bessel in (False, True):
            yield {"kind": "mvn", "dtype": "float64", "dim": -1, "cat_axis": 0, "bessel": bessel,
                   "tensors": [{"shape": [1, 2], "data": [3, -1]}], "history": [[0]]}
            yield {"kind": "mvn", "dtype": "float32", "dim": 0, "cat_axis": None, "bessel": bessel,
                   "tensors": [{"shape": [3], "data": [3, -1, 2]}], "history": [[0]]}
            yield {"kind": "mvn", "dtype": "float32", "dim": 1, "cat_axis": 0, "bessel": bessel,
                   "tensors": [{"shape": [0, 2], "data": []}], "history": [[0]]}
            yield {"kind": "mvn", "dtype": "float32", "dim": 1, "cat_axis": 0, "bessel": bessel,
                   "tensors": [{"shape": [0, 2], "data": []}, {"shape": [2, 2], "data": [1, 2, 5, 4]}],
                   "history": [[0], [1]]}

    # ---------------------------------------------------------------- mvn0
    def gen_mvn0(self, rng, big):
        """(audit) A normalised dimension of extent 0: no coefficient, but the frames are still counted
        (count += x.size(1)), sum / sumsq stay empty, store raises only below the documented minimum count
        and otherwise writes EMPTY statistics; forward returns the (empty) input shape.  The first model
        counted the frames on the coefficient columns (0 here) and let store raise."""
        for k in range(24 if big else 10):
            rank = rng.choice([1, 2, 2, 3])
            dim = rng.randrange(-rank, rank)
            d = dim % rank
            others = [a for a in range(rank) if a != d]
            cat = rng.choice(others) if others else None
            base = [rng.choice([1, 2, 3]) for _ in range(rank)]
            base[d] = 0
            shapes = []
            for i in range(rng.randrange(1, 4)):
                sh = list(base)
                if cat is not None:
                    sh[cat] = rng.choice([0, 1, 1, 2, 3]) if k % 3 else 1
                shapes.append(sh)
            if k % 3 == 0:
                shapes = shapes[:1]         # one call: one frame when every other extent is 1
                if k % 2 == 0:
                    shapes[0] = [0 if a == d else 1 for a in range(rank)]
            yield {"kind": "mvn0", "dim": dim, "cat_axis": cat, "shapes": shapes, "bessel": bool(k & 1),
                   "dtype": rng.choice(["float32", "float64"])}

    # ---------------------------------------------------------------- mvnseq
    def gen_mvnseq(self, rng, big):
        """The module as a state machine: any sequence of accumulate / store(delete_stats, bessel) calls,
        stores that must raise (nothing accumulated, buffers just deleted, zero or one frame) included;
        a caller that catches the RuntimeError carries on with the same object."""
        for k in range(260 if big else 70):
            n = rng.randrange(1, 5)
            pool = self.rand_pool(rng, n)
            nops = rng.randrange(1, 10)
            ops = []
            for j in range(nops):
                if rng.random() < (0.3 if j == 0 else 0.55):
                    ops.append(["store", rng.random() < 0.5, rng.random() < 0.4])
                else:
                    ops.append(["acc", rng.randrange(n)])
            if k % 3 == 0:
                ops.append(["store", rng.random() < 0.5, rng.random() < 0.4])
            X = pool["tensors"][0]["shape"][pool["dim"] % len(pool["tensors"][0]["shape"])]
            preset = rng.choice(["none", "none", "mean", "std", "both"])
            yield {"kind": "mvnseq", "dtype": pool["dtype"], "dim": pool["dim"], "tensors": pool["tensors"],
                   "ops": ops, "preset": preset, "layouts": [rng.choice(LAYOUTS) for _ in ops],
                   "preset_mean": [frac_str(Fraction(rng.randrange(-16, 17), 2)) for _ in range(X)],
                   "preset_std": [rng.choice(GIVEN_STD) for _ in range(X)]}

    # ---------------------------------------------------------------- cli
    def gen_cli(self, rng, big):
        for k in range(77 if big else 33):
            nfiles = rng.randrange(1, 6) if k > 1 else 0       # two runs on a directory without features
            # every 11 cases: one of each kind of map the parser must reject
            defect = {3: "dup", 5: "three", 7: "one"}.get(k % 11)
            rank = rng.choice([2, 2, 3])
            dim = rng.choice([-1, -1, 0, 1, -2]) if rank >= 2 else -1
            d = dim % rank
            X = rng.choice([1, 2, 3])
            files = []
            for i in range(nfiles):
                shape = [rng.choice([1, 2, 3]) for _ in range(rank)]
                shape[d] = X
                if dim < 0 and rng.random() < 0.25:
                    shape = [rng.choice([1, 2])] + shape        # files of different rank (negative dim)
                files.append({"id": f"u{rng.randrange(100):02d}x{i}", "shape": shape,
                              "data": [rng.randrange(-8, 9) for _ in range(prod(shape))]})
            groups = absent = None
            unlisted = False
            if rng.random() < 0.5 or defect:
                gids = rng.choice([["g1", "g2"], ["g1", "g2", "g3"], ["only"]])
                groups = {f["id"]: rng.choice(gids) for f in files}
                # ids listed in the map without a file in the directory (their group may stay empty)
                absent = {f"zz{j}": rng.choice(gids + ["ghost"]) for j in range(rng.choice([0, 0, 1, 2]))}
                unlisted = nfiles >= 1 and rng.random() < 0.12  # a file the map does not mention: error
            # a map the parser must reject (exit status 1, nothing written): an id listed twice, a line
            # that does not hold exactly two tokens
            yield {"kind": "cli", "dim": dim, "bessel": rng.random() < 0.5, "files": files, "groups": groups,
                   "absent": absent, "unlisted": unlisted, "map_style": rng.randrange(4), "map_defect": defect,
                   "prefix": rng.choice(["", "", "p-"]), "suffix": rng.choice([".pt", ".pt", ".feat"]),
                   "dtype": rng.choice(["float32", "float64"])}

    # ---------------------------------------------------------------- deltas
    def delta_case(self, rng, shape, dim, time_dim, concatenate, order, width, mode, dtype=None, value=None):
        D = len(shape)
        td = time_dim % D
        shape = list(shape)
        pad = order * width
        need = {"reflect": pad + 1, "circular": max(pad, 1), "replicate": 1, "constant": 1}[mode]
        if shape[td] < need:
            shape[td] = need + rng.choice([0, 0, 1, 2])
        if value is None:
            value = rng.choice([0, 0, 1, -3, 0.5]) if mode == "constant" else 0
        return {"kind": "deltas", "shape": shape, "data": [rng.randrange(-8, 9) for _ in range(prod(shape))],
                "dim": dim, "time_dim": time_dim, "concatenate": concatenate, "order": order, "width": width,
                "pad_mode": mode, "value": value, "dtype": dtype or rng.choice(["float32", "float32", "float64"]),
                "layout": rng.choice(LAYOUTS)}

    def layouts(self, D, negatives):
        for td in range(D):
            for cat in (True, False):
                for dm in range(D if cat else D + 1):
                    yield td, dm, cat
                    if negatives:
                        yield td - D, dm - (D if cat else D + 1), cat

    def rand_shape(self, rng, D):
        return [rng.choice([1, 2, 2, 3]) for _ in range(D)]

    def gen_deltas(self, rng, big):
        # (a) every legal layout, every pad mode, a rotating (order, width)
        ow = [(o, w) for o in range(4) for w in (1, 2, 3)]
        k = 0
        for D in (2, 3, 4):
            for li, (td, dm, cat) in enumerate(self.layouts(D, negatives=True)):
                # quick: two of the four modes per layout (rotating); thorough: all four, three shapes
                for mode in (PAD_MODES if big else (PAD_MODES[li % 4], PAD_MODES[(li + 2 + li // 4) % 4])):
                    for rep in range(3 if big else 1):
                        o, w = ow[k % len(ow)]
                        k += 5
                        yield self.delta_case(rng, self.rand_shape(rng, D), dm, td, cat, o, w, mode)
        # (b) every (order, width, mode) on a few layouts per rank, time extents from minimal up
        for D in (2, 3) if not big else (2, 3, 4):
            lay = list(self.layouts(D, negatives=False))
            for o in range(4):
                for w in (1, 2, 3):
                    for mode in PAD_MODES:
                        for rep in range(4 if big else 2):
                            td, dm, cat = rng.choice(lay)
                            shape = self.rand_shape(rng, D)
                            shape[td] = rng.choice([1, 2, 3, 4, 6])
                            yield self.delta_case(rng, shape, dm, td, cat, o, w, mode)
        # (c) rank 1 (time is the only axis) and default arguments
        for o in range(4):
            for mode in PAD_MODES:
                yield self.delta_case(rng, [rng.choice([1, 2, 5])], 0, 0, False, o, rng.choice([1, 2, 3]), mode)
                yield self.delta_case(rng, [rng.choice([1, 2, 5])], 0, 0, True, o, rng.choice([1, 2, 3]), mode)
                yield self.delta_case(rng, [2, 4, 3], -1, -2, True, o, 2, mode)
        # (e) the documented defaults themselves: feat_deltas(x) / FeatureDeltas()(x) without any argument
        for D in (2, 3, 4):
            yield self.delta_case(rng, self.rand_shape(rng, D), -1, -2, True, 2, 2, "replicate")
        # (f) wide windows and high orders (the kernel k / sum k^2 beyond width 3, 4-fold convolution)
        for o, w in ((1, 4), (1, 5), (1, 7), (2, 4), (4, 1), (4, 2), (1, 10), (0, 10)) + \
                (((2, 6), (3, 4), (5, 1)) if big else ()):
            for mode in (PAD_MODES if big else (PAD_MODES[(o + w) % 4], PAD_MODES[(o + w + 1) % 4])):
                D = rng.choice([1, 2, 3])
                td, dm, cat = rng.choice(list(self.layouts(D, negatives=False)))
                shape = self.rand_shape(rng, D)
                shape[td] = rng.choice([1, 3, 8])
                yield self.delta_case(rng, shape, dm, td, cat, o, w, mode)
        # (g) an axis of extent zero (not the time axis): an empty result of the right shape
        for D in (2, 3):
            for rep in range(4 if big else 2):
                td, dm, cat = rng.choice(list(self.layouts(D, negatives=False)))
                shape = self.rand_shape(rng, D)
                shape[rng.choice([a for a in range(D) if a != td])] = 0
                o, w = rng.choice([(1, 1), (2, 2), (0, 1)])
                shape[td] = max(shape[td], o * w + 1)
                yield self.delta_case(rng, shape, dm, td, cat, o, w, rng.choice(PAD_MODES))
        # (h) (audit) pad / conv1d check the SHAPE (rows, 1, T), not the content: an input WITHOUT any entry
        # (another axis has extent 0) and a padding the mode forbids for its T frames -> RuntimeError; the
        # same empty input with a legal padding -> an empty result; a time axis of extent 0 -> RuntimeError
        # in every mode (the first model returned an empty tensor in both error situations)
        for mode in PAD_MODES:
            for D in (2, 3):
                for rep in range(2 if big else 1):
                    td, dm, cat = rng.choice(list(self.layouts(D, negatives=False)))
                    o, w = rng.choice([(1, 2), (2, 1), (2, 2), (1, 3)])
                    base = self.delta_case(rng, [4 * 9] * D, dm, td, cat, o, w, mode)
                    shape = self.rand_shape(rng, D)
                    shape[rng.choice([a for a in range(D) if a != td])] = 0
                    for T in sorted({1, o * w - 1, o * w, o * w + 1}):
                        if T >= 1:
                            sh = list(shape)
                            sh[td] = T
                            yield dict(base, shape=sh, data=[])
                    # no frame at all: with and without entries elsewhere being impossible, both are empty
                    sh = self.rand_shape(rng, D)
                    sh[td] = 0
                    yield dict(base, shape=sh, data=[])
                    yield dict(base, shape=sh, data=[], order=0)
            yield dict(self.delta_case(rng, [5], 0, 0, True, 1, 1, mode), shape=[0], data=[])
        # (d) malformed: illegal pads, dims out of range, width 0, negative order
        for D in (2, 3):
            for rep in range(6 if big else 3):
                shape = self.rand_shape(rng, D)
                td = rng.randrange(D)
                o, w = rng.choice([(1, 2), (2, 1), (2, 2), (1, 3), (3, 1)])
                shape[td] = rng.randrange(1, o * w + 1)
                c = self.delta_case(rng, [9] * D, rng.randrange(D), td, True, o, w, "constant")
                c.update(shape=shape, data=[rng.randrange(-8, 9) for _ in range(prod(shape))],
                         pad_mode="reflect")
                yield c
                if shape[td] < o * w:
                    yield dict(c, pad_mode="circular")
                good = self.delta_case(rng, self.rand_shape(rng, D), 0, 0, True, 1, 1, "replicate")
                yield dict(good, dim=D)
                yield dict(good, dim=-D - 1)
                yield dict(good, time_dim=D)
                yield dict(good, time_dim=-D - 1)
                yield dict(good, concatenate=False, dim=D + 1)
                yield dict(good, width=0)
                yield dict(good, order=-1)

    # ---------------------------------------------------------------- returns
    def gen_return(self, rng, big):
        gammas = ["0", "1/2", "1", "2", "-1/2", "-1", "1/4"]
        for T in range(0, 9):
            for N in ((1, 2, 3) if big else (1, 2)):
                for g in gammas:
                    for bf in (False, True):
                        for rep in range(2 if big else 1):
                            r = [[rng.randrange(-8, 9) for _ in range(N)] for _ in range(T)]
                            if bf:
                                r = [[r[t][n] for t in range(T)] for n in range(N)]
                            yield {"kind": "return", "r": r, "rows": N if bf else T, "cols": T if bf else N,
                                   "gamma": g, "batch_first": bf, "stream": "exact",
                                   "dtype": rng.choice(["float32", "float64"]), "layout": rng.choice(LAYOUTS),
                                   "int_gamma": "/" not in g and rng.random() < 0.5}
        for rep in range(120 if big else 30):
            T, N = rng.randrange(1, 41), rng.randrange(1, 4)
            bf = rng.random() < 0.5
            g = rng.choice([0.9, 0.99, 0.3, 1.1, -0.7, 0.5, 1.0])
            r = [[rng.randrange(-8, 9) for _ in range(T if bf else N)] for _ in range(N if bf else T)]
            yield {"kind": "return", "r": r, "rows": len(r), "cols": T if bf else N, "gamma": frac_str(g),
                   "batch_first": bf, "stream": "tol", "dtype": rng.choice(["float32", "float64"]),
                   "layout": rng.choice(LAYOUTS)}
        # an empty batch; integer-typed gamma; rewards that are not 2-dimensional (documented RuntimeError)
        for bf in (False, True):
            for g in ("1/2", "0", "2"):
                T = rng.randrange(1, 5)
                yield {"kind": "return", "r": [[] for _ in range(T)] if not bf else [], "rows": 0 if bf else T,
                       "cols": T if bf else 0, "gamma": g, "batch_first": bf, "stream": "exact", "dtype": "float32"}
            for shape in ([3], [2, 2, 2], []):
                yield {"kind": "return", "bad_shape": shape, "gamma": rng.choice(["1/2", "0", "1"]),
                       "batch_first": bf, "stream": "malformed", "dtype": "float32"}
        # long horizons (oracle only): every R_t is representable, gamma^t alone underflows
        for T, g in ((200, 0.5), (1000, 0.9), (1200, 0.5)) + (((3000, 0.95), (1500, -0.9)) if big else ()):
            for bf in (False, True):
                yield {"kind": "return", "long": True, "T": T, "N": 2, "gamma": frac_str(g), "batch_first": bf,
                       "stream": "oracle", "seed": rng.randrange(1 << 30), "dtype": "float32"}

    # ================================================================ implementation
    def run_impl(self, case):
        return getattr(self, "impl_" + case["kind"])(case)

    # ---------------------------------------------------------------- mvn
    def chunks_of(self, case):
        import torch
        ts = [mk(t, case["dtype"]) for t in case["tensors"]]
        lift, lay = case.get("lift") or [], case.get("layouts") or []
        out = []
        for j, ch in enumerate(case["history"]):
            if case["cat_axis"] is None:
                assert len(ch) == 1
                c = ts[ch[0]]
            else:
                c = torch.cat([ts[i] for i in ch], case["cat_axis"])
            if j < len(lift) and lift[j]:
                # the same frames as a tensor of one more rank (the normalised dim keeps its meaning)
                c = c.unsqueeze(0) if case["dim"] < 0 else c.unsqueeze(-1)
            if lay:
                c = relayout(c, lay[j % len(lay)])
            out.append(c)
        return ts, out

    def pooled_of(self, case, ts):
        import torch
        if case["cat_axis"] is None:
            p, d = torch.stack(ts, 0), -1     # rank 1: the frames stacked; coefficient axis is last
        else:
            p, d = torch.cat(ts, case["cat_axis"]), case["dim"]
        lay = case.get("layouts")
        return (relayout(p, lay[-1]) if lay else p), d

    def mid_of(self, case):
        k = case.get("store_after")
        if k is None:
            return None
        k = min(k, len(case["history"]) - 1)
        return k if k >= 1 else None

    def new_mvn(self, dim, mean=None, std=None, eps=None):
        """Arguments equal to their documented default (dim=-1, eps=config.TINY) are left out of the call."""
        from pydrobert.torch.modules import MeanVarianceNormalization
        kw = {} if eps is None else {"eps": float(Fraction(eps))}
        if dim == -1 and mean is None and std is None:
            return MeanVarianceNormalization(**kw)
        return MeanVarianceNormalization(dim, mean, std, **kw)

    def acc_obs(self, mvn):
        return {"count": frac_str(mvn.count.item()), "sum": fl(mvn.sum.tolist()), "sumsq": fl(mvn.sumsq.tolist())}

    def col_stats(self, y, dim):
        yc = y.double().movedim(dim, 0).flatten(1)
        if yc.size(1) == 0:
            return {"m1": [], "m2": []}
        return {"m1": fl(yc.mean(1).tolist()), "m2": fl((yc * yc).mean(1).tolist())}

    def probe_of(self, case, ts):
        """The tensor the forward grid normalises: the tensors `fwd.probe` of the pool, put together like
        the pooled tensor (stacked for rank-1 pools), in the memory layout drawn for the pooled tensor."""
        import torch
        fwd = case.get("fwd")
        if not fwd:
            return None, None
        sel = [ts[i] for i in fwd["probe"]]
        if case["cat_axis"] is None:
            p, d = torch.stack(sel, 0), -1
        else:
            p, d = torch.cat(sel, case["cat_axis"]), case["dim"]
        lay = case.get("layouts")
        return (relayout(p, lay[0]) if lay else p), d

    def given_stats(self, case):
        import torch
        fwd = case["fwd"]
        dt = torch.float32 if fwd.get("stat_dtype") == "float32" else torch.float64
        out = []
        for k in ("mean", "std"):
            t = torch.tensor([float(Fraction(v)) for v in fwd[k]], dtype=dt)
            out.append(relayout(t, fwd.get("stat_layout")))
        return out

    def fwd_grid(self, x, dim, mean, std, eps, holder=None):
        """`mean_var_norm` for every combination of supplied / omitted statistics, each through every
        entry route: the functional (positional and by keyword with defaults left out), a module built
        with the statistics, a module built without any whose buffers are then assigned one at a time, and
        (`holder`) a module that accumulated and stored, with the buffer of the omitted statistic set to
        None.  All routes must return the same tensor; the positional functional result is reported."""
        import torch
        from pydrobert.torch.functional import mean_var_norm
        ekw = {} if eps is None else {"eps": float(Fraction(eps))}
        obs, differ = {}, []
        keep = x.clone()
        for name, (m, s) in (("none", (None, None)), ("mean", (mean, None)), ("std", (None, std)),
                             ("both", (mean, std))):
            y = mean_var_norm(x, dim, m, s, **ekw)
            kw = dict(ekw)
            if dim != -1:
                kw["dim"] = dim
            if m is not None:
                kw["mean"] = m
            if s is not None:
                kw["std"] = s
            routes = {"functional_kw": lambda: mean_var_norm(x, **kw),
                      "ctor": lambda: self.new_mvn(dim, m, s, eps)(x)}

            def assigned():
                mod = self.new_mvn(dim, eps=eps)
                if s is not None:
                    mod.std = s
                if m is not None:
                    mod.mean = m
                return mod(x)
            routes["assigned"] = assigned
            if holder is not None:
                def held():
                    old = holder.mean, holder.std
                    try:
                        holder.mean, holder.std = m, s
                        return holder(x)
                    finally:
                        holder.mean, holder.std = old
                routes["stored_then_unset"] = held
            for rname, f in routes.items():
                try:
                    yr = f()
                    same = yr.shape == y.shape and yr.dtype == y.dtype and \
                        bool(torch.equal(torch.nan_to_num(yr, nan=12345.0), torch.nan_to_num(y, nan=12345.0)))
                except Exception as e:          # a route that refuses what the functional accepts
                    same = False
                    rname += f" raised {type(e).__name__}"
                if not same:
                    differ.append(f"{name}:{rname}")
            obs[name] = {"y": fl(y.flatten().tolist()), "stats": self.col_stats(y, dim),
                         "shape_ok": y.shape == x.shape and y.dtype == x.dtype}
        obs["routes_differ"] = differ
        obs["input_kept"] = bool(torch.equal(keep, x))
        return obs

    def impl_mvn(self, case):
        import torch
        from pydrobert.torch.functional import mean_var_norm
        ts, chunks = self.chunks_of(case)
        pooled, pdim = self.pooled_of(case, ts)
        eps = case.get("eps")
        ekw = {} if eps is None else {"eps": float(Fraction(eps))}
        mid = self.mid_of(case)
        mutated = []
        obs = {}
        probe, prdim = self.probe_of(case, ts)
        pm = ps = None
        if probe is not None:
            gmean, gstd = self.given_stats(case)
            obs["grid_given"] = self.fwd_grid(probe, prdim, gmean, gstd, eps)
            # the accumulating module may start out with statistics of its own: store must overwrite them
            preset = case["fwd"].get("preset", "none")
            pm = gmean.clone() if preset in ("mean", "both") else None
            ps = gstd.clone() if preset in ("std", "both") else None
        mvn = self.new_mvn(case["dim"], pm, ps, eps)
        for j, c in enumerate(chunks):
            if mid is not None and j == mid:
                # store in the middle of the history, keeping the buffers: they must stay what they were
                before = self.acc_obs(mvn)
                try:
                    mvn.store(delete_stats=False, bessel=case["bessel"])
                    obs["mid"] = {"acc": before, "mean": fl(mvn.mean.tolist()), "std": fl(mvn.std.tolist())}
                except RuntimeError:
                    obs["mid"] = {"acc": before, "mean": None}
                obs["mid"]["buffers_kept"] = mvn.count is not None and self.acc_obs(mvn) == before
            keep = c.clone()
            mvn.accumulate(c)
            if not torch.equal(keep, c):
                mutated.append("accumulate")
        obs["acc"] = self.acc_obs(mvn)
        obs["buffers_double"] = all(b.dtype == torch.float64 for b in (mvn.count, mvn.sum, mvn.sumsq))
        frames = pooled.numel() // max(pooled.size(pdim), 1)
        obs["frames"] = frames
        keep = pooled.clone()
        if frames:
            own = self.new_mvn(pdim, eps=eps)(pooled)
            obs["own"] = {"y": fl(own.flatten().tolist()), "stats": self.col_stats(own, pdim),
                          "dtype_ok": own.dtype == pooled.dtype and own.shape == pooled.shape,
                          "functional_equal": bool(torch.equal(
                              own, mean_var_norm(pooled, **({} if pdim == -1 else {"dim": pdim}), **ekw)))}
        # (audit) what the Lean model does not carry: the normalised dimension is a Nat there (the driver
        # normalises it), and statistics of the wrong length are silently truncated by the list model.  The
        # code must reject both: IndexError for a dimension outside [-rank, rank), RuntimeError for a
        # statistics vector whose length is not x.size(dim).
        rej = {}
        R, Xp = pooled.dim(), pooled.size(pdim)
        for name, f in (
                ("functional dim=rank", lambda: mean_var_norm(pooled, R)),
                ("functional dim=-rank-1", lambda: mean_var_norm(pooled, -R - 1)),
                ("accumulate dim=rank", lambda: self.new_mvn(R).accumulate(pooled)),
                ("accumulate dim=-rank-1", lambda: self.new_mvn(-R - 1).accumulate(pooled)),
                ("mean one too long", lambda: mean_var_norm(pooled, pdim, torch.zeros(Xp + 1), None)),
                ("std one too long", lambda: mean_var_norm(pooled, pdim, None, torch.ones(Xp + 1)))):
            try:
                f()
                rej[name] = "returned"
            except Exception as e:
                rej[name] = type(e).__name__
        obs["rejects"] = rej
        try:
            mvn.store(delete_stats=False, bessel=case["bessel"])
        except RuntimeError as e:
            obs["store"] = None
            obs["store_error"] = str(e)[:80]
            obs["mutated"] = mutated
            return obs
        mean, std = mvn.mean, mvn.std
        mvn2 = self.new_mvn(pdim, mean, std, eps)
        y = mvn2(pooled)
        y_mean_only = mean_var_norm(pooled, pdim, mean, None, **ekw)
        y_std_only = mean_var_norm(pooled, pdim, None, std, **ekw)
        obs["store"] = {
            "mean": fl(mean.tolist()), "std": fl(std.tolist()),
            "y": fl(y.flatten().tolist()), "stats": self.col_stats(y, pdim),
            "y_mean_only": fl(y_mean_only.flatten().tolist()),
            "y_std_only": fl(y_std_only.flatten().tolist()),
            "same_via_self": bool(torch.equal(mvn.to(pooled.device)(pooled) if pdim == case["dim"] else y, y)),
            "module_half_equal": bool(
                torch.equal(self.new_mvn(pdim, mean, None, eps)(pooled), y_mean_only)
                and torch.equal(self.new_mvn(pdim, None, std, eps)(pooled), y_std_only)
                and torch.equal(mean_var_norm(pooled, pdim, mean, std, **ekw), y)),
            "buffers_kept": mvn.count is not None and self.acc_obs(mvn) == obs["acc"],
        }
        if not torch.equal(keep, pooled):
            mutated.append("forward")
        if probe is not None:
            # the statistics just stored (those of the whole pool) applied to the probe, every combination
            obs["grid_stored"] = self.fwd_grid(probe, prdim, mean, std, eps,
                                               holder=mvn if prdim == case["dim"] else None)
            obs["store"]["holder_restored"] = bool(torch.equal(mvn.mean, mean) and torch.equal(mvn.std, std))
        # store(delete_stats=True) must forget the buffers and write the same statistics
        mvn.store(delete_stats=True, bessel=case["bessel"])
        obs["store"]["deleted"] = mvn.count is None and mvn.sum is None and mvn.sumsq is None
        obs["store"]["same_after_delete"] = bool(torch.equal(mvn.mean, mean) and torch.equal(mvn.std, std))
        # nothing accumulated any more: store must raise, accumulate must start from zero
        try:
            mvn.store(bessel=case["bessel"])
            obs["store"]["empty_store_raises"] = False
        except RuntimeError:
            obs["store"]["empty_store_raises"] = True
        mvn.accumulate(chunks[0])
        obs["restart"] = self.acc_obs(mvn)
        obs["mutated"] = mutated
        return obs

    def impl_mvn0(self, case):
        import torch
        from pydrobert.torch.functional import mean_var_norm
        from pydrobert.torch.modules import MeanVarianceNormalization
        dt = torch.float32 if case["dtype"] == "float32" else torch.float64
        ts = [torch.zeros(sh, dtype=dt) for sh in case["shapes"]]
        mvn = self.new_mvn(case["dim"])
        for t in ts:
            mvn.accumulate(t)
        obs = {"count": frac_str(Fraction(float(mvn.count))), "sum_len": mvn.sum.numel(),
               "sumsq_len": mvn.sumsq.numel(),
               "buffers_double": all(b.dtype == torch.float64 for b in (mvn.count, mvn.sum, mvn.sumsq))}
        x = ts[0]
        obs["own_shape"] = list(mean_var_norm(x, case["dim"]).shape)
        try:
            mvn.store(delete_stats=False, bessel=case["bessel"])
            obs["store"] = {"mean_len": mvn.mean.numel(), "std_len": mvn.std.numel(),
                            "ndim": [mvn.mean.dim(), mvn.std.dim()],
                            "module_shape": list(mvn(x).shape),
                            "functional_shape": list(mean_var_norm(x, case["dim"], mvn.mean, mvn.std).shape),
                            "buffers_kept": mvn.count is not None}
        except RuntimeError as e:
            obs["store"] = None
            obs["store_error"] = str(e)[:80]
        # the constructor documents non-empty statistics: it must keep rejecting empty ones
        ctor = {}
        for name, a in (("mean", (torch.zeros(0), None)), ("std", (None, torch.zeros(0)))):
            try:
                MeanVarianceNormalization(case["dim"], *a)
                ctor[name] = "returned"
            except Exception as e:
                ctor[name] = type(e).__name__
        obs["ctor_empty"] = ctor
        return obs

    def req_mvn0(self, case):
        from pydrobert.torch import config
        shapes = case["shapes"]
        pooled = list(shapes[0])
        if case["cat_axis"] is not None:
            pooled[case["cat_axis"]] = sum(sh[case["cat_axis"]] for sh in shapes)
        return {"op": "c18.mvn", "case": {
            "dim": case["dim"], "pooled_dim": case["dim"], "bessel": case["bessel"], "eps": frac_str(config.TINY),
            "mid": None, "chunks": [{"shape": sh, "data": []} for sh in shapes],
            "pooled": {"shape": pooled, "data": []}, "grids": []}}

    @staticmethod
    def mvn0_frames(case):
        n = 0
        for sh in case["shapes"]:
            d = case["dim"] % len(sh)
            n += prod([e for a, e in enumerate(sh) if a != d])
        return n

    def cmp_mvn0(self, case, impl, model):
        out = []
        a = model["acc"]
        if F(impl["count"]) != F(a["count"]):
            out.append(f"count impl={impl['count']} model={a['count']}")
        if impl["sum_len"] != len(a["sum"]) or impl["sumsq_len"] != len(a["sumsq"]):
            out.append(f"buffer lengths impl=({impl['sum_len']}, {impl['sumsq_len']}) model=({len(a['sum'])}, {len(a['sumsq'])})")
        if (impl["store"] is None) != (model["store"] is None):
            out.append(f"store: impl {'raised' if impl['store'] is None else 'stored'}, "
                       f"model {'raises' if model['store'] is None else 'stores'}")
        elif impl["store"] is not None and (impl["store"]["mean_len"] != len(model["store"]["mean"])
                                            or impl["store"]["std_len"] != len(model["store"]["var"])):
            out.append("stored statistics of different length")
        return out

    def pred_mvn0(self, case, impl, model):
        fails = []
        frames = self.mvn0_frames(case)
        if F(impl["count"]) != frames:
            fails.append((f"no coefficient: count {impl['count']} is not the number of frames {frames}", None))
        if impl["sum_len"] or impl["sumsq_len"] or not impl["buffers_double"]:
            fails.append(("no coefficient: sum / sumsq are not empty double buffers", None))
        need = 2 if case["bessel"] else 1
        if frames < need:
            if impl["store"] is not None:
                fails.append((f"store(bessel={case['bessel']}) accepted {frames} frame(s)", None))
        elif impl["store"] is None:
            fails.append((f"store(bessel={case['bessel']}) raised with {frames} frames (no coefficient): "
                          f"{impl.get('store_error')}", None))
        else:
            st = impl["store"]
            if st["mean_len"] or st["std_len"] or st["ndim"] != [1, 1]:
                fails.append(("no coefficient: stored statistics are not empty vectors", None))
            if st["module_shape"] != case["shapes"][0] or st["functional_shape"] != case["shapes"][0]:
                fails.append(("forward with the stored empty statistics changed the shape", None))
            if not st["buffers_kept"]:
                fails.append(("store(delete_stats=False) dropped the buffers", None))
        if impl["own_shape"] != case["shapes"][0]:
            fails.append(("forward with own statistics changed the shape", None))
        for name, got in impl["ctor_empty"].items():
            if got != "ValueError":
                fails.append((f"constructor with an empty {name}: {got}, expected ValueError", None))
        return fails

    def req_mvn(self, case):
        ts, chunks = self.chunks_of(case)
        pooled, pdim = self.pooled_of(case, ts)
        if pooled.numel() // max(pooled.size(pdim), 1) == 0:
            # no frame at all: only the accumulators / the store error are specified
            pooled = pooled.new_zeros([1 if i != pdim % pooled.dim() else pooled.size(pdim)
                                       for i in range(pooled.dim())])
        from pydrobert.torch import config
        eps = case.get("eps")
        # the module is built with case["dim"]; the pooled tensor of a rank-1 pool is rank 2 with dim -1.
        return {"op": "c18.mvn", "case": {
            "dim": case["dim"], "pooled_dim": pdim, "bessel": case["bessel"],
            "eps": frac_str(config.TINY) if eps is None else eps, "mid": self.mid_of(case),
            "chunks": [tcase(c) for c in chunks], "pooled": tcase(pooled), "grids": self.grids_req(case, ts)}}

    def grids_req(self, case, ts):
        probe, prdim = self.probe_of(case, ts)
        if probe is None:
            return []
        x = tcase(probe)
        return [{"x": x, "dim": prdim, "mean": case["fwd"]["mean"], "std": case["fwd"]["std"]},
                {"x": x, "dim": prdim, "use_stored": True}]

    # ---------------------------------------------------------------- mvnseq
    def impl_mvnseq(self, case):
        import torch
        ts = [mk(t, case["dtype"]) for t in case["tensors"]]
        pm = ps = None
        if case.get("preset") in ("mean", "both"):
            pm = torch.tensor([float(Fraction(v)) for v in case["preset_mean"]], dtype=torch.float64)
        if case.get("preset") in ("std", "both"):
            ps = torch.tensor([float(Fraction(v)) for v in case["preset_std"]], dtype=torch.float64)
        mvn = self.new_mvn(case["dim"], pm, ps)
        lays = case.get("layouts") or []
        steps = []
        for j, op in enumerate(case["ops"]):
            raised = False
            try:
                if op[0] == "acc":
                    x = relayout(ts[op[1]], lays[j] if j < len(lays) else None)
                    keep = x.clone()
                    mvn.accumulate(x)
                    if not torch.equal(keep, x):
                        raised = "input modified"
                else:
                    # arguments equal to the documented defaults (delete_stats=True, bessel=False) left out
                    kw = {}
                    if not op[1]:
                        kw["delete_stats"] = False
                    if op[2]:
                        kw["bessel"] = True
                    mvn.store(**kw)
            except RuntimeError:
                raised = True
            bufs = (mvn.count, mvn.sum, mvn.sumsq)
            steps.append({
                "raised": raised,
                "acc": self.acc_obs(mvn) if all(b is not None for b in bufs) else None,
                "buffers_consistent": all(b is None for b in bufs) or all(b is not None for b in bufs),
                "mean": None if mvn.mean is None else fl(mvn.mean.tolist()),
                "std": None if mvn.std is None else fl(mvn.std.tolist())})
        return {"steps": steps}

    def req_mvnseq(self, case):
        return {"op": "c18.machine", "case": {
            "dim": case["dim"], "tensors": case["tensors"],
            "ops": [{"acc": op[1]} if op[0] == "acc" else {"store": [bool(op[1]), bool(op[2])]}
                    for op in case["ops"]]}}

    def preset_obs(self, case):
        pm = [frac_str(F(v)) for v in case["preset_mean"]] if case.get("preset") in ("mean", "both") else None
        ps = [frac_str(F(v)) for v in case["preset_std"]] if case.get("preset") in ("std", "both") else None
        return pm, ps

    def cmp_mvnseq(self, case, impl, model):
        out = []
        pm, ps = self.preset_obs(case)
        for j, (a, b) in enumerate(zip(impl["steps"], model["steps"])):
            op = case["ops"][j]
            if a["raised"] is not b["raised"]:
                out.append(f"call {j} {op}: impl raised={a['raised']} model raised={b['raised']}")
            if (a["acc"] is None) != (b["acc"] is None) or (a["acc"] is not None and not self.acc_eq(a["acc"], b["acc"])):
                out.append(f"call {j} {op}: buffers impl={a['acc']} model={b['acc']}")
            if b["stats"] is None:
                if (a["mean"], a["std"]) != (pm, ps):
                    out.append(f"call {j} {op}: statistics changed although no store has succeeded")
            elif a["mean"] is None or a["std"] is None:
                out.append(f"call {j} {op}: no statistics although a store has succeeded")
            else:
                bad = first_bad(a["mean"], b["stats"]["mean"], 1e-12, 1e-12) or \
                    first_bad([frac_str(F(v) * F(v)) for v in a["std"]], b["stats"]["var"], 1e-10, 1e-10)
                if bad:
                    out.append(f"call {j} {op}: statistics differ: {bad}")
        return out[:4]

    def pred_mvnseq(self, case, impl, model):
        """The bookkeeping the docstrings promise, call by call: accumulate only ever adds to the buffers;
        store raises exactly when fewer than 1 (Bessel: 2) frames are pending and then changes nothing;
        otherwise it writes the pooled statistics of everything pending (Lean: from coeffEntries of the
        pending tensors), overwriting what was there, and drops the buffers iff delete_stats."""
        fails = []
        prev = {"acc": None, "mean": None, "std": None}
        prev["mean"], prev["std"] = self.preset_obs(case)
        for j, (a, b) in enumerate(zip(impl["steps"], model["steps"])):
            op = case["ops"][j]
            what = f"call {j} ({'accumulate' if op[0] == 'acc' else f'store(delete_stats={op[1]}, bessel={op[2]})'})"
            if not a["buffers_consistent"]:
                fails.append((f"{what}: only some of count / sum / sumsq exist", None))
            if a["raised"] == "input modified":
                fails.append((f"{what}: the caller's tensor was modified", None))
            if op[0] == "acc":
                if a["raised"] is True:
                    fails.append((f"{what} raised", None))
                if (a["mean"], a["std"]) != (prev["mean"], prev["std"]):
                    fails.append((f"{what} changed the stored statistics", None))
                if a["acc"] is None or not self.acc_eq(a["acc"], b["acc"]):
                    fails.append((f"{what}: buffers are not the totals of the frames pending: {a['acc']}", None))
            elif b["raised"]:
                if a["raised"] is not True:
                    fails.append((f"{what} succeeded with too few frames pending", None))
                if (a["acc"], a["mean"], a["std"]) != (prev["acc"], prev["mean"], prev["std"]):
                    fails.append((f"{what} raised but changed the module", None))
            else:
                if a["raised"] is True:
                    fails.append((f"{what} raised although enough frames are pending", None))
                else:
                    sp = b["stored_now"]
                    bad = (a["mean"] is None or a["std"] is None) and "statistics missing"
                    bad = bad or first_bad(a["mean"], sp["mean"], 1e-12, 1e-12) or \
                        first_bad([frac_str(F(v) * F(v)) for v in a["std"]], sp["var"], 1e-10, 1e-10)
                    if bad:
                        fails.append((f"{what}: stored statistics are not the pooled statistics of the frames "
                                      f"accumulated since the last deleting store: {bad}", None))
                    if op[1] and a["acc"] is not None:
                        fails.append((f"{what} kept the buffers", None))
                    if not op[1] and a["acc"] != prev["acc"]:
                        fails.append((f"{what} changed or dropped the buffers", None))
            prev = {"acc": a["acc"], "mean": a["mean"], "std": a["std"]}
            if fails:
                break
        return fails

    # ---------------------------------------------------------------- cli
    def cli_expect_rc1(self, case):
        """Documented error exits: no feature file at all (without groups), a file the map does not list, a
        map with a repeated id or with a line that is not a pair."""
        return bool(case.get("unlisted")) or (not case["files"] and case["groups"] is None) \
            or bool(case.get("map_defect") and case["groups"])

    def cli_map_lines(self, case):
        """The (id, gid) lines of the --id2gid file in the order they are written."""
        lines = list(case["groups"].items())
        if case.get("unlisted"):
            lines = lines[:-1]
        lines += list((case.get("absent") or {}).items())
        if case.get("map_style", 0) & 1:
            lines = sorted(lines)
        if case.get("map_defect") == "dup" and lines:
            lines = lines + [(lines[0][0], lines[0][1] + "x")]
        return lines

    @staticmethod
    def cli_groups(model):
        return model["groups"] if isinstance(model, dict) else model

    def impl_cli(self, case):
        import torch
        from pydrobert.torch import command_line
        with tempfile.TemporaryDirectory(prefix="c18-") as td:
            d = os.path.join(td, "feat")
            os.mkdir(d)
            for f in case["files"]:
                torch.save(mk(f, case["dtype"]), os.path.join(d, case["prefix"] + f["id"] + case["suffix"]))
            # files that must be ignored: other suffix, other prefix
            torch.save(torch.full((2, 7), 99.0), os.path.join(d, case["prefix"] + "stray.ignored"))
            if case["prefix"]:
                torch.save(torch.full((2, 7), 99.0), os.path.join(d, "q-stray" + case["suffix"]))
            out = os.path.join(td, "out.pt")
            # options equal to their documented default (--dim -1, no prefix, suffix .pt) are left out
            args = [d, out, "--num-workers", "0"]
            if case["dim"] != -1:
                args += ["--dim", str(case["dim"])]
            if case["prefix"] != "":
                args += ["--file-prefix", case["prefix"]]
            if case["suffix"] != ".pt":
                args += ["--file-suffix", case["suffix"]]
            if case["bessel"]:
                args.append("--bessel")
            if case["groups"] is not None:
                gp = os.path.join(td, "id2gid")
                lines = self.cli_map_lines(case)
                style = case.get("map_style", 0)
                with open(gp, "w") as fh:
                    for i, (k, v) in enumerate(lines):
                        fh.write(f"{k} {v}\n" if not style & 2 else f"  {k}\t  {v}  \n" + ("\n" if i == 0 else ""))
                    if case.get("map_defect") == "three":
                        fh.write("some id gid\n")
                    elif case.get("map_defect") == "one":
                        fh.write("lonely\n")
                args += ["--id2gid", gp]
            with contextlib.redirect_stderr(io.StringIO()):
                rc = command_line.compute_mvn_stats_for_torch_feat_data_dir(args)
            if rc:
                return {"rc": rc, "wrote": os.path.exists(out)}
            res = torch.load(out)
        if case["groups"] is None:
            res = {"": res}
        keys_ok = all(set(v) == {"mean", "std"} for v in res.values())
        return {"rc": 0, "keys_ok": keys_ok, "groups": [
            {"gid": g, "mean": fl(v["mean"].tolist()), "std": fl(v["std"].tolist())}
            for g, v in sorted(res.items())]}

    def req_cli(self, case):
        files = sorted(case["files"], key=lambda f: f["id"])
        if case["groups"] is None:
            groups = [{"gid": "", "files": [{"shape": f["shape"], "data": f["data"]} for f in files]}]
        else:
            # a group is written only when at least one of its files exists
            gids = sorted(set(case["groups"].values()))
            groups = [{"gid": g, "files": [{"shape": f["shape"], "data": f["data"]} for f in files
                                           if case["groups"][f["id"]] == g]} for g in gids]
        req = {"dim": case["dim"], "bessel": case["bessel"], "groups": groups}
        if case.get("map_defect") not in ("three", "one"):
            # the command itself (group table, lookups, exit status) as modelled in Lean: files in the order
            # of the directory dataset (sorted ids) + the parsed id map
            req["files"] = [{"id": f["id"], "x": {"shape": f["shape"], "data": f["data"]}} for f in files]
            if case["groups"] is not None:
                req["map"] = [[k, v] for k, v in self.cli_map_lines(case)]
        return {"op": "c18.cli", "case": req}

    # ---------------------------------------------------------------- deltas
    DELTA_DEFAULTS = {"dim": -1, "time_dim": -2, "concatenate": True, "order": 2, "width": 2,
                      "pad_mode": "replicate", "value": 0.0}

    def impl_deltas(self, case):
        import torch
        from pydrobert.torch.functional import feat_deltas
        from pydrobert.torch.modules import FeatureDeltas
        x = relayout(mk(case, case["dtype"]), case.get("layout"))
        keep = x.clone()
        args = (case["dim"], case["time_dim"], case["concatenate"], case["order"], case["width"],
                case["pad_mode"], float(case["value"]))
        # the same call with every argument that equals its documented default left out
        kw = {k: v for k, v in zip(self.DELTA_DEFAULTS, args) if v != self.DELTA_DEFAULTS[k]}
        try:
            y = feat_deltas(x, *args)
        except (RuntimeError, IndexError, ValueError) as e:
            obs = {"raised": type(e).__name__, "message": str(e)[:120]}
            try:
                FeatureDeltas(*args).to(x.dtype)(x)
                obs["module_raised"] = False
            except Exception:
                obs["module_raised"] = True
            return obs
        obs = {"shape": list(y.shape), "data": fl(y.flatten().tolist()), "dtype_ok": y.dtype == x.dtype}
        try:
            ym = FeatureDeltas(*args).to(x.dtype)(x)   # the filter buffer follows the module's dtype
            obs["module_equal"] = bool(ym.shape == y.shape and torch.equal(ym, y))
            yk = feat_deltas(x, **kw)
            ymk = FeatureDeltas(**kw).to(x.dtype)(x)
            obs["defaults_equal"] = bool(yk.shape == y.shape and torch.equal(yk, y)
                                         and ymk.shape == y.shape and torch.equal(ymk, y))
        except Exception as e:
            obs["module_equal"] = f"module raised {type(e).__name__}: {e}"[:160]
        obs["input_kept"] = bool(torch.equal(keep, x))
        return obs

    def req_deltas(self, case):
        return {"op": "c18.deltas", "case": {
            "x": {"shape": case["shape"], "data": case["data"]}, "dim": case["dim"],
            "time_dim": case["time_dim"], "concatenate": case["concatenate"], "order": case["order"],
            "width": case["width"], "pad_mode": case["pad_mode"], "value": frac_str(case["value"])}}

    # ---------------------------------------------------------------- returns
    def long_rewards(self, case):
        import random
        rr = random.Random(case["seed"])
        T, N = case["T"], case["N"]
        r = [[rr.randrange(-4, 5) for _ in range(N)] for _ in range(T)]
        if case["batch_first"]:
            r = [[r[t][n] for t in range(T)] for n in range(N)]
        return r

    def impl_return(self, case):
        import torch
        from pydrobert.torch.functional import time_distributed_return
        from pydrobert.torch.modules import TimeDistributedReturn
        dt = torch.float32 if case["dtype"] == "float32" else torch.float64
        g = float(Fraction(case["gamma"]))
        if case.get("long"):
            r = torch.tensor(self.long_rewards(case), dtype=dt)
            R = time_distributed_return(r, g, case["batch_first"])
            if not case["batch_first"]:
                r, R = r.t(), R.t()
            r, R = r.double(), R.double()
            T = r.size(1)
            finite = bool(torch.isfinite(R).all())
            nonfinite = int((~torch.isfinite(R)).sum())
            # residual of the recursion R_t - (r_t + g R_{t+1}), R_T = 0, relative to the scale
            nxt = torch.cat([R[:, 1:], torch.zeros_like(R[:, :1])], 1)
            res = (R - (r + g * nxt)).abs()
            res = torch.where(torch.isfinite(res), res, torch.full_like(res, float("inf")))
            return {"finite": finite, "nonfinite": nonfinite, "T": T,
                    "first_bad_t": int((~torch.isfinite(R)).any(0).nonzero()[0]) if nonfinite else None,
                    "max_residual": float(res.max()) if T else 0.0}
        if case["stream"] == "malformed":
            r = torch.zeros(case["bad_shape"], dtype=dt)
            out = {}
            for name, f in (("functional", lambda: time_distributed_return(r, g, case["batch_first"])),
                            ("module", lambda: TimeDistributedReturn(g, case["batch_first"])(r))):
                try:
                    f()
                    out[name] = "returned"
                except Exception as e:
                    out[name] = type(e).__name__
            return out
        rows, cols = case["rows"], case["cols"]
        r = relayout(torch.tensor(case["r"], dtype=dt).view(rows, cols), case.get("layout"))
        keep = r.clone()
        if case.get("int_gamma"):
            g = int(Fraction(case["gamma"]))       # gamma = 0, 1, 2 given as a python int
        R = time_distributed_return(r, g, case["batch_first"])
        Rm = TimeDistributedReturn(g, case["batch_first"])(r)
        # batch_first equal to the functional's documented default (False) left out of the call
        Rk = time_distributed_return(r, g) if not case["batch_first"] else R
        return {"shape": list(R.shape), "R": [fl(row) for row in R.tolist()],
                "module_equal": bool((torch.equal(R, Rm) and torch.equal(R, Rk)) or (R != R).any()),
                "dtype_ok": R.dtype == r.dtype, "input_kept": bool(torch.equal(keep, r))}

    def req_return(self, case):
        if case.get("long") or case["stream"] == "malformed":
            return None
        return {"op": "c18.return", "case": {"r": case["r"], "cols": case["cols"], "gamma": case["gamma"],
                                             "batch_first": case["batch_first"]}}

    def model_request(self, case):
        return getattr(self, "req_" + case["kind"])(case)

    # ================================================================ correspondence
    def compare(self, case, impl, model):
        if isinstance(impl, dict) and "error" in impl:
            if case["kind"] == "cli" and impl["error"] == "RuntimeError" and not self.cli_expect_rc1(case) \
                    and any(g["stats"] is None for g in self.cli_groups(model)) \
                    and (not isinstance(model, dict) or model["command"] == "raised"):
                return []           # store() raises for a group with too few frames: model agrees
            return [f"implementation raised {impl['error']}: {impl.get('message')}"]
        return getattr(self, "cmp_" + case["kind"])(case, impl, model)

    def tol(self, case):
        return (2e-4, 2e-5) if case.get("dtype") == "float32" else (1e-9, 1e-10)

    @staticmethod
    def acc_eq(a, b):
        return a is not None and b is not None and \
            (F(a["count"]), [F(v) for v in a["sum"]], [F(v) for v in a["sumsq"]]) == \
            (F(b["count"]), [F(v) for v in b["sum"]], [F(v) for v in b["sumsq"]])

    def cmp_mvn(self, case, impl, model):
        out = []
        a, b = impl["acc"], model["acc"]
        if not self.acc_eq(a, b):
            out.append(f"accumulators differ: impl={a} model={b}")
        if "mid" in impl:
            mi, mm = impl["mid"], model["mid"]
            if not self.acc_eq(mi["acc"], mm["acc"]):
                out.append(f"accumulators before the mid-history store differ: impl={mi['acc']} model={mm['acc']}")
            if (mi["mean"] is None) != (mm["store"] is None):
                out.append("mid-history store: impl and model disagree on raising")
            elif mi["mean"] is not None:
                bad = first_bad(mi["mean"], mm["store"]["mean"], 1e-12, 1e-12) or \
                    first_bad([frac_str(F(v) * F(v)) for v in mi["std"]], mm["store"]["var"], 1e-10, 1e-10)
                if bad:
                    out.append(f"mid-history statistics differ: {bad}")
        rt, at = self.tol(case)
        if impl["frames"]:
            bad = first_bad(impl["own"]["y"], model["own"]["y"], rt, at)
            if bad:
                out.append(f"forward with own statistics differs: {bad}")
        for gi, gname in enumerate(("grid_given", "grid_stored")):
            g = impl.get(gname)
            gm = (model.get("grids") or [None, None])[gi]
            if g is None or gm is None:
                continue
            for combo in COMBOS:
                bad = first_bad(g[combo]["y"], gm["model"][combo], rt, at)
                if bad:
                    out.append(f"forward grid ({gname[5:]} statistics, supplied: {combo}) differs: {bad}")
        if (impl["store"] is None) != (model["store"] is None):
            out.append(f"store: impl {'raised' if impl['store'] is None else 'stored'}, "
                       f"model {'raises' if model['store'] is None else 'stores'}")
            return out
        if impl["store"] is None:
            return out
        s, m = impl["store"], model["store"]
        bad = first_bad(s["mean"], m["mean"], 1e-12, 1e-12)
        if bad:
            out.append(f"stored mean differs: {bad}")
        count = F(a["count"])
        if count > 0 and count.denominator == 1 and (count.numerator & (count.numerator - 1)) == 0:
            if [F(v) for v in s["mean"]] != [F(v) for v in m["mean"]]:
                out.append("stored mean not exact although count is a power of two")
        bad = first_bad([frac_str(F(v) * F(v)) for v in s["std"]], m["var"], 1e-10, 1e-10)
        if bad:
            out.append(f"stored std^2 differs from the variance: {bad}")
        for k in ("y", "y_mean_only", "y_std_only"):
            bad = first_bad(s[k], m[k], rt, at)
            if bad:
                out.append(f"forward ({k}) differs: {bad}")
        if not self.acc_eq(impl["restart"], model["restart"]):
            out.append(f"buffers after store(delete_stats=True) + accumulate differ: impl={impl['restart']} "
                       f"model={model['restart']}")
        return out

    def cmp_cli(self, case, impl, model):
        out = []
        cmd = model.get("command") if isinstance(model, dict) else None
        model = self.cli_groups(model)
        if cmd is not None:
            # the Lean model of the command: exit status 1 / RuntimeError / the dictionary written
            if (cmd == "exit1") != (impl.get("rc") == 1):
                out.append(f"command model says {cmd if isinstance(cmd, str) else 'writes'}, exit status {impl.get('rc')}")
            elif cmd == "raised":
                out.append("command model raises (a group with too few frames), the command returned")
            elif isinstance(cmd, list):
                if sorted(g["gid"] for g in cmd) != [g["gid"] for g in impl["groups"]]:
                    out.append(f"command model writes groups {sorted(g['gid'] for g in cmd)}, the command "
                               f"{[g['gid'] for g in impl['groups']]}")
            if out:
                return out
        if self.cli_expect_rc1(case):
            return [] if impl.get("rc") == 1 else [f"expected exit status 1, got {impl.get('rc')}"]
        want_err = any(g["stats"] is None for g in model)
        if impl.get("rc"):
            return [f"command returned {impl['rc']}"]
        if want_err:
            return ["command succeeded although a group has too few frames"]
        if [g["gid"] for g in impl["groups"]] != [g["gid"] for g in model]:
            return [f"groups differ: impl={[g['gid'] for g in impl['groups']]} model={[g['gid'] for g in model]}"]
        for a, b in zip(impl["groups"], model):
            bad = first_bad(a["mean"], b["stats"]["mean"], 1e-12, 1e-12)
            if bad:
                out.append(f"group {a['gid']!r} mean: {bad}")
            bad = first_bad([frac_str(F(v) * F(v)) for v in a["std"]], b["stats"]["var"], 1e-10, 1e-10)
            if bad:
                out.append(f"group {a['gid']!r} std^2: {bad}")
        return out

    def delta_tol(self, case):
        scale = 1 + max([abs(v) for v in case["data"]] + [abs(case["value"])])
        return 0.0, 2e-5 * scale

    def cmp_deltas(self, case, impl, model):
        if model["model"] == "error":
            return [] if "raised" in impl else ["model raises, implementation returned a value"]
        if "raised" in impl:
            return [f"implementation raised {impl['raised']}: {impl['message']}; model has a value"]
        m = model["model"]
        out = []
        if impl["shape"] != m["shape"]:
            return [f"shape impl={impl['shape']} model={m['shape']}"]
        if case["width"] == 1 or case["order"] == 0:
            if [F(v) for v in impl["data"]] != [F(v) for v in m["data"]]:
                out.append("exact stream: " + str(first_bad(impl["data"], m["data"], 0, 0)))
        else:
            rt, at = self.delta_tol(case)
            bad = first_bad(impl["data"], m["data"], rt, at)
            if bad:
                out.append(f"tolerance stream: {bad}")
        if impl["module_equal"] is not True:
            out.append(f"FeatureDeltas module differs from the functional: {impl['module_equal']}")
        return out

    def cmp_return(self, case, impl, model):
        if case.get("long") or case["stream"] == "malformed":
            return []
        m = model["model"]
        if case["stream"] == "exact":
            if [[F(v) for v in row] for row in impl["R"]] != [[F(v) for v in row] for row in m]:
                return [f"exact stream: impl={impl['R']} model={m}"]
            return []
        scale = 1 + max([abs(F(v)) for row in m for v in row] + [0])
        rt, at = (1e-4, 1e-5 * float(scale)) if case["dtype"] == "float32" else (1e-9, 1e-10 * float(scale))
        for i, (a, b) in enumerate(zip(impl["R"], m)):
            bad = first_bad(a, b, rt, at)
            if bad:
                return [f"tolerance stream row {i}: {bad}"]
        return []

    # ================================================================ the property on the implementation
    def predicate(self, case, impl, model):
        if isinstance(impl, dict) and "error" in impl:
            if case["kind"] == "cli" and model is not None and not self.cli_expect_rc1(case) \
                    and any(g["stats"] is None for g in self.cli_groups(model)) \
                    and impl["error"] == "RuntimeError":
                return []           # too few frames in a group: documented RuntimeError of store()
            if case["kind"] == "cli" and impl["error"] == "RuntimeError" and not case["bessel"] \
                    and "Too few" in str(impl.get("message")) and self.cli_has_single_frame_group(case):
                return [("cli: store(bessel=False) rejected a group holding exactly one frame", SIG_SINGLE)]
            return [(f"{case['kind']}: implementation raised {impl['error']}: {impl.get('message')}", None)]
        return getattr(self, "pred_" + case["kind"])(case, impl, model)

    def pred_mvn(self, case, impl, model):
        fails = []
        spec = model["spec"]
        frames = impl["frames"]
        if not impl["buffers_double"]:
            fails.append(("accumulation buffers are not double precision", None))
        if impl.get("mutated"):
            fails.append((f"the caller's tensor was modified in place by {impl['mutated']}", None))
        for name, got in (impl.get("rejects") or {}).items():
            want = "IndexError" if "dim=" in name else "RuntimeError"
            if got != want:
                fails.append((f"illegal call ({name}): {got}, expected {want}", None))
        a = impl["acc"]
        if F(a["count"]) != frames:
            fails.append((f"count {a['count']} is not the number of frames {frames}", None))
        if "mid" in impl:
            # accumulate after store: a store that keeps the buffers must not change them, and what it
            # wrote is the pooled statistics of the frames seen so far
            mi, mm = impl["mid"], model["mid"]
            if not mi["buffers_kept"]:
                fails.append(("store(delete_stats=False) changed the accumulation buffers", None))
            if mi["mean"] is not None and mm["store"] is not None:
                bad = first_bad(mi["mean"], mm["store"]["mean"], 1e-12, 1e-12) or \
                    first_bad([frac_str(F(v) * F(v)) for v in mi["std"]], mm["store"]["var"], 1e-10, 1e-10)
                if bad:
                    fails.append((f"statistics stored in the middle of the history are not the pooled "
                                  f"statistics of the frames seen so far: {bad}", None))
        fails += self.pred_grid(case, impl.get("grid_given"), (model.get("grids") or [None])[0], "supplied")
        need = 2 if case["bessel"] else 1
        if frames < need:
            if impl["store"] is not None:
                fails.append((f"store() succeeded with {frames} frame(s), bessel={case['bessel']}", None))
            return fails
        if impl["store"] is None:
            sig = SIG_SINGLE if (frames == 1 and not case["bessel"]) else None
            fails.append((f"store(bessel={case['bessel']}) raised with {frames} frame(s) accumulated: "
                          f"{impl.get('store_error')}", sig))
            return fails
        s = impl["store"]
        n = Fraction(frames)
        bad = first_bad(s["mean"], spec["mean"], 1e-12, 1e-12)
        if bad:
            fails.append((f"stored mean is not the pooled mean: {bad}", None))
        bad = first_bad([frac_str(F(v) * F(v)) for v in s["std"]], spec["var"], 1e-10, 1e-10)
        if bad:
            fails.append((f"stored std^2 is not the pooled {'Bessel' if case['bessel'] else 'biased'} "
                          f"variance: {bad}", None))
        if not s["deleted"]:
            fails.append(("store(delete_stats=True) kept the buffers", None))
        if not s["buffers_kept"]:
            fails.append(("store(delete_stats=False) changed the accumulation buffers", None))
        if not s["same_after_delete"]:
            fails.append(("store(delete_stats=True) wrote other statistics than store(delete_stats=False)", None))
        if not s["empty_store_raises"]:
            fails.append(("store() succeeded although the statistics had been deleted", None))
        if not self.acc_eq(impl["restart"], model["restart"]):
            fails.append((f"accumulate after store(delete_stats=True) does not start from zero: "
                          f"{impl['restart']}", None))
        if not s["same_via_self"]:
            fails.append(("the module's own forward differs from a module built from its mean/std", None))
        if not s.get("holder_restored", True):
            fails.append(("assigning the mean / std buffers of a module did not give back the assigned tensors", None))
        fails += self.pred_grid(case, impl.get("grid_stored"), (model.get("grids") or [None, None])[1], "stored")
        if not s["module_half_equal"]:
            fails.append(("module and functional differ (mean only / std only / both given)", None))
        rt, at = self.tol(case)
        # forward is (x - mean[i]) / max(std[i], eps) entry by entry (the formula, evaluated by the spec)
        for k, what in (("y", "stored statistics"), ("y_mean_only", "stored mean, own deviation"),
                        ("y_std_only", "own mean, stored deviation")):
            bad = first_bad(s[k], spec[k], rt, at)
            if bad:
                fails.append((f"forward with {what} is not (x - mean[i]) / max(std[i], eps): {bad}", None))
        bad = first_bad(impl["own"]["y"], spec["own_y"], rt, at)
        if bad:
            fails.append((f"forward with own statistics is not (x - mean[i]) / max(std[i], eps): {bad}", None))
        if not impl["own"]["functional_equal"]:
            fails.append(("module and functional differ (own statistics)", None))
        pt = 50 * at * (1 + float(n))
        eps = F(case.get("eps") or 0)
        # normalising the pooled data with the stored statistics: zero mean, unit variance (clamp inactive)
        scale = n / (n - 1) if case["bessel"] else Fraction(1)
        for i, v in enumerate(spec["var"]):
            if F(v) <= 0 or F(v) < eps * eps:
                continue
            if not close(s["stats"]["m1"][i], 0, 0, pt):
                fails.append((f"normalised coefficient {i} has mean {float(F(s['stats']['m1'][i])):.3g}", None))
            if not close(F(s["stats"]["m2"][i]) * scale, 1, 0, pt):
                fails.append((f"normalised coefficient {i} has variance "
                              f"{float(F(s['stats']['m2'][i]) * scale):.6g}", None))
        for i, v in enumerate(spec["own_var"]):
            o = impl["own"]["stats"]
            if F(v) <= 0 or F(v) < eps * eps:
                continue
            if not close(o["m1"][i], 0, 0, pt) or not close(o["m2"][i], 1, 0, pt):
                fails.append((f"own-statistics forward: coefficient {i} has mean "
                              f"{float(F(o['m1'][i])):.3g}, variance {float(F(o['m2'][i])):.6g}", None))
        if not impl["own"]["dtype_ok"]:
            fails.append(("forward changed dtype or shape", None))
        return fails

    WHAT = {"none": "no statistic supplied: own mean, own deviation",
            "mean": "mean supplied, std omitted: supplied mean, the input's OWN deviation",
            "std": "std supplied, mean omitted: the input's OWN mean, supplied deviation",
            "both": "mean and std supplied"}

    def pred_grid(self, case, g, gm, origin):
        """Every combination of supplied / omitted statistics must be (x - mean[i]) / max(std[i], eps) with
        an omitted statistic replaced by the INPUT'S OWN one (Lean: mvnSpec on coeffEntries), whatever the
        entry route; and, from the property text, a column normalised with its own deviation has variance
        1, one centred with its own mean has mean 0."""
        if g is None or gm is None:
            return []
        fails = []
        rt, at = self.tol(case)
        eps = F(case.get("eps") or 0)
        for combo in COMBOS:
            bad = first_bad(g[combo]["y"], gm["spec"][combo], rt, at)
            if bad:
                fails.append((f"forward ({origin} statistics; {self.WHAT[combo]}) is not "
                              f"(x - mean[i]) / max(std[i], eps): {bad}", None))
            if not g[combo]["shape_ok"]:
                fails.append((f"forward ({origin} statistics, {combo}) changed dtype or shape", None))
            st = g[combo]["stats"]
            for i, v in enumerate(gm["own_var"]):
                if i >= len(st["m1"]):
                    break
                m1, m2 = F(st["m1"][i]), F(st["m2"][i])
                pt = 50 * at * (1 + float(m2))
                if combo in ("none", "std") and not close(m1, 0, 0, pt):
                    fails.append((f"forward ({origin} statistics, {combo}): coefficient {i} centred with the "
                                  f"input's own mean has mean {float(m1):.3g}", None))
                if combo in ("none", "mean") and F(v) > 0 and F(v) >= eps * eps \
                        and not close(m2 - m1 * m1, 1, 0, pt):
                    fails.append((f"forward ({origin} statistics, {combo}): coefficient {i} scaled with the "
                                  f"input's own deviation has variance {float(m2 - m1 * m1):.6g}", None))
        if g["routes_differ"]:
            fails.append((f"forward ({origin} statistics): entry routes disagree with the functional: "
                          f"{g['routes_differ']}", None))
        if not g["input_kept"]:
            fails.append((f"forward ({origin} statistics) modified the caller's tensor", None))
        return fails

    def cli_has_single_frame_group(self, case):
        frames = {}
        for f in case["files"]:
            g = "" if case["groups"] is None else case["groups"][f["id"]]
            D = len(f["shape"])
            frames[g] = frames.get(g, 0) + prod(f["shape"]) // max(f["shape"][case["dim"] % D], 1)
        return any(v == 1 for v in frames.values())

    def pred_cli(self, case, impl, model):
        model = self.cli_groups(model)
        if self.cli_expect_rc1(case):
            if impl.get("rc") == 1 and not impl.get("wrote"):
                return []
            return [(f"no features / a file missing from the id map / a malformed id map: expected exit status 1 "
                     f"and no output, got "
                     f"{impl.get('rc')}" + (" and an output file" if impl.get("wrote", True) else ""), None)]
        if impl.get("rc"):
            return [(f"command returned {impl['rc']}", None)]
        fails = []
        if not impl["keys_ok"]:
            fails.append(("every entry of the output must hold exactly 'mean' and 'std'", None))
        if [g["gid"] for g in impl["groups"]] != [g["gid"] for g in model]:
            return fails + [(f"groups written {[g['gid'] for g in impl['groups']]}, groups with files "
                             f"{[g['gid'] for g in model]}", None)]
        for a, b in zip(impl["groups"], model):
            if b["stats"] is None:
                fails.append((f"group {a['gid']!r}: statistics written although too few frames", None))
                continue
            if not all_close(a["mean"], b["stats"]["mean"], 1e-12, 1e-12):
                fails.append((f"group {a['gid']!r}: mean is not the pooled mean", None))
            if not all_close([frac_str(F(v) * F(v)) for v in a["std"]], b["stats"]["var"], 1e-10, 1e-10):
                fails.append((f"group {a['gid']!r}: std^2 is not the pooled variance", None))
        return fails

    def pred_deltas(self, case, impl, model):
        if model["spec"] == "error":
            if "raised" not in impl:
                return [("illegal arguments accepted", None)]
            return [] if impl.get("module_raised", True) else \
                [("FeatureDeltas accepts arguments that feat_deltas rejects", None)]
        if "raised" in impl:
            return [(f"feat_deltas raised {impl['raised']} on legal arguments: {impl['message']}", None)]
        spec = model["spec"]
        if impl["shape"] != spec["shape"]:
            return [(f"output shape {impl['shape']}, expected {spec['shape']}", None)]
        rt, at = self.delta_tol(case)
        bad = first_bad(impl["data"], spec["data"], rt, at)
        fails = []
        if bad:
            fails.append((f"deltas differ from the recursive regression formula on the padded input: {bad}", None))
        if not impl["dtype_ok"]:
            fails.append(("dtype changed", None))
        if impl["module_equal"] is not True:
            fails.append((f"FeatureDeltas differs from feat_deltas: {impl['module_equal']}", None))
        elif not impl.get("defaults_equal", True):
            fails.append(("leaving out arguments that equal their documented defaults changes the result "
                          f"(omitted: {sorted(set(self.DELTA_DEFAULTS) - set(self.delta_nondefault(case)))})", None))
        if not impl.get("input_kept", True):
            fails.append(("the caller's tensor was modified in place", None))
        return fails

    def delta_nondefault(self, case):
        return [k for k, v in self.DELTA_DEFAULTS.items()
                if (float(case[k]) if k == "value" else case[k]) != v]

    def pred_return(self, case, impl, model):
        g = float(F(case["gamma"]))
        if case["stream"] == "malformed":
            return [(f"{k} on rewards of shape {case['bad_shape']}: {v}, expected RuntimeError", None)
                    for k, v in impl.items() if v != "RuntimeError"]
        if case.get("long"):
            if not impl["finite"]:
                return [(f"{impl['nonfinite']} non-finite returns (first at t={impl['first_bad_t']}) for "
                         f"gamma={g}, T={impl['T']} although every R_t is bounded by 4/(1-|gamma|)", SIG_NAN)]
            if impl["max_residual"] > 1e-3:
                return [(f"R_t - (r_t + gamma R_t+1) reaches {impl['max_residual']:.3g}", None)]
            return []
        spec = model["spec"]
        fails = []
        if impl["shape"] != [case["rows"], case["cols"]]:
            fails.append((f"shape {impl['shape']}", None))
        scale = 1 + max([abs(F(v)) for row in spec for v in row] + [0])
        if case["stream"] == "exact":
            rt, at = 0, 0
        else:
            rt, at = (1e-4, 1e-5 * float(scale)) if case["dtype"] == "float32" else (1e-9, 1e-10 * float(scale))
        for i, (a, b) in enumerate(zip(impl["R"], spec)):
            bad = first_bad(a, b, rt, at)
            if bad:
                fails.append((f"returns differ from R_t = r_t + gamma R_t+1, R_T = 0: row {i} {bad}", None))
                break
        if not impl["module_equal"]:
            fails.append(("TimeDistributedReturn differs from the functional", None))
        if not impl["dtype_ok"]:
            fails.append(("dtype changed", None))
        if not impl.get("input_kept", True):
            fails.append(("the caller's rewards were modified in place", None))
        return fails

    # ================================================================ evidence
    def nontrivial(self, case, impl):
        k = case["kind"]
        if k == "big":
            return c18_big.nontrivial_big(case, impl)
        if k == "mvn":
            return len(case["history"]) >= 2
        if k == "mvnseq":
            return sum(1 for op in case["ops"] if op[0] == "store") >= 1 and len(case["ops"]) >= 3
        if k == "mvn0":
            return self.mvn0_frames(case) >= 1
        if k == "cli":
            return len(case["files"]) >= 2
        if k == "deltas":
            return case["order"] >= 1 and isinstance(impl, dict) and "data" in impl
        if case["stream"] == "malformed":
            return False
        return case["gamma"] != "0" and (case.get("T") or len(case["r"]) * case["cols"]) >= 2

    def tags(self, case, impl):
        k = case["kind"]
        if k == "big":
            return c18_big.tags_big(case, impl)
        t = [f"kind={k}"]
        if k == "mvn":
            t += [f"mvn.chunks={len(case['history'])}", f"mvn.tensors={len(case['tensors'])}",
                  f"mvn.rank={len(case['tensors'][0]['shape'])}", f"mvn.dim={case['dim']}",
                  f"mvn.bessel={case['bessel']}", f"mvn.dtype={case['dtype']}", f"mvn.eps={case.get('eps')}",
                  f"mvn.store_after={self.mid_of(case) is not None}",
                  f"mvn.mixed_rank={any(case.get('lift') or [])}"]
            fwd = case.get("fwd")
            if fwd:
                t += [f"mvn.fwd.probe={'pool' if len(fwd['probe']) == len(case['tensors']) else 'sub-pool'}",
                      f"mvn.fwd.stat_dtype={fwd['stat_dtype']}", f"mvn.fwd.stat_layout={fwd['stat_layout']}",
                      f"mvn.fwd.preset={fwd['preset']}"] + [f"mvn.fwd.supplied={c}" for c in COMBOS]
            else:
                t.append("mvn.fwd=None")
            t += [f"mvn.layout={l}" for l in set(case.get("layouts") or ["contig"])]
            if isinstance(impl, dict) and impl.get("store", 1) is None:
                t.append("mvn.store_raises")
        elif k == "mvn0":
            fr = self.mvn0_frames(case)
            t += [f"mvn0.rank={len(case['shapes'][0])}", f"mvn0.calls={len(case['shapes'])}",
                  f"mvn0.frames={min(fr, 3)}{'+' if fr > 3 else ''}", f"mvn0.bessel={case['bessel']}",
                  f"mvn0.stored={isinstance(impl, dict) and impl.get('store') is not None}"]
        elif k == "mvnseq":
            st = [op for op in case["ops"] if op[0] == "store"]
            t += [f"mvnseq.calls={min(len(case['ops']), 8)}", f"mvnseq.stores={min(len(st), 4)}",
                  f"mvnseq.preset={case.get('preset')}"]
            t += sorted(set(f"mvnseq.store(delete_stats={op[1]},bessel={op[2]})" for op in st))
            if isinstance(impl, dict) and "steps" in impl:
                rs = [a["raised"] is True for a in impl["steps"]]
                t.append(f"mvnseq.store_raised={any(rs)}")
                # a store that raised followed by more calls; an accumulate after a store of either kind
                for j in range(1, len(rs)):
                    prev, cur = case["ops"][j - 1], case["ops"][j]
                    if cur[0] == "acc" and prev[0] == "store" and not rs[j - 1]:
                        t.append(f"mvnseq.accumulate_after_store(delete_stats={prev[1]})")
                    if rs[j - 1]:
                        t.append("mvnseq.call_after_failed_store")
                t = sorted(set(t), key=t.index)
        elif k == "cli":
            t += [f"cli.groups={case['groups'] is not None}", f"cli.bessel={case['bessel']}", f"cli.dim={case['dim']}",
                  f"cli.files={min(len(case['files']), 2)}{'+' if len(case['files']) > 2 else ''}",
                  f"cli.absent_ids={bool(case.get('absent'))}", f"cli.unlisted={bool(case.get('unlisted'))}",
                  f"cli.map_defect={case.get('map_defect') if case['groups'] else None}",
                  f"cli.mixed_rank={len(set(len(f['shape']) for f in case['files'])) > 1}",
                  f"cli.default_names={case['prefix'] == '' and case['suffix'] == '.pt'}"]
        elif k == "deltas":
            D = len(case["shape"])
            t += [f"deltas.order={case['order']}", f"deltas.width={case['width']}", f"deltas.pad={case['pad_mode']}",
                  f"deltas.rank={D}", f"deltas.layout=D{D}:td{case['time_dim']}:dim{case['dim']}:"
                  f"{'cat' if case['concatenate'] else 'stack'}",
                  "deltas.stream=" + ("exact" if case["width"] == 1 or case["order"] == 0 else "tolerance"),
                  f"deltas.memory={case.get('layout') or 'contig'}", f"deltas.value={case['value']}",
                  f"deltas.all_defaults={not self.delta_nondefault(case)}", f"deltas.empty={prod(case['shape']) == 0}"]
            if prod(case["shape"]) == 0 and 0 <= case["time_dim"] % D < D:
                T, p = case["shape"][case["time_dim"] % D], case["order"] * case["width"]
                legal = {"replicate": p == 0 or T > 0, "constant": True, "reflect": p == 0 or p < T,
                         "circular": p == 0 or p <= T}.get(case["pad_mode"], True)
                t.append("deltas.empty_kind=" + ("no_frame" if T == 0 else "legal_pad" if legal else "illegal_pad"))
            if isinstance(impl, dict) and "raised" in impl:
                t.append("deltas.raised=" + impl["raised"])
        else:
            t += [f"return.gamma={case['gamma'] if case['stream'] in ('exact', 'malformed') else 'real'}",
                  f"return.batch_first={case['batch_first']}", f"return.stream={case['stream']}",
                  f"return.int_gamma={bool(case.get('int_gamma'))}", f"return.memory={case.get('layout') or 'contig'}"]
            if case["stream"] != "malformed" and not case.get("long"):
                t.append(f"return.empty={case['rows'] * case['cols'] == 0}")
        return t

    def mvn_ok(self, case):
        """A shrunk mvn case must stay inside the specified domain: eps = 0 only without a constant
        coefficient in the pool; an omitted deviation of a probe with a constant coefficient needs an eps
        above the default (else the quotient overflows / is 0/0 and the mismatch is float behaviour)."""
        rank = len(case["tensors"][0]["shape"])
        X = case["tensors"][0]["shape"][case["dim"] % rank]

        def varied(tensors):
            vals = coeff_values(tensors, case["dim"])
            return len(vals) == X and all(len(set(v)) >= 2 for v in vals.values())
        if case.get("eps") == "0" and not varied(case["tensors"]):
            return False
        fwd = case.get("fwd")
        if fwd:
            sel = [case["tensors"][i] for i in fwd["probe"]]
            if len(coeff_values(sel, case["dim"])) < X:
                return False
            if case.get("eps") in (None, "0") and not varied(sel):
                return False
        return True

    def shrink(self, case):
        for cand in self.shrink_raw(case):
            if cand.get("kind") != "mvn" or self.mvn_ok(cand):
                yield cand

    def shrink_raw(self, case):
        k = case["kind"]
        if k == "big":
            yield from c18_big.shrink_big(case)
            return
        if k == "mvn":
            for opt in ("layouts", "lift", "store_after"):
                if case.get(opt) is not None:
                    yield dict(case, **{opt: None})
            fwd = case.get("fwd")
            if case.get("eps") is not None and not fwd:
                yield dict(case, eps=None)      # (with a grid the eps is tied to the probe's constant coefficients)
            if fwd:
                yield dict(case, fwd=None)
                if fwd.get("stat_dtype") != "float64" or fwd.get("stat_layout") != "contig" \
                        or fwd.get("preset") != "none":
                    yield dict(case, fwd=dict(fwd, stat_dtype="float64", stat_layout="contig", preset="none"))
                if len(fwd["probe"]) > 1:
                    for j in range(len(fwd["probe"])):
                        yield dict(case, fwd=dict(fwd, probe=fwd["probe"][:j] + fwd["probe"][j + 1:]))
            n = len(case["tensors"])
            for drop in range(n):
                if n <= 1:
                    break
                ren = {i: (i if i < drop else i - 1) for i in range(n) if i != drop}
                hist = [[ren[i] for i in ch if i != drop] for ch in case["history"]]
                hist = [ch for ch in hist if ch]
                f2 = fwd
                if fwd:
                    pr = [ren[i] for i in fwd["probe"] if i != drop]
                    f2 = dict(fwd, probe=pr) if pr else None
                yield dict(case, tensors=[t for i, t in enumerate(case["tensors"]) if i != drop], history=hist,
                           fwd=f2)
            if any(len(ch) > 1 for ch in case["history"]):
                yield dict(case, history=[[i] for ch in case["history"] for i in ch])
            for i, t in enumerate(case["tensors"]):
                if any(v not in (0, 1) for v in t["data"]):
                    ts = list(case["tensors"])
                    ts[i] = dict(t, data=[max(0, min(1, v)) for v in t["data"]])
                    yield dict(case, tensors=ts)
        elif k == "mvn0":
            if len(case["shapes"]) > 1:
                for i in range(len(case["shapes"])):
                    yield dict(case, shapes=case["shapes"][:i] + case["shapes"][i + 1:])
        elif k == "mvnseq":
            ops = case["ops"]
            for j in range(len(ops) - 1, -1, -1):
                if len(ops) > 1:
                    yield dict(case, ops=ops[:j] + ops[j + 1:], layouts=None)
            if case.get("preset") not in (None, "none"):
                yield dict(case, preset="none")
            if case.get("layouts"):
                yield dict(case, layouts=None)
            for i, t in enumerate(case["tensors"]):
                if any(v not in (0, 1) for v in t["data"]):
                    ts = list(case["tensors"])
                    ts[i] = dict(t, data=[max(0, min(1, v)) for v in t["data"]])
                    yield dict(case, tensors=ts)
        elif k == "cli":
            if len(case["files"]) > 1:
                for i in range(len(case["files"])):
                    fs = case["files"][:i] + case["files"][i + 1:]
                    g = None if case["groups"] is None else {f["id"]: case["groups"][f["id"]] for f in fs}
                    yield dict(case, files=fs, groups=g)
            if case["groups"] is not None:
                yield dict(case, groups=None)
        elif k == "deltas":
            if case["order"] > 0:
                yield dict(case, order=case["order"] - 1)
            if case["width"] > 1:
                yield dict(case, width=case["width"] - 1)
            for ax, s in enumerate(case["shape"]):
                if s > 1:
                    shape = list(case["shape"])
                    shape[ax] = s - 1
                    yield dict(case, shape=shape, data=case["data"][:prod(shape)])
            if any(v not in (0, 1) for v in case["data"]):
                yield dict(case, data=[1 if i == 0 else 0 for i in range(len(case["data"]))])
        elif k == "return":
            if case.get("long"):
                if case["T"] > 2:
                    yield dict(case, T=case["T"] // 2)
                    yield dict(case, T=case["T"] - 1)
                if case["N"] > 1:
                    yield dict(case, N=1)
                return
            if case["stream"] == "malformed":
                return
            rows, cols = case["rows"], case["cols"]
            if rows > 1:
                yield dict(case, r=case["r"][:-1], rows=rows - 1)
                yield dict(case, r=case["r"][1:], rows=rows - 1)
            if cols > 1:
                yield dict(case, r=[row[:-1] for row in case["r"]], cols=cols - 1)


CHECK = C18()
