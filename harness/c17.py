"""C17 — command-line conversions invert each other and ignore worker count.

Every case builds a small corpus in a temporary directory under /tmp, runs the REAL console
entry points of `pydrobert.torch.command_line` in-process (argv lists, `--num-workers 0`),
composes each conversion with its inverse, and compares what was written / printed with the
Lean model of the command-level logic (file selection and naming, run-length coding, error
accumulation, subset selection, pooled moments, the seconds <-> frames arithmetic of the ctm /
TextGrid commands, C02's model of `error_rate` for `--costs`).

Worker counts (both tiers, in background subprocesses under `timeout`, gathered at the end):
every command that goes through the worker pool or a DataLoader is run on the EMPTY corpus, on
ONE utterance and on THREE, with workers in {0, 1, 2} and chunk sizes {1, 2}, and must leave the
same output files and printed figures as the serial run, file by file. The sweep runs with the
pool's start method substituted by `fork`; with the library's own `spawn` the empty corpus is
run for every pipeline and a rotating sample of the others (quick) / all of them plus 7
utterances with {0, 1, 3} workers (thorough).

Option grid ("sessions", both tiers, background subprocesses, `c17_opts.py`): every command with every
optional flag omitted and with one option changed at a time; the invocations run one after the other
in one python process must each leave what the same invocation leaves as the first call of a fresh
process, with one worker what the serial run leaves, and an explicitly passed documented default what
the omitted flag leaves.
"""
import contextlib
import io
import json
import os
import subprocess
import sys
import tempfile
from fractions import Fraction
from pathlib import Path

from common.framework import PropertyCheck, Failure, frac_str

import c17_cli as K

HERE = Path(__file__).resolve().parent
SIG_ZERO = "C17.error_rates.empty_reference_zero_division"
SIG_OVERLAP = "C17.names.overlapping_prefix_suffix"
SIG_TG_F32 = "C17.textgrid.infer_length_float32"
SIG_DUP_LIST = "C17.subset.duplicate_utt_list"
SIG_CHUNK_EMPTY = "C17.chunk.subdir_without_matching_file"
# frame shifts whose product with a frame count is not exact in float32 (11.61 ms = 256 samples at
# 22.05 kHz; 1000/44100 = "raw samples at 44.1 kHz", the setting the help text recommends)
ODD_SHIFTS = [11.61, 11.6, 1000 / 44100, 0.1]

PREFIXES = ["", "", "p_", "ab", "x.", "_s"]
SUFFIXES = [".pt", ".pt", "", "_s", ".ba", ".pt.bak"]
UTT_CHARS = "abpu_x12.-t"


# vocabularies of the error-rate cases: (class, ids of the corpus, one more id that only --replace / --ignore name)
ER_VOCABS = [
    ("nonneg", [0, 1, 2, 3, 4], 9),
    ("signed", [-3, -2, -1, 0, 1, 2, 3], -9),
    ("sentinels", [-1, -2, 0, 1, -100], -3),
    ("int64", [2 ** 31, -2 ** 31 - 1, -1, 2 ** 62 + 1, -2 ** 63, 2 ** 63 - 1, 0], -2 ** 40),
]
ER_VOCAB_WEIGHTS = [25, 30, 30, 15]
ER_UNMAPPED = 77          # in no vocabulary above


# The DOCUMENTED defaults of the optional flags the in-process cases pass (copied from the commands' help texts /
# pydrobert.torch.config, not read from the parser of the tree under test). A case may ask for any of them to be
# OMITTED from a command's argv when the value it would pass is this default (`case["omit"]`: command -> flags):
# the verdicts do not change, so every round trip is also run with a flag omitted on one side and explicit on
# the other.
DOC_DEFAULTS = {"--file-prefix": "", "--file-suffix": ".pt", "--frame-shift-ms": "10", "--textgrid-suffix": ".TextGrid",
                "--precision": "3", "--batch-size": "100", "--feat-subdir": "feat", "--ali-subdir": "ali",
                "--ref-subdir": "ref"}
_NAMES = ["--file-prefix", "--file-suffix"]
_SUBS = ["--feat-subdir", "--ali-subdir", "--ref-subdir"]
# kind of case -> the commands it calls -> the flags of DOC_DEFAULTS the case passes to that command
KIND_FNS = {
    "alidir": {"torch_ali_data_dir_to_torch_token_data_dir": _NAMES, "torch_token_data_dir_to_torch_ali_data_dir": _NAMES},
    "refdir": {"torch_token_data_dir_to_torch_ali_data_dir": _NAMES, "torch_ali_data_dir_to_torch_token_data_dir": _NAMES},
    "trn": {"trn_to_torch_token_data_dir": _NAMES, "torch_token_data_dir_to_trn": _NAMES},
    "ctm": {"ctm_to_torch_token_data_dir": _NAMES + ["--frame-shift-ms"],
            "torch_token_data_dir_to_ctm": _NAMES + ["--frame-shift-ms"]},
    "textgrid": {"textgrids_to_torch_token_data_dir": _NAMES + ["--frame-shift-ms", "--textgrid-suffix"],
                 "torch_token_data_dir_to_textgrids": _NAMES + ["--frame-shift-ms", "--textgrid-suffix"]},
    "er": {"compute_torch_token_data_dir_error_rates": _NAMES + ["--batch-size"]},
    "subset": {"subset_torch_spect_data_dir": _NAMES + _SUBS},
    "datadir": {"chunk_torch_spect_data_dir": _NAMES + _SUBS, "get_torch_spect_data_dir_info": _NAMES + _SUBS},
    "moments": {"print_torch_ali_data_dir_length_moments": _NAMES + ["--precision"],
                "print_torch_ref_data_dir_length_moments": _NAMES + ["--precision"]},
    "mvn": {"compute_mvn_stats_for_torch_feat_data_dir": _NAMES},
}


def same_value(a, b):
    if a == b:
        return True
    try:
        return float(a) == float(b)
    except ValueError:
        return False


def strip_defaults(argv, flags):
    """argv without `flag value` / `flag=value` for the flags listed whose value IS the documented default.
    -> (argv, flags actually left out)."""
    argv, out, gone, i = [str(a) for a in argv], [], [], 0
    while i < len(argv):
        a = argv[i]
        f, eq, v = a.partition("=")
        if a in flags and i + 1 < len(argv) and same_value(argv[i + 1], DOC_DEFAULTS[a]):
            gone.append(a)
            i += 2
        elif eq and f in flags and same_value(v, DOC_DEFAULTS[f]):
            gone.append(f)
            i += 1
        else:
            out.append(a)
            i += 1
    return out, gone


def rand_name(rng, lo=1, hi=5):
    return "".join(rng.choice(UTT_CHARS) for _ in range(rng.randint(lo, hi)))


def rand_utts(rng, n, lo=1):
    out = []
    while len(out) < n:
        u = rand_name(rng, lo)
        if u not in out and not u.startswith("-") and not u.startswith("."):
            out.append(u)
    return out


def pick_affixes(rng, default_p=0.35):
    if rng.random() < default_p:
        return "", ".pt"
    return rng.choice(PREFIXES), rng.choice(SUFFIXES)


def matches(prefix, suffix, name):
    return name.startswith(prefix) and name.endswith(suffix)


def junk_names(rng, prefix, suffix, taken):
    """Names that must NOT be selected: wrong suffix, wrong prefix, suffix in front."""
    cands = []
    u = rand_name(rng)
    if suffix:
        cands += [prefix + u, prefix + u + ".txt", prefix + u + suffix + "~"]
    if prefix:
        cands += [u + suffix, "z" + prefix + u + suffix, u + prefix]
    cands += [suffix + u + prefix + "q"]
    out = []
    for c in cands:
        if c and c not in taken and not matches(prefix, suffix, c) and c not in out and c[0] not in ".-":
            out.append(c)
    rng.shuffle(out)
    return out[: rng.randint(0, 2)]


def nonmatching(prefix, suffix):
    """Deterministic junk names that the selection must skip."""
    c = [prefix + "junk.zz", "q" + prefix + "junk" + suffix, "junk"]
    return [n for n in c if not matches(prefix, suffix, n)][:2]


ALI_WIDE = [-100, -2, -1, 2 ** 31, -2 ** 63, 2 ** 63 - 1]


def rand_ali(rng, empty_ok=False):
    n = rng.choice([0] if empty_ok and rng.random() < 0.5 else [1, 2, 3, 5, 8])
    # labels of either sign; one alignment in five over the values used as sentinels elsewhere and the ends of int64
    vals = ALI_WIDE if rng.random() < 0.2 else [-1, 0, 1, 2, 3]
    out = []
    while len(out) < n:
        out += [rng.choice(vals)] * rng.randint(1, 3)
    return out[:n]


# Stored dtypes of the corpora the commands read (round h): an alignment / token file is any integer tensor whose
# values fit, a feature file any floating tensor.  The models are over integers / rationals, so the stored dtype
# must not matter; a narrow dtype combined with MORE frames than it can count (LONG_T) is where it would.
ALI_DTYPES = ["uint8", "int8", "int16", "int32", "int64"]
REF_DTYPES = ["int32", "int64"]
FEAT_DTYPES = ["float16", "float32", "float64"]
LONG_T = [130, 260, 300]
INT_RANGE = {"uint8": (0, 255), "int8": (-128, 127), "int16": (-2 ** 15, 2 ** 15 - 1),
             "int32": (-2 ** 31, 2 ** 31 - 1), "int64": (-2 ** 63, 2 ** 63 - 1)}


DTYPE_KINDS = ("alidir", "refdir", "subset", "datadir", "moments", "mvn")


def pick_dtypes(rng):
    return {"ali": rng.choice(ALI_DTYPES), "ref": rng.choice(REF_DTYPES), "feat": rng.choice(FEAT_DTYPES)}


def dtype_vals(rng, dtype):
    """Labels a tensor of that dtype can hold: small ones or (30%) the ends of its range."""
    lo, hi = INT_RANGE[dtype]
    if rng.random() < 0.3:
        return [lo, lo + 1, hi - 1, hi, 0]
    return [v for v in [-1, 0, 1, 2, 3] if lo <= v <= hi]


def long_ali(rng, dtype, T=None):
    """An alignment of 130 / 260 / 300 frames (more than int8 / uint8 count) in runs of 1..60 frames."""
    T = T or rng.choice(LONG_T)
    vals, out = dtype_vals(rng, dtype), []
    while len(out) < T:
        v = rng.choice([x for x in vals if not out or x != out[-1]] or vals)
        out += [v] * rng.randint(1, 60)
    return out[:T]


def close(a, b, tol):
    return abs(a - b) <= tol


class C17(PropertyCheck):
    pid = "C17"
    title = "Command-line conversions invert each other and ignore worker count"
    rule = ("random small corpora (0-8 utterances, ids over a 11-letter alphabet incl. '.', '_', '-') with "
            "default and non-default --file-prefix/--file-suffix (empty ones, prefix == suffix, overlapping), "
            "junk files that must not be selected; kinds: alidir (ali->ref->ali), refdir (ref->ali->ref incl. "
            "non-canonical and malformed refs), trn/ctm/textgrid round trips, er (error-rate command: "
            "replace/ignore/batch size/per-utt/distances/missing/costs; stored ids over four vocabularies -- "
            "0..4, -3..3, the command's own eos/padding values {-1,-2,0,1,-100}, the ends of int64 -- with a "
            "further id only the --replace/--ignore lists name; without --id2token (60%) and with a bijective "
            "one (tokens 't<id>' or numerals of OTHER ids, either column order via --swap; 6% of those with a "
            "stored id the table lacks: ValueError); token files of shape (R,), (R,1), (R,3) with and without "
            "times; REF HYP OUT or the parent directory with the figures on stdout; with/without --quiet), "
            "token ids of the trn/ctm/textgrid vocabularies and alignment labels also over {-100, 2^31, "
            "-2^63, 2^63-1}, subset (every criterion x copy mode; --utt-list(-file) in 30% of the cases; the source "
            "tree is ANY tree: ali/ and ref/ each there or not, holding part of the utterances of feat/, utterances "
            "feat/ lacks (60%), non-matching names; unrelated sub-directories / root files in src (35%); renamed "
            "sub-directories via --feat/--ali/--ref-subdir (30%); requests name utterances of feat/, ids that exist "
            "only elsewhere in src, ids that exist nowhere), datadir (chunk-torch-spect-data-dir and "
            "get-torch-spect-data-dir-info on the same kind of tree: which utterances are chunked into which "
            "sub-directory, num_utterances / total_frames / total_tokens / count_*), refdir --feat-dir with "
            "utterances ref/ lacks, "
            "moments (ali/ref length moments), mvn (grouped MVN statistics); textgrid also with a tier "
            "without intervals (10%) and frame shifts that are inexact in float32 (12%: 11.61, 11.6, 0.1, "
            "1000/44100 ms); --utt-list with an utterance listed twice (30% of the list cases); every kind includes the empty "
            "corpus; stored dtypes (50% of the alidir/refdir/subset/datadir/moments/mvn cases): ali uint8/int8/int16/"
            "int32/int64 with labels over that dtype's range incl. its ends, ref int32/int64, feat float16/32/64 "
            "(mvn: float32/64), combined with alignments of 130/260/300 frames in runs of 1..60, token segments of "
            "40..130 and 127/128/130/255/256 frames and feature files of 130/260/300 frames (more than int8 / uint8 "
            "count); ctm times on a millisecond or a dyadic (1/1024 s) grid; worker runs (extra_checks): "
            "9 pipelines (ali<->token, trn, ctm, textgrid, subset incl. --utt-list(-file) and the three copy modes, "
            "ali/ref moments, mvn, chunk; subset and chunk on inconsistent data directories) x corpora "
            "of 0/1/3 utterances x workers {0,1,2} x chunk {1,2}, fork sweep + spawn sample; thorough adds "
            "7 utterances x {0,1,3} x chunk {1,2} and every small spawn run. Optional flags: ~75% of the cases "
            "leave out, per command and flag at random, --file-prefix / --file-suffix / --frame-shift-ms / "
            "--textgrid-suffix / --precision / --batch-size / --feat/ali/ref-subdir whenever the value to pass is "
            "the DOCUMENTED default (omitted on one side of a round trip, explicit on the other). Sessions "
            "(extra_checks, c17_opts.py): 15 commands x (base with every optional flag omitted + one option "
            "changed at a time, ~225 flips: documented default passed explicitly / another value): the "
            "invocations base, flip1, base, flip2, ... in ONE process (--num-workers 0) each equal to the same "
            "invocation as first call of a fresh process; one worker (fork; thorough: 6 under spawn) = serial for "
            "every invocation; explicit documented default = omitted. non-trivial: >= 2 utterances "
            "and a non-default option; distinct by case")
    assumptions = [
        "multiprocessing Pool.imap_unordered / DataLoader deliver every result exactly once (trusted); the "
        "theorems quantify over every delivery order, both tiers sample real pools (the sweep over all "
        "commands x 0/1/3 utterances x {1,2} workers uses the fork start method instead of the library's spawn; "
        "spawn itself is sampled in the quick tier and swept in the thorough tier)",
        "error_rate(norm=False) on a padded batch equals its value pair by pair (C01/C02); re-checked per run by "
        "calling it on each observed pair alone with the costs the command line asked for; with --costs the "
        "oracle is C02's Lean model of error_rate evaluated on the un-padded pair (erC02)",
        "text formats (trn/ctm/TextGrid readers and writers) belong to C11; here they are exercised inside their "
        "sound domain only (times < 10 s, default TextGrid precision, interval tiers). The frame numbers written "
        "by the ctm/TextGrid commands and the TextGrid files written back are compared EXACTLY with the model "
        "(C11's toFrames / write_textgrid model composed at command level) except for entries whose float "
        "quotient 1000*t/f lies within 1e-6 of a rounding boundary (margin rule; never on the dyadic grid)",
        "float formatting of the printed figures: compared as correctly rounded quotients of the exact model "
        "value (error rates) or to within the printed precision (moments)",
    ]
    quick_budget_s = 150
    thorough_budget_s = 1200

    # ================================================================== generators
    def cases(self, rng, tier):
        n = {"quick": 110, "thorough": 450, "search": 400}[tier]
        if tier in ("quick", "thorough") and self._worker_runs is None:
            # the worker-count runs go on in background subprocesses while the cases are evaluated;
            # extra_checks gathers them
            self._worker_runs = self._start_worker_runs(rng, tier)
            self._session_runs = self._start_session_runs(rng, tier)
        gens = [self.gen_alidir, self.gen_refdir, self.gen_trn, self.gen_ctm, self.gen_textgrid,
                self.gen_er, self.gen_subset, self.gen_moments, self.gen_mvn, self.gen_datadir]
        for i in range(n):
            for g in gens:
                c = g(rng, tier)
                if c is not None:
                    if c["kind"] in DTYPE_KINDS and "dtypes" not in c and rng.random() < 0.5:
                        c["dtypes"] = pick_dtypes(rng)
                        if c["kind"] == "mvn" and c["dtypes"]["feat"] == "float16":
                            # the statistics are accumulated in the stored dtype: float16 sums of squares round
                            # (134.0625 -> 134.0), a precision question outside this property; float32 -> float64
                            # is an exact widening of the same values
                            c["dtypes"]["feat"] = "float64"
                    # which optional flags each command of the case leaves out when their value is the documented
                    # default (about a quarter of the cases pass everything explicitly, as all of them used to)
                    if rng.random() < 0.75:
                        omit = {fn: sorted(f for f in flags if rng.random() < 0.5)
                                for fn, flags in KIND_FNS[c["kind"]].items()}
                        c["omit"] = {fn: fl for fn, fl in omit.items() if fl}
                    yield c

    def gen_alidir(self, rng, tier):
        p, s = pick_affixes(rng)
        utts = rand_utts(rng, rng.choice([0, 1, 2, 3, 4]), lo=0 if (rng.random() < 0.2 and p) else 1)
        with_empty = rng.random() < 0.08
        dts = pick_dtypes(rng) if rng.random() < 0.3 else None
        if dts:
            # stored dtype chosen first: labels over ITS range, and most utterances longer than int8 / uint8 count
            files = [[p + u + s, long_ali(rng, dts["ali"]) if rng.random() < 0.7 else
                      [rng.choice(dtype_vals(rng, dts["ali"])) for _ in range(rng.randint(1, 5))]] for u in utts]
        else:
            files = [[p + u + s, rand_ali(rng, with_empty)] for u in utts]
        taken = {f[0] for f in files}
        files = [f for i, f in enumerate(files) if f[0] and f[0] not in {g[0] for g in files[:i]}]
        for j in junk_names(rng, p, s, taken):
            files.append([j, rand_ali(rng)])
        rng.shuffle(files)
        case = {"kind": "alidir", "prefix": p, "suffix": s, "files": files}
        if dts:
            case["dtypes"] = dts
        return case

    def gen_refdir(self, rng, tier):
        p, s = pick_affixes(rng)
        utts = rand_utts(rng, rng.choice([0, 1, 2, 3]))
        bad_at = rng.randrange(len(utts)) if (utts and rng.random() < 0.3) else None
        use_feat = rng.random() < 0.3
        long_ = rng.random() < 0.25      # utterances of ~130..400 frames (segments of up to 130)
        files = []
        for i, u in enumerate(utts):
            R = rng.randint(1, 4)
            segs, t = [], 0
            for r in range(R):
                ln = rng.choice([1, 1, 2, 3, 0]) if rng.random() < 0.25 else rng.randint(1, 3)
                if long_ and ln:
                    ln = rng.choice([127, 128, 130, 255, 256]) if rng.random() < 0.3 else rng.randint(40, 130)
                tok = rng.randint(0, 2) if not segs or rng.random() < 0.3 else (segs[-1][0] + 1 + rng.randint(0, 1)) % 4
                segs.append([tok, t, t + ln])
                t += ln
            shape, T = "ok", (t if use_feat else None)
            if i == bad_at:
                k = rng.choice(["empty", "neg", "start", "gap", "back", "1d", "r2", "frames"])
                if k == "empty":
                    segs = []
                elif k == "neg":
                    segs[rng.randrange(R)][rng.choice([1, 2])] = -1
                elif k == "start":
                    segs = [[a, b + 1, c + 1] for a, b, c in segs]
                elif k == "gap" and R > 1:
                    j = rng.randrange(1, R)
                    segs = segs[:j] + [[a, b + 1, c + 1] for a, b, c in segs[j:]]
                elif k == "back":
                    segs[-1][2] = max(segs[-1][1] - 1, 0)
                elif k == "1d":
                    shape = "1d"
                elif k == "r2":
                    shape = "r2"
                elif k == "frames" and use_feat:
                    T = t + 1
            files.append([p + u + s, segs, shape, T])
        taken = {f[0] for f in files}
        for j in junk_names(rng, p, s, taken):
            files.append([j, [[1, 0, 2]], "ok", 2 if use_feat else None])
        rng.shuffle(files)
        case = {"kind": "refdir", "prefix": p, "suffix": s, "files": files, "use_feat": use_feat}
        if use_feat and rng.random() < 0.5:
            # --feat-dir is a directory of its own: it may hold utterances ref/ lacks and names that do not
            # match; only the feature files of the token files are consulted
            extra = [p + u + s for u in rand_utts(rng, rng.randint(1, 2))] + junk_names(rng, p, s, taken)
            case["feat_extra"] = [n for n in extra if n not in {f[0] for f in files}]
        return case

    def gen_vocab(self, rng):
        toks = rng.sample(["a", "b", "c", "dd", "e-1", "<s>", "é", "7"], rng.randint(2, 5))
        # ids of either sign, the values -1 / -2 / -100 other code uses as sentinels, the ends of int64
        ids = rng.sample(list(range(-2, 12)) + [-100, 2 ** 31, -2 ** 63, 2 ** 63 - 1], len(toks))
        return [[t, i] for t, i in zip(toks, ids)]

    def gen_trn(self, rng, tier):
        p, s = pick_affixes(rng)
        t2i = self.gen_vocab(rng)
        vocab = [t for t, _ in t2i]
        oov = rng.random() < 0.25
        unk = rng.choice(vocab) if (oov and rng.random() < 0.7) else None
        utts = [u for u in rand_utts(rng, rng.choice([0, 1, 2, 3, 5])) if "(" not in u]
        corpus = []
        for u in utts:
            toks = [rng.choice(vocab + (["zz"] if oov else [])) for _ in range(rng.choice([0, 1, 2, 4]))]
            corpus.append([u, toks])
        taken = {p + u + s for u in utts}
        extra = [[j, [rng.choice(t2i)[1]]] for j in junk_names(rng, p, s, taken)]
        if rng.random() < 0.04 and p and s:
            # a name that starts with the prefix and ends with the suffix only by overlapping them
            for k in range(1, min(len(p), len(s)) + 1):
                if p[-k:] == s[:k]:
                    nm = p + s[k:]
                    if nm not in taken:
                        extra.append([nm, [t2i[0][1]]])
                    break
        return {"kind": "trn", "prefix": p, "suffix": s, "t2i": t2i, "unk": unk, "corpus": corpus,
                "extra": extra, "swap_in": rng.random() < 0.3, "swap_out": rng.random() < 0.3,
                "sizing": rng.choice(["skip", "feat", "default"])}

    def timed_corpus(self, rng, vocab, n_utts, shift_ms, min_len_frames=0, grid="ms"):
        """Tokens with start/end in seconds, starts >= 1 frame apart, everything below 10 s. On
        the grid "ms" times are whole milliseconds (decimal: inexact as floats); on the grid
        "dyadic" they are multiples of 1/1024 s (exact as floats, and so is the frame arithmetic
        of the code on them)."""
        unit = 1000.0 if grid == "ms" else 1024.0
        per_ms = unit / 1000.0
        corpus = []
        for u in rand_utts(rng, n_utts):
            t, toks = rng.randint(0, 40), []
            for _ in range(rng.choice([1, 2, 3])):
                dur = rng.randint(max(1, int(min_len_frames * shift_ms * per_ms) + (grid != "ms")),
                                  int(6 * shift_ms) + 5)
                toks.append([rng.choice(vocab), t / unit, (t + dur) / unit])
                t += max(dur, int(shift_ms * per_ms) + 2) + rng.choice([0, 0, 7])
            corpus.append([u, toks])
        return corpus

    def gen_ctm(self, rng, tier):
        p, s = pick_affixes(rng)
        t2i = self.gen_vocab(rng)
        shift = rng.choice([10.0, 10.0, 20.0, 2.5])
        grid = rng.choice(["ms", "dyadic"])
        corpus = self.timed_corpus(rng, [t for t, _ in t2i], rng.choice([0, 1, 2, 3]), shift, grid=grid)
        for u, toks in corpus:
            if rng.random() < 0.15:
                toks[-1][2] = toks[-1][1]  # zero-length token
        mapping = rng.choice(["none", "none", "wc2utt", "utt2wc", "channel"])
        return {"kind": "ctm", "prefix": p, "suffix": s, "t2i": t2i, "corpus": corpus, "shift": shift,
                "grid": grid, "mapping": mapping, "extra": [[j, [[t2i[0][1], 0, 1]]] for j in
                                              junk_names(rng, p, s, {p + u + s for u, _ in corpus})]}

    def gen_textgrid(self, rng, tier):
        p, s = pick_affixes(rng)
        tgs = rng.choice([".TextGrid", ".TextGrid", ".tg", "_g"])
        if tgs == s:
            s = ".pt"
        t2i = self.gen_vocab(rng)
        shift = rng.choice([10.0, 10.0, 20.0, 5.0])
        if rng.random() < 0.12:
            # the inferred length T is computed on a tensor (float32), the interval ends in double
            shift = rng.choice(ODD_SHIFTS)
        corpus = self.timed_corpus(rng, [t for t, _ in t2i], rng.choice([0, 1, 2, 3]), shift, min_len_frames=1)
        if corpus and rng.random() < 0.1:
            # a tier without intervals (read_textgrid accepts it): stored as a (0, 3) tensor
            corpus[rng.randrange(len(corpus))][1] = []
        return {"kind": "textgrid", "prefix": p, "suffix": s, "tg_suffix": tgs, "t2i": t2i,
                "corpus": corpus, "shift": shift}

    def gen_er(self, rng, tier):
        p, s = pick_affixes(rng, 0.6)
        use_map = rng.random() < 0.4
        # token ids are arbitrary integers (`_parse_token2id` reads a leading '-', the library's tests use
        # negative ids for filler symbols): ids of either sign, the values the command itself uses as
        # end-of-sequence (-1) and padding (-2) when it calls error_rate, -100, and the ends of int64
        vclass, vocab, other = ER_VOCABS[rng.choices(range(len(ER_VOCABS)), ER_VOCAB_WEIGHTS)[0]]
        utts = sorted(rand_utts(rng, rng.choice([0, 1, 2, 3, 4, 6])))
        empty_ref = rng.random() < 0.12
        refs, hyps = [], []
        for u in utts:
            r = [rng.choice(vocab) for _ in range(rng.choice([1, 2, 3, 5]))]
            if empty_ref and rng.random() < 0.5:
                r = []
            h = list(r)
            for _ in range(rng.choice([0, 1, 2])):
                op = rng.choice("ids")
                if op == "i":
                    h.insert(rng.randint(0, len(h)), rng.choice(vocab))
                elif op == "d" and h:
                    h.pop(rng.randrange(len(h)))
                elif h:
                    h[rng.randrange(len(h))] = rng.choice(vocab)
            refs.append([u, r])
            hyps.append([u, h])
        miss = rng.random() < 0.2
        if miss and len(utts) > 1:
            (refs if rng.random() < 0.5 else hyps).pop(rng.randrange(len(utts)))
            if rng.random() < 0.5:
                hyps.append(["zz" + rand_name(rng), [vocab[1]]])
        replace = []
        if rng.random() < 0.5:
            for _ in range(rng.randint(1, 3)):
                replace.append([rng.choice(vocab), rng.choice(vocab + [other])])
        ignore = rng.sample(vocab + [other], rng.choice([0, 0, 1, 2]))
        costs = rng.choice([None, None, "nist", [1.0, 2.0, 1.5], [0.5, 0.5, 2.0]])
        case = {"kind": "er", "prefix": p, "suffix": s, "refs": refs, "hyps": hyps, "use_map": use_map,
                "replace": replace, "ignore": ignore, "warn": miss and rng.random() < 0.7,
                "distances": rng.random() < 0.3, "per_utt": rng.random() < 0.4,
                "batch": rng.choice([1, 2, 3, 100]), "costs": costs,
                # stored form of a token sequence: (R,), (R, 1), (R, 3) with frame numbers, (R, 3) with -1 -1
                "timed": rng.choice([False, False, False, True, True, "col", "unk"]),
                "vocab": vclass,
                # the two ways of naming the directories: REF HYP OUT, or the parent of ref/ and hyp/ (then the
                # figures go to stdout: a second positional would be read as HYP)
                "layout": "parent" if rng.random() < 0.25 else "two",
                "quiet": rng.random() < 0.8}
        if use_map:
            # --id2token: a bijection ids <-> tokens covering every id of the corpus and of the lists. Token
            # spellings: 't<id>' or numerals that are the id of ANOTHER token (a token called '-1' is not id -1);
            # the file in either column order (--swap)
            ids = sorted(set(vocab + [other]))
            rng.shuffle(ids)
            case["map_ids"] = ids
            case["map_style"] = rng.choice(["t", "t", "num"])
            case["swap"] = rng.random() < 0.3
            # malformed stream: a stored id that the map does not cover is refused (ValueError)
            stored = [x for x in refs + hyps if x[1]]
            if stored and rng.random() < 0.06:
                toks = rng.choice(stored)[1]
                toks[rng.randrange(len(toks))] = ER_UNMAPPED
        return case

    def gen_subset(self, rng, tier):
        """A source tree that need NOT be a consistent SpectDataSet: `feat/` decides which utterances exist;
        `ali/` and `ref/` (each there or not) hold any part of them, files of utterances `feat/` does not
        have (strays), names that do not match; `src` may hold sub-directories and files the command has no
        business with. `--utt-list(-file)` requests draw from everything that exists anywhere and from ids
        that exist nowhere."""
        p, s = pick_affixes(rng, 0.5)
        utts = rand_utts(rng, rng.choice([0, 1, 2, 3, 4, 5, 8]))
        feat = [[p + u + s, rng.randint(1, 4)] for u in utts]
        taken = {f[0] for f in feat}
        for j in junk_names(rng, p, s, taken):
            feat.append([j, rng.randint(1, 4)])
        only = rng.random() < 0.2
        others, unrelated, subdirs, strays = {}, [], None, []
        if not only:
            if rng.random() < 0.6:
                # utterances that only ali/ and / or ref/ have
                strays = [u for u in rand_utts(rng, rng.choice([1, 1, 2])) if u not in utts]
            for sub in ("ali", "ref"):
                if rng.random() < 0.7:
                    names = [f[0] for f in feat if rng.random() < 0.7]
                    names += [p + u + s for u in strays if rng.random() < 0.75]
                    if rng.random() < 0.3:
                        names.append(p + "extra" + s)
                    if rng.random() < 0.3:
                        # names that do not match, in this sub-directory only
                        names += junk_names(rng, p, s, taken | set(names))
                    others[sub] = sorted(set(names), key=names.index)
            if rng.random() < 0.3:
                # non-default names of the sub-directories; then a directory with the DEFAULT name is just
                # another unrelated directory
                subdirs = {"feat": rng.choice(["feat", "fbank"]), "ali": rng.choice(["ali", "pdf"]),
                           "ref": rng.choice(["ref", "tok.d"])}
            if rng.random() < 0.35:
                # things of src the command has no business with: another sub-directory, files at the root
                where = ["hyp", ""] + [k for k in ("ali", "ref") if subdirs and subdirs[k] != k]
                cands = [f[0] for f in feat] + [p + u + s for u in strays] + [p + "only_here" + s, "notes.txt"]
                for _ in range(rng.randint(1, 3)):
                    e = [rng.choice(where), rng.choice(cands)]
                    if e not in unrelated:
                        unrelated.append(e)
        N = len(utts)
        kinds = ["first_n", "last_n", "shortest_n", "longest_n", "first_ratio", "last_ratio",
                 "shortest_ratio", "longest_ratio", "rand_n", "rand_ratio"]
        kind = rng.choice(["utt_list", "utt_list_file"]) if rng.random() < 0.3 else rng.choice(kinds)
        crit = {"kind": kind}
        if kind.endswith("_n"):
            crit["n"] = rng.choice([0, 1, 2, N, N + 2, max(N - 1, 0)])
        elif kind.endswith("_ratio"):
            crit["q"] = rng.choice(["0", "1", "1/2", "1/4", "3/4", "5/8", "1/8"])
        else:
            # ids that exist somewhere in src but not in feat/ (in ali/, ref/, an unrelated directory)
            elsewhere = list(strays)
            for n in [n for names in others.values() for n in names] + [n for _, n in unrelated]:
                u = n[len(p): len(n) - len(s)]
                if matches(p, s, n) and len(n) >= len(p) + len(s) and n not in taken and u not in elsewhere \
                        and u and u[0] not in "-.":
                    elsewhere.append(u)
            pool = utts + elsewhere + ["no_" + rand_name(rng)]
            crit["list"] = rng.sample(pool, rng.randint(0, len(pool)))
            if elsewhere and rng.random() < 0.6 and not set(crit["list"]) & set(elsewhere):
                crit["list"].insert(rng.randrange(len(crit["list"]) + 1), rng.choice(elsewhere))
            if crit["list"] and rng.random() < 0.3:
                # the same utterance listed twice (utt_ids keeps the multiplicity)
                crit["list"].insert(rng.randrange(len(crit["list"]) + 1), rng.choice(crit["list"]))
        case = {"kind": "subset", "prefix": p, "suffix": s, "feat": feat, "others": others, "only": only,
                "crit": crit, "mode": rng.choice(["link", "copy", "symlink"]), "seed": rng.randint(0, 99)}
        if unrelated:
            case["unrelated"] = unrelated
        if subdirs:
            case["subdirs"] = subdirs
        return case

    def gen_datadir(self, rng, tier):
        """The two other commands that walk a whole SpectDataSet directory (chunk-torch-spect-data-dir,
        get-torch-spect-data-dir-info) on a tree that need not be consistent: see gen_subset."""
        p, s = pick_affixes(rng, 0.5)
        utts = rand_utts(rng, rng.choice([0, 1, 2, 3, 4]))
        long_ = rng.random() < 0.2
        feat = [[p + u + s, rng.choice(LONG_T) if long_ and rng.random() < 0.7 else rng.randint(1, 3)] for u in utts]
        taken = {f[0] for f in feat}
        T_of = dict((n, T) for n, T in feat)
        for j in junk_names(rng, p, s, taken):
            feat.append([j, rng.randint(1, 3)])
        strays = [u for u in rand_utts(rng, rng.choice([0, 1, 1, 2])) if u not in utts]
        others, unrelated, subdirs = {}, [], None
        for sub in ("ali", "ref"):
            if rng.random() < 0.75:
                keep = rng.choice([1.0, 0.8, 0.5])
                names = [f[0] for f in feat if rng.random() < keep]
                names += [p + u + s for u in strays if rng.random() < 0.7]
                if rng.random() < 0.3:
                    names += junk_names(rng, p, s, taken | set(names))
                names = sorted(set(names), key=names.index)
                # first dimension of the stored tensor: ali = T of the feature file, ref = number of tokens
                others[sub] = [[n, T_of.get(n, 2) if sub == "ali" else rng.randint(1, 2)] for n in names]
        if rng.random() < 0.3:
            subdirs = {"feat": rng.choice(["feat", "fbank"]), "ali": rng.choice(["ali", "pdf"]),
                       "ref": rng.choice(["ref", "tok.d"])}
        if rng.random() < 0.35:
            where = ["hyp", ""] + [k for k in ("ali", "ref") if subdirs and subdirs[k] != k]
            cands = [f[0] for f in feat] + [p + u + s for u in strays] + [p + "only_here" + s, "notes.txt"]
            for _ in range(rng.randint(1, 3)):
                e = [rng.choice(where), rng.choice(cands)]
                if e not in unrelated:
                    unrelated.append(e)
        case = {"kind": "datadir", "prefix": p, "suffix": s, "feat": feat, "others": others}
        if unrelated:
            case["unrelated"] = unrelated
        if subdirs:
            case["subdirs"] = subdirs
        return case

    def gen_moments(self, rng, tier):
        p, s = pick_affixes(rng, 0.5)
        which = rng.choice(["ali", "ref"])
        utts = rand_utts(rng, rng.choice([0, 1, 2, 3, 4]))
        dts = pick_dtypes(rng) if rng.random() < 0.25 else None     # with long utterances / far boundaries
        files = []
        for u in utts:
            if which == "ali":
                files.append([p + u + s, long_ali(rng, dts["ali"]) if dts and rng.random() < 0.7 else
                              rand_ali(rng, rng.random() < 0.1)])
            else:
                segs = []
                for _ in range(rng.randint(0, 4)):
                    a = rng.randint(0, 6) * (40 if dts else 1)
                    b = a + rng.randint(0, 4) * (33 if dts else 1)
                    if rng.random() < 0.15:
                        a, b = rng.choice([(-1, -1), (b + 1, a), (-1, 3)])
                    segs.append([rng.randint(0, 3), a, b])
                files.append([p + u + s, segs])
        taken = {f[0] for f in files}
        for j in junk_names(rng, p, s, taken):
            files.append([j, [1, 1] if which == "ali" else [[1, 0, 50]]])
        case = {"kind": "moments", "which": which, "prefix": p, "suffix": s, "files": files,
                "excl": rng.sample([-1, 0, 1, 2, 3, -100, 2 ** 31], rng.choice([0, 0, 1, 2])),
                "bessel": rng.random() < 0.4, "std": rng.random() < 0.3,
                "precision": rng.choice([3, 3, 1, 6])}
        if dts:
            case["dtypes"] = dts
        return case

    def gen_mvn(self, rng, tier):
        p, s = pick_affixes(rng, 0.5)
        utts = rand_utts(rng, rng.choice([0, 1, 2, 3, 4]))
        F = rng.randint(1, 3)
        dim_last = rng.random() < 0.7
        Tfix = rng.randint(1, 3)
        files = []
        for u in utts:
            T = rng.randint(1, 4) if dim_last else Tfix
            files.append([p + u + s, [[rng.randint(-8, 8) / rng.choice([1, 2, 4]) for _ in range(F)]
                                      for _ in range(T)]])
        grouped = rng.random() < 0.4
        id2gid = None
        if grouped:
            id2gid = [[u, rng.choice(["g1", "g2"])] for u in utts]
            if rng.random() < 0.3:
                id2gid.append(["ghost", "g3"])
        taken = {f[0] for f in files}
        junk = [[j, [[100.0] * F]] for j in junk_names(rng, p, s, taken)]
        return {"kind": "mvn", "prefix": p, "suffix": s, "files": files, "junk": junk, "dim_last": dim_last,
                "id2gid": id2gid, "bessel": rng.random() < 0.4}

    # ================================================================== implementation
    def run_impl(self, case):
        return getattr(self, "impl_" + case["kind"])(case)

    _omitted = {}

    def _call(self, case, name, argv):
        """Call a command in-process; flags the case wants omitted are left out when the value they would
        carry is the documented default."""
        flags = (case.get("omit") or {}).get(name)
        if flags:
            argv, gone = strip_defaults(argv, [f for f in flags if f in DOC_DEFAULTS])
            if gone:
                self._omitted.setdefault(json.dumps(case, sort_keys=True), set()).update(
                    f"{name}:{f}" for f in gone)
        return K.call(name, argv)

    @staticmethod
    def _save(case, role, t, path):
        """Store t as the dtype the case asks for that kind of file (role ali / ref / feat); an integer dtype
        only if every value fits (else the file stays int64, as before)."""
        import torch
        name = (case.get("dtypes") or {}).get(role)
        if name:
            dt = getattr(torch, name)
            if role == "feat":
                t = t.to(dt)
            else:
                lo, hi = INT_RANGE[name]
                if t.numel() == 0 or (lo <= int(t.min()) and int(t.max()) <= hi):
                    t = t.to(dt)
        K.save(t, path)

    def impl_alidir(self, case):
        with K.tmpdir() as d:
            ali = os.path.join(d, "ali")
            os.makedirs(ali)
            for name, a in case["files"]:
                self._save(case, "ali", K.long_tensor(a), os.path.join(ali, name))
            ref, ali2 = os.path.join(d, "ref"), os.path.join(d, "ali2")
            na = K.name_args(case["prefix"], case["suffix"])
            r1 = self._call(case, "torch_ali_data_dir_to_torch_token_data_dir", [ali, ref] + na + ["--num-workers", "0"])
            out = {"ret": r1, "ref": K.list_dir_tensors(ref)}
            try:
                r2 = self._call(case, "torch_token_data_dir_to_torch_ali_data_dir", [ref, ali2] + na + ["--num-workers", "0"])
                out["back"] = K.list_dir_tensors(ali2)
                out["ret2"] = r2
            except (ValueError, RuntimeError) as e:
                out["back_error"] = type(e).__name__
            return out

    def impl_refdir(self, case):
        import torch
        with K.tmpdir() as d:
            ref = os.path.join(d, "ref")
            feat = os.path.join(d, "feat")
            os.makedirs(ref)
            os.makedirs(feat)
            for name, segs, shape, T in case["files"]:
                if shape == "1d":
                    t = K.long_tensor([x[0] for x in segs])
                elif shape == "r2":
                    t = K.long_tensor([x[:2] for x in segs], (len(segs), 2))
                else:
                    t = K.long_tensor(segs, (len(segs), 3))
                self._save(case, "ref", t, os.path.join(ref, name))
                if T is not None:
                    self._save(case, "feat", torch.zeros(T, 2), os.path.join(feat, name))
            for name in case.get("feat_extra", []):
                self._save(case, "feat", torch.zeros(7, 2), os.path.join(feat, name))
            ali, ref2 = os.path.join(d, "ali"), os.path.join(d, "ref2")
            na = K.name_args(case["prefix"], case["suffix"])
            fa = ["--feat-dir", feat] if case["use_feat"] else []
            try:
                self._call(case, "torch_token_data_dir_to_torch_ali_data_dir", [ref, ali] + na + fa + ["--num-workers", "0"])
            except (ValueError, RuntimeError) as e:
                return {"error1": type(e).__name__}
            out = {"ali": K.list_dir_tensors(ali)}
            self._call(case, "torch_ali_data_dir_to_torch_token_data_dir", [ali, ref2] + na + ["--num-workers", "0"])
            out["ref2"] = K.list_dir_tensors(ref2)
            return out

    def _maps(self, d, t2i, swap_in, swap_out):
        t2i_path, i2t_path = os.path.join(d, "token2id.txt"), os.path.join(d, "id2token.txt")
        K.write_map(t2i_path, t2i, id_first=swap_in)       # --swap: "<id> <token>" expected
        K.write_map(i2t_path, t2i, id_first=not swap_out)  # --swap: "<token> <id>" expected
        return t2i_path, i2t_path

    def impl_trn(self, case):
        with K.tmpdir() as d:
            trn = os.path.join(d, "in.trn")
            K.write_trn(trn, case["corpus"])
            t2i_path, i2t_path = self._maps(d, case["t2i"], case["swap_in"], case["swap_out"])
            tok = os.path.join(d, "tok")
            os.makedirs(tok)
            for name, ids in case["extra"]:
                K.save(K.long_tensor(ids), os.path.join(tok, name))
            na = K.name_args(case["prefix"], case["suffix"])
            argv = [trn, t2i_path, tok] + na + ["--num-workers", "0"]
            if case["swap_in"]:
                argv.append("--swap")
            if case["unk"] is not None:
                argv += ["--unk-symbol", case["unk"]]
            if case["sizing"] == "skip":
                argv.append("--skip-frame-times")
            elif case["sizing"] == "feat":
                argv.append("--feat-sizing")
            r1 = self._call(case, "trn_to_torch_token_data_dir", argv)
            listing = {}
            shapes_ok = True
            for n in sorted(os.listdir(tok)):
                t = K.load(os.path.join(tok, n))
                if t.ndim == 2 and t.size(1) == 3:
                    shapes_ok &= bool((t[:, 1:] == -1).all())
                    t = t[:, 0]
                elif t.ndim == 2:
                    t = t[:, 0]
                listing[n] = t.tolist()
            out_trn = os.path.join(d, "out.trn")
            argv2 = [tok, i2t_path, out_trn] + na + ["--num-workers", "0"] + (["--swap"] if case["swap_out"] else [])
            out = {"ret": r1, "dir": listing, "no_times": shapes_ok}
            try:
                out["ret2"] = self._call(case, "torch_token_data_dir_to_trn", argv2)
                out["back"] = K.parse_trn(out_trn)
            except FileNotFoundError:
                out["back_error"] = "FileNotFoundError"
            return out

    def impl_ctm(self, case):
        with K.tmpdir() as d:
            t2i_path, i2t_path = self._maps(d, case["t2i"], False, False)
            m = case["mapping"]
            wc = {u: (("w" + u), rngc) for (u, _), rngc in zip(case["corpus"], "ABABAB")}
            ctm = os.path.join(d, "in.ctm")
            with open(ctm, "w") as f:
                for u, toks in case["corpus"]:
                    wfn, chan = wc[u] if m in ("wc2utt", "utt2wc") else (u, "A")
                    for tok, a, b in toks:
                        f.write(f"{wfn} {chan} {a!r} {b - a!r} {tok}\n")
            map_args = []
            if m == "wc2utt":
                mp = os.path.join(d, "wc2utt")
                with open(mp, "w") as f:
                    for u, (w, c) in wc.items():
                        f.write(f"{w} {c} {u}\n")
                map_args = ["--wc2utt", mp]
            elif m == "utt2wc":
                mp = os.path.join(d, "utt2wc")
                with open(mp, "w") as f:
                    for u, (w, c) in wc.items():
                        f.write(f"{u} {w} {c}\n")
                map_args = ["--utt2wc", mp]
            tok = os.path.join(d, "tok")
            os.makedirs(tok)
            for name, segs in case["extra"]:
                K.save(K.long_tensor(segs, (len(segs), 3)), os.path.join(tok, name))
            na = K.name_args(case["prefix"], case["suffix"])
            sh = ["--frame-shift-ms", str(case["shift"])]
            self._call(case, "ctm_to_torch_token_data_dir", [ctm, t2i_path, tok] + na + sh + map_args + ["--num-workers", "0"])
            listing = {n: K.load(os.path.join(tok, n)).tolist() for n in sorted(os.listdir(tok))}
            out_ctm = os.path.join(d, "out.ctm")
            chan_args = ["--channel", "B"] if m == "channel" else map_args
            self._call(case, "torch_token_data_dir_to_ctm", [tok, i2t_path, out_ctm] + na + sh + chan_args)
            rows = K.parse_ctm(out_ctm)
            back = {}
            inv = {v: k for k, v in wc.items()}
            chans = set()
            for wfn, chan, a, dur, token in rows:
                u = inv[(wfn, chan)] if m in ("wc2utt", "utt2wc") else wfn
                chans.add(chan)
                back.setdefault(u, []).append([token, a, a + dur])
            return {"dir": listing, "back": back, "chans": sorted(chans),
                    "order": [r[0] for r in rows]}

    def impl_textgrid(self, case):
        from pydrobert.torch import data
        with K.tmpdir() as d:
            t2i_path, i2t_path = self._maps(d, case["t2i"], False, False)
            tg = os.path.join(d, "tg")
            os.makedirs(tg)
            for u, toks in case["corpus"]:
                with open(os.path.join(tg, case["prefix"] + u + case["tg_suffix"]), "w") as f:
                    if toks:
                        data.write_textgrid([tuple(t) for t in toks], f, 0.0, None, "transcript", False, 3)
                    else:
                        # write_textgrid refuses an empty transcript; Praat writes such tiers
                        f.write('File type = "ooTextFile"\nObject class = "TextGrid"\n\nxmin = 0\nxmax = 1\n'
                                'tiers? <exists>\nsize = 1\nitem []:\n    item [1]:\n'
                                '        class = "IntervalTier"\n        name = "transcript"\n'
                                '        xmin = 0\n        xmax = 1\n        intervals: size = 0\n')
            with open(os.path.join(tg, "notes.txt"), "w") as f:
                f.write("not a textgrid\n")
            tok, tg2 = os.path.join(d, "tok"), os.path.join(d, "tg2")
            na = K.name_args(case["prefix"], case["suffix"])
            sh = ["--frame-shift-ms", str(case["shift"])]
            tgs = ["--textgrid-suffix=" + case["tg_suffix"]]
            self._call(case, "textgrids_to_torch_token_data_dir", [tg, t2i_path, tok] + na + sh + tgs + ["--num-workers", "0"])
            listing = {n: K.load(os.path.join(tok, n)).tolist() for n in sorted(os.listdir(tok))}
            err = None
            try:
                self._call(case, "torch_token_data_dir_to_textgrids",
                       [tok, i2t_path, tg2, "--infer"] + na + sh + tgs + ["--num-workers", "0"])
            except Exception as e:
                err = {"back_error": type(e).__name__, "back_message": str(e)[-160:],
                       "back_cause": repr(e.__cause__)[:200]}
            back, text = {}, {}
            for n in (sorted(os.listdir(tg2)) if (err is None and os.path.isdir(tg2)) else []):
                tr, _, end = data.read_textgrid(os.path.join(tg2, n))
                back[n] = [[t, float(a), float(b)] for t, a, b in tr]
                with open(os.path.join(tg2, n)) as f:
                    text[n] = f.read().split("\n")[:-1]
            out = {"dir": listing, "back": back, "text": text}
            if err:
                out.update(err)
            return out

    def impl_er(self, case):
        import torch
        mod = K.cl()
        with K.tmpdir() as d:
            rd, hd = os.path.join(d, "ref"), os.path.join(d, "hyp")
            os.makedirs(rd)
            os.makedirs(hd)
            for dd, lst in ((rd, case["refs"]), (hd, case["hyps"])):
                for u, toks in lst:
                    if case["timed"] == "col":
                        t = K.long_tensor(toks, (len(toks), 1))
                    elif case["timed"] == "unk":
                        t = K.long_tensor([[x, -1, -1] for x in toks], (len(toks), 3))
                    elif case["timed"]:
                        t = K.long_tensor([[x, i, i + 1] for i, x in enumerate(toks)], (len(toks), 3))
                    else:
                        t = K.long_tensor(toks)
                    K.save(t, os.path.join(dd, case["prefix"] + u + case["suffix"]))
                for j in nonmatching(case["prefix"], case["suffix"]):
                    K.save(K.long_tensor([0, 0, 0]), os.path.join(dd, j))
            out = os.path.join(d, "out.txt")
            parent = case.get("layout") == "parent"
            argv = ([d] if parent else [rd, hd, out]) + K.name_args(case["prefix"], case["suffix"]) \
                + (["--quiet"] if case.get("quiet", True) else []) + ["--batch-size", str(case["batch"])]
            name, tok = self._er_names(case)
            if case["use_map"]:
                mp = os.path.join(d, "id2token")
                swap = case.get("swap", False)
                K.write_map(mp, [[t, i] for i, t in tok.items()], id_first=not swap)
                argv += ["--id2token", mp] + (["--swap"] if swap else [])
            if case["replace"]:
                rp = os.path.join(d, "replace")
                with open(rp, "w") as f:
                    for a, b in case["replace"]:
                        f.write(f"{name(a)} {name(b)}\n")
                argv += ["--replace", rp]
            if case["ignore"]:
                ip = os.path.join(d, "ignore")
                with open(ip, "w") as f:
                    f.write(" ".join(name(a) for a in case["ignore"]) + "\n")
                argv += ["--ignore", ip]
            for k, flag in (("warn", "--warn-missing"), ("distances", "--distances"), ("per_utt", "--per-utt")):
                if case[k]:
                    argv.append(flag)
            if case["costs"] == "nist":
                argv.append("--nist-costs")
            elif case["costs"]:
                argv += ["--costs"] + [str(x) for x in case["costs"]]
            seen, tensors = [], []
            real = mod.error_rate
            ci, cd, cs = self.costs_of(case)

            def spy(ref, hyp, **kw):
                tensors.append([ref.t().tolist(), hyp.t().tolist()])
                ers = real(ref, hyp, **kw)
                # the pair ALONE, with the costs the command line asked for (not the ones the
                # command happened to pass on)
                kw1 = dict(kw, ins_cost=float(ci), del_cost=float(cd), sub_cost=float(cs))
                for b in range(ref.size(1)):
                    r, h = ref[:, b].tolist(), hyp[:, b].tolist()
                    r, h = r[: r.index(-1)], h[: h.index(-1)]
                    alone = real(torch.tensor(r + [-1]).unsqueeze(1), torch.tensor(h + [-1]).unsqueeze(1), **kw1)
                    seen.append([r, h, ers[b].item(), alone[0].item()])
                return ers

            mod.error_rate = spy
            self._er_seen = (json.dumps(case, sort_keys=True), seen)
            stdout = io.StringIO()
            try:
                with contextlib.redirect_stdout(stdout):
                    ret = self._call(case, "compute_torch_token_data_dir_error_rates", argv)
            except Exception as e:
                return {"error": type(e).__name__, "message": str(e)[:200], "seen": seen, "tensors": tensors}
            finally:
                mod.error_rate = real
            if parent:
                text = stdout.getvalue()
            else:
                with open(out) as f:
                    text = f.read()
            return {"ret": ret, "text": text, "seen": seen, "tensors": tensors}

    @staticmethod
    def _subdirs(case):
        """canonical name -> the name of the sub-directory in this case."""
        return case.get("subdirs") or {"feat": "feat", "ali": "ali", "ref": "ref"}

    def impl_subset(self, case):
        import torch
        with K.tmpdir() as d:
            src, dest = os.path.join(d, "src"), os.path.join(d, "dest")
            sd = self._subdirs(case)
            featd = src if case["only"] else os.path.join(src, sd["feat"])
            os.makedirs(featd)
            k = 0
            for name, T in case["feat"]:
                k += 1
                self._save(case, "feat", torch.full((T, 2), float(k)), os.path.join(featd, name))
            for sub, names in case["others"].items():
                os.makedirs(os.path.join(src, sd[sub]))
                for name in names:
                    k += 1
                    self._save(case, sub, K.long_tensor([k, k]), os.path.join(src, sd[sub], name))
            for sub, name in case.get("unrelated", []):
                k += 1
                os.makedirs(os.path.join(src, sub), exist_ok=True)
                K.save(K.long_tensor([k, k, k]), os.path.join(src, sub, name))
            c = case["crit"]
            argv = [src, dest] + K.name_args(case["prefix"], case["suffix"]) + ["--num-workers", "0"]
            if case.get("subdirs"):
                argv += ["--feat-subdir", sd["feat"], "--ali-subdir", sd["ali"], "--ref-subdir", sd["ref"]]
            if case["only"]:
                argv.append("--only")
            if case["mode"] == "copy":
                argv.append("--copy")
            elif case["mode"] == "symlink":
                argv.append("--symlink")
            flag = "--" + c["kind"].replace("_", "-")
            if c["kind"].endswith("_n"):
                argv += [flag, str(c["n"])]
                if c["kind"] == "rand_n":
                    argv += ["--seed", str(case["seed"])]
            elif c["kind"].endswith("_ratio"):
                argv += [flag, repr(float(Fraction(c["q"])))]
                if c["kind"] == "rand_ratio":
                    argv += ["--seed", str(case["seed"])]
            elif c["kind"] == "utt_list_file":
                lp = os.path.join(d, "list.txt")
                with open(lp, "w") as f:
                    f.write("".join(u + "\n" for u in c["list"]))
                argv += [flag, lp]
            else:
                if not c["list"]:
                    lp = os.path.join(d, "list.txt")
                    open(lp, "w").close()
                    argv += ["--utt-list-file", lp]
                else:
                    argv += [flag] + c["list"]
            back = {v: k_ for k_, v in sd.items()}

            def run(dst):
                a = list(argv)
                a[1] = dst
                ret = self._call(case, "subset_torch_spect_data_dir", a)
                got, same = [], True
                for root, _, files in os.walk(dst):
                    for n in files:
                        rel = os.path.relpath(os.path.join(root, n), dst)
                        if case["only"]:
                            got.append("feat/" + rel)
                        else:
                            # back to the canonical names feat/ ali/ ref/; anything else as "other:<path>"
                            top, _, rest = rel.partition(os.sep)
                            got.append(back[top] + "/" + rest if (rest and top in back) else "other:" + rel)
                        sp = os.path.join(src, rel)
                        same &= os.path.exists(sp) and K.file_bytes(sp) == K.file_bytes(os.path.join(root, n))
                return ret, sorted(got), same

            ret, got, same = run(dest)
            out = {"ret": ret, "dest": got, "identical": same}
            if c["kind"].startswith("rand_"):
                out["again"] = run(os.path.join(d, "dest2"))[1]
            return out

    def impl_datadir(self, case):
        import torch
        with K.tmpdir() as d:
            src, dest = os.path.join(d, "src"), os.path.join(d, "dest")
            sd = self._subdirs(case)
            os.makedirs(os.path.join(src, sd["feat"]))
            T_of = {}
            for k, (name, T) in enumerate(case["feat"]):
                T_of[name] = T
                self._save(case, "feat", torch.full((T, 2), float(k)), os.path.join(src, sd["feat"], name))
            for sub, files in case["others"].items():
                os.makedirs(os.path.join(src, sd[sub]))
                for name, n in files:
                    if sub == "ali":
                        t = K.long_tensor([i % 3 for i in range(n)])
                    else:
                        T = T_of.get(name, 2)
                        t = K.long_tensor([[1, 0, T]] if n == 1 else [[1, 0, T // 2], [2, T // 2, T]], (n, 3))
                    self._save(case, sub, t, os.path.join(src, sd[sub], name))
            for sub, name in case.get("unrelated", []):
                os.makedirs(os.path.join(src, sub), exist_ok=True)
                K.save(K.long_tensor([5, 5, 5]), os.path.join(src, sub, name))
            na = K.name_args(case["prefix"], case["suffix"])
            if case.get("subdirs"):
                na += ["--feat-subdir", sd["feat"], "--ali-subdir", sd["ali"], "--ref-subdir", sd["ref"]]
            # new utterance ids "<old id>#<index of the chunk>": the source utterance can be read back
            chunk_error = None
            try:
                ret = self._call(case, "chunk_torch_spect_data_dir", [src, dest, "--quiet", "--num-workers", "0",
                                                            "--format-utt", "{utt_id}#{idx}"] + na)
            except Exception as e:  # noqa: judged by the predicate; the info command is still run
                ret, chunk_error = None, [type(e).__name__, str(e)[:200].replace(d, "<tmp>")]
            back = {v: k_ for k_, v in sd.items()}
            got = []
            for root, _, files in os.walk(dest):
                for n in files:
                    rel = os.path.relpath(os.path.join(root, n), dest)
                    top, _, rest = rel.partition(os.sep)
                    got.append(back[top] + "/" + rest if (rest and top in back) else "other:" + rel)
            info_path = os.path.join(d, "info.txt")
            ret2 = self._call(case, "get_torch_spect_data_dir_info", [src, info_path] + na)
            info = {}
            with open(info_path) as f:
                for line in f:
                    k_, v = line.split()
                    info[k_] = int(v)
            return {"ret": ret, "chunk_error": chunk_error, "dest": sorted(got), "ret_info": ret2, "info": info}

    def impl_moments(self, case):
        with K.tmpdir() as d:
            dd = os.path.join(d, "x")
            os.makedirs(dd)
            for name, x in case["files"]:
                t = K.long_tensor(x) if case["which"] == "ali" else K.long_tensor(x, (len(x), 3))
                self._save(case, case["which"], t, os.path.join(dd, name))
            out = os.path.join(d, "out.txt")
            argv = [dd, out] + K.name_args(case["prefix"], case["suffix"]) + ["--num-workers", "0",
                                                                               "--precision", str(case["precision"])]
            if case["bessel"]:
                argv.append("--bessel")
            if case["std"]:
                argv.append("--std")
            if case["excl"]:
                argv += ["--exclude-ids"] + [str(x) for x in case["excl"]]
            fn = "print_torch_ali_data_dir_length_moments" if case["which"] == "ali" else \
                "print_torch_ref_data_dir_length_moments"
            if case["which"] == "ref":
                argv.append("--quiet")
            ret = self._call(case, fn, argv)
            with open(out) as f:
                return {"ret": ret, "text": f.read()}

    def impl_mvn(self, case):
        import torch
        with K.tmpdir() as d:
            dd = os.path.join(d, "feat")
            os.makedirs(dd)
            for name, rows in case["files"] + case["junk"]:
                self._save(case, "feat", torch.tensor(rows, dtype=torch.float32), os.path.join(dd, name))
            out = os.path.join(d, "stats.pt")
            argv = [dd, out] + K.name_args(case["prefix"], case["suffix"]) + ["--num-workers", "0"]
            if not case["dim_last"]:
                argv += ["--dim", "0"]
            if case["bessel"]:
                argv.append("--bessel")
            if case["id2gid"] is not None:
                mp = os.path.join(d, "id2gid")
                with open(mp, "w") as f:
                    for u, g in case["id2gid"]:
                        f.write(f"{u} {g}\n")
                argv += ["--id2gid", mp]
            try:
                ret = self._call(case, "compute_mvn_stats_for_torch_feat_data_dir", argv)
            except RuntimeError:
                return {"error1": "RuntimeError"}
            if ret:
                return {"ret": ret}
            st = torch.load(out)
            if "mean" in st and isinstance(st["mean"], torch.Tensor):
                st = {None: st}
            return {"ret": ret, "stats": {("" if g is None else g): [v["mean"].tolist(), v["std"].tolist()]
                                          for g, v in st.items()}}

    # ================================================================== model requests
    def utt_of(self, case, name):
        return name[len(case["prefix"]): len(name) - len(case["suffix"])]

    def model_request(self, case):
        k = case["kind"]
        if k in ("workers", "session"):
            return None        # no model: the oracle is the serial run of the same commands (in a fresh process)
        p, s = case["prefix"], case["suffix"]
        if k == "alidir":
            return {"op": "c17.alidir", "case": {"prefix": p, "suffix": s, "files": case["files"]}}
        if k == "refdir":
            return {"op": "c17.refdir", "case": {"prefix": p, "suffix": s, "files": [
                [n, segs, shape == "ok", T if case["use_feat"] else None] for n, segs, shape, T in case["files"]]}}
        if k in ("trn", "ctm", "textgrid"):
            tid = dict((t, i) for t, i in case["t2i"])
            if k == "trn":
                corpus, extra = case["corpus"], case["extra"]
                unk = tid[case["unk"]] if case["unk"] is not None else None
            else:
                corpus = [[u, [t[0] for t in toks]] for u, toks in case["corpus"]]
                extra = [[n, [x[0] for x in segs]] for n, segs in case.get("extra", [])]
                unk = None
            req = {"prefix": p, "suffix": s, "t2i": case["t2i"], "unk": unk, "corpus": corpus, "extra": extra}
            if k == "trn":
                return {"op": "c17.trn", "case": req}
            # the commands with times: exact (nominal) times, the frame shift, and for TextGrids what
            # torch-token-data-dir-to-textgrids is asked to write
            req["shift"] = frac_str(Fraction(case["shift"]))
            req["timed"] = [[u, [[t[0], frac_str(self.nominal(case, t[1])), frac_str(self.nominal(case, t[2]))]
                                 for t in toks]] for u, toks in case["corpus"]]
            req["tg"] = {"tg_suffix": case["tg_suffix"], "tier": "transcript", "precision": 3} \
                if k == "textgrid" else None
            return {"op": "c17.timed", "case": req}
        if k == "er":
            name, _ = self._er_names(case)
            # the table of observed per-pair values is attached in compare() (needs the run);
            # the request carries what the run saw via a side channel filled by run_impl
            return {"op": "c17.er", "case": {
                "refs": [[u, [name(t) for t in toks]] for u, toks in sorted(case["refs"])],
                "hyps": [[u, [name(t) for t in toks]] for u, toks in sorted(case["hyps"])],
                "replace": [[name(a), name(b)] for a, b in case["replace"]],
                "ignore": [name(a) for a in case["ignore"]],
                "warn": case["warn"], "distances": case["distances"], "per_utt": case["per_utt"],
                "batch": case["batch"], "table": self._er_table(case),
                "costs": [frac_str(x) for x in self.costs_of(case)] if case["costs"] else None}}
        if k == "subset":
            c = dict(case["crit"])
            if c["kind"] == "utt_list_file":
                c["kind"] = "utt_list"
            if c["kind"] == "rand_n":
                c = {"kind": "first_n", "n": c["n"]}
            if c["kind"] == "rand_ratio":
                c = {"kind": "first_ratio", "q": c["q"]}
            # the whole tree goes to the model: feat/, the existing ali/ and ref/ with ANY names, and what
            # else src holds (sub-directories the command does not know -- a directory with the default name
            # of a renamed sub-directory included -- and files at the root)
            unrel = [[("unrelated:" + sub) if sub in ("feat", "ali", "ref") else sub, n]
                     for sub, n in case.get("unrelated", [])]
            return {"op": "c17.subset", "case": {"prefix": p, "suffix": s,
                                                  "feat": [[T, n] for n, T in case["feat"]],
                                                  "others": [[sub, names] for sub, names in case["others"].items()],
                                                  "unrelated": unrel,
                                                  "crit": c, "link": case["mode"] != "copy"}}
        if k == "datadir":
            unrel = [[("unrelated:" + sub) if sub in ("feat", "ali", "ref") else sub, n]
                     for sub, n in case.get("unrelated", [])]
            return {"op": "c17.datadir", "case": {"prefix": p, "suffix": s,
                                                   "feat": [[T, n] for n, T in case["feat"]],
                                                   "others": [[sub, [[sz, n] for n, sz in files]]
                                                              for sub, files in case["others"].items()],
                                                   "unrelated": unrel}}
        if k == "moments":
            files = [x for n, x in sorted(case["files"]) if matches(p, s, n)]
            return {"op": "c17.moments", "case": {"kind": case["which"], "files": files, "excl": case["excl"],
                                                   "bessel": case["bessel"]}}
        if k == "mvn":
            g = dict(case["id2gid"]) if case["id2gid"] is not None else None
            files = []
            for n, rows in sorted(case["files"], key=lambda f: self.utt_of(case, f[0])):
                u = self.utt_of(case, n)
                files.append(["" if g is None else g[u], [[frac_str(x) for x in r] for r in rows]])
            return {"op": "c17.mvn", "case": {"dim_last": case["dim_last"], "bessel": case["bessel"], "files": files}}
        return None

    @staticmethod
    def _er_names(case):
        """(id -> its spelling in the --replace / --ignore files and in the model's request, id2token table):
        without --id2token the numeral of the id itself; with it the token the id2token file gives the id --
        't<id>', or (style 'num') the numeral of the NEXT id of the table, so that a token spelt '-1' is not id -1."""
        if not case["use_map"]:
            return str, None
        ids = case.get("map_ids", list(range(10)))
        if case.get("map_style", "t") == "num":
            tok = {i: str(ids[(k + 1) % len(ids)]) for k, i in enumerate(ids)}
        else:
            tok = {i: "t%d" % i for i in ids}
        return (lambda x: tok.get(x, "?%d" % x)), tok

    @classmethod
    def _er_unmapped(cls, case):
        """Stored ids that --id2token does not cover (the command must refuse them)."""
        tok = cls._er_names(case)[1]
        if tok is None:
            return []
        return sorted({t for _, toks in case["refs"] + case["hyps"] for t in toks if t not in tok})

    @staticmethod
    def costs_of(case):
        """(ins, del, sub) as --costs / --nist-costs / the defaults ask for."""
        c = case.get("costs")
        if c == "nist":
            return Fraction(3), Fraction(3), Fraction(4)
        if c:
            return tuple(Fraction(x) for x in c)
        return Fraction(1), Fraction(1), Fraction(1)

    def _er_table(self, case):
        """Per-pair edit counts for non-unit costs: error_rate evaluated on each pair ALONE
        (what C02 assigns to the pair), keyed by the interned sequences the real run presented
        (recorded by run_impl just before this request is built). Unit costs: None, the
        driver uses the Levenshtein distance itself."""
        if not case["costs"]:
            return None
        key = json.dumps(case, sort_keys=True)
        if getattr(self, "_er_seen", (None, None))[0] != key:
            self.impl_er(case)
        return [[r, h, int(alone)] for r, h, _, alone in self._er_seen[1]]

    # ================================================================== comparison
    def compare(self, case, impl, model):
        return getattr(self, "cmp_" + case["kind"])(case, impl, model)

    def predicate(self, case, impl, model):
        return getattr(self, "pred_" + case["kind"])(case, impl, model)

    @staticmethod
    def _err(impl):
        return impl.get("error") if isinstance(impl, dict) else None

    # ---- alidir
    def _ali_expect(self, case, model, which):
        """What the two whole-directory commands of the model (aliToTokCmd, tokToAliCmd) leave
        behind, with the repaired (`selected`) or the pinned (`selected_pinned`) filter."""
        sfx = "" if which == "selected" else "_pinned"
        ref = {n: segs for n, segs in model["ref_dir" + sfx]}
        back = model["back_dir" + sfx]
        if "error" in back:
            return ref, None, back["error"].split(":")[0]
        return ref, {n: a for n, a in back["ok"]}, None

    def _ali_same(self, impl, exp):
        ref, back, err = exp
        if impl.get("ref") != ref:
            return False
        if err is not None:
            return impl.get("back_error") == err
        return impl.get("back") == back

    def cmp_alidir(self, case, impl, model):
        if self._err(impl):
            return [f"command raised {impl['error']}: {impl.get('message')}"]
        if self._ali_same(impl, self._ali_expect(case, model, "selected")):
            return []
        pin = self._ali_same(impl, self._ali_expect(case, model, "selected_pinned"))
        return [f"ref files impl={sorted(impl.get('ref', {}))} model={model['selected']}"
                + (" (impl equals the pinned filter startswith(prefix) and endswith(PREFIX))" if pin else "")]

    def pred_alidir(self, case, impl, model):
        if self._err(impl):
            return [(f"ali->token command raised {impl['error']}: {impl.get('message')}", None)]
        p, s = case["prefix"], case["suffix"]
        want = {n: a for n, a in case["files"] if matches(p, s, n)}
        fails = []
        if sorted(impl["ref"]) != sorted(want):
            fails.append((f"ali->token dir with prefix={p!r} suffix={s!r} converted {sorted(impl['ref'])}, "
                          f"matching files are {sorted(want)}", None))
            return fails
        if any(len(a) == 0 for a in want.values()):
            if impl.get("back_error") != "ValueError":
                fails.append(("empty token sequence (R = 0) accepted by token->ali", None))
            return fails
        if "back" not in impl:
            fails.append((f"token->ali raised {impl.get('back_error')} on the output of ali->token", None))
        elif impl["back"] != want:
            fails.append((f"ali -> token -> ali is not the identity: {impl['back']} vs {want}", None))
        return fails

    # ---- refdir
    def _ref_expect(self, case, model, which):
        sel = model[which]
        dec = {n: (d, enc, canon) for n, d, enc, canon in model["decoded"]}
        errs = [dec[n][0]["error"] for n in sel if "error" in dec[n][0]]
        if errs:
            return {"error1": errs[0].split(":")[0]}
        return {"ali": {n: dec[n][0]["ok"] for n in sel}, "ref2": {n: dec[n][1] for n in sel}}

    def cmp_refdir(self, case, impl, model):
        if self._err(impl):
            return [f"command raised {impl['error']}: {impl.get('message')}"]
        if impl == self._ref_expect(case, model, "selected"):
            return []
        pin = impl == self._ref_expect(case, model, "selected_pinned")
        return [f"impl={json.dumps(impl)[:200]} model={json.dumps(self._ref_expect(case, model, 'selected'))[:200]}"
                + (" (impl equals the pinned filter)" if pin else "")]

    def pred_refdir(self, case, impl, model):
        if self._err(impl):
            return [(f"token->ali command raised {impl['error']}: {impl.get('message')}", None)]
        p, s = case["prefix"], case["suffix"]
        want = [f for f in case["files"] if matches(p, s, f[0])]
        dec = {n: (d, enc, canon) for n, d, enc, canon in model["decoded"]}
        bad = [f[0] for f in want if "error" in dec[f[0]][0]]
        if bad:
            if "error1" not in impl:
                return [(f"malformed token file {bad} converted without error", None)]
            return []
        if "error1" in impl:
            return [(f"token->ali raised {impl['error1']} although every matching file partitions its frames", None)]
        fails = []
        if sorted(impl["ali"]) != sorted(f[0] for f in want):
            return [(f"token->ali dir converted {sorted(impl['ali'])}, matching files are {sorted(f[0] for f in want)}", None)]
        for n, segs, shape, T in want:
            ali = impl["ali"][n]
            exp = [t for t, a, b in segs for _ in range(b - a)]
            if ali != exp:
                fails.append((f"{n}: frames {ali} are not ali[t] = tok of the segment containing t ({exp})", None))
            canon = dec[n][2]
            if canon and impl["ref2"].get(n) != segs:
                fails.append((f"{n}: canonical segments do not survive token -> ali -> token", None))
            if not canon and impl["ref2"].get(n) == segs:
                fails.append((f"{n}: non-canonical segments reproduced exactly (impossible for an alignment)", None))
        return fails

    # ---- trn / ctm / textgrid
    def _overlap_names(self, case):
        p, s = case["prefix"], case["suffix"]
        return [n for n, _ in case.get("extra", []) if matches(p, s, n) and len(n) < len(p) + len(s)]

    def cmp_trn(self, case, impl, model):
        if model["dir"] is None:
            return [] if self._err(impl) else ["model: a token has no id (command must fail); impl succeeded"]
        if self._err(impl):
            return [f"command raised {impl['error']}: {impl.get('message')}"]
        out = []
        mdir = {n: ids for n, ids in model["dir"]}
        if impl["dir"] != mdir:
            out.append(f"token dir impl={impl['dir']} model={mdir}")
        if model["back"] is None:
            if "back" in impl:
                out.append("model: reading back fails; impl produced a trn")
        elif impl.get("back") != model["back"]:
            out.append(f"trn read back impl={impl.get('back', impl.get('back_error'))} model={model['back']}")
        return out

    def pred_trn(self, case, impl, model):
        oov = any(t not in dict(case["t2i"]) for _, toks in case["corpus"] for t in toks)
        if self._err(impl):
            if oov and case["unk"] is None:
                return []
            return [(f"trn command raised {impl['error']}: {impl.get('message')}", None)]
        if oov and case["unk"] is None:
            return [("out-of-vocabulary token stored without --unk-symbol", None)]
        if self._overlap_names(case):
            if impl.get("back_error") == "FileNotFoundError":
                return [("a file whose name starts with the prefix and ends with the suffix only by overlapping "
                         "them is listed as utterance '' and then not found", SIG_OVERLAP)]
            return [("overlapping prefix/suffix name: expected the pinned FileNotFoundError", None)]
        if "back" not in impl:
            return [(f"token dir -> trn raised {impl.get('back_error')}", None)]
        fails = []
        want = sorted([u, [t if t in dict(case["t2i"]) else case["unk"] for t in toks]] for u, toks in case["corpus"])
        if impl["back"] != want:
            fails.append((f"trn -> token dir -> trn: got {impl['back']}, original (sorted by id) {want}", None))
        if case["sizing"] == "default" and not impl["no_times"]:
            fails.append(("trn tokens stored with segment times", None))
        return fails

    # ---- times: exact frames where the float arithmetic of the code is exact or far from a boundary
    @staticmethod
    def nominal(case, x):
        """The time a generated float stands for: itself on the dyadic grid, the whole
        millisecond on the ms grid."""
        return Fraction(x) if case.get("grid") == "dyadic" else Fraction(round(x * 1000), 1000)

    def frames_exact(self, case, tok):
        """Margin rule (DESIGN §4): the frames of an entry are compared exactly unless a float
        rounding could move a floor across an integer — on the ms grid when 1000·start/f or
        1000·end/f + 1/2 is (nearly) an integer; never on the dyadic grid."""
        if case.get("grid") == "dyadic":
            return True
        f = Fraction(case["shift"])
        s, e = self.nominal(case, tok[1]), self.nominal(case, tok[2])

        def near_int(q):
            return abs(q - round(q)) < Fraction(1, 10 ** 6)
        if near_int(1000 * s / f):
            return False
        return s == e or not near_int(1000 * e / f + Fraction(1, 2))

    def _cmp_rows(self, case, impl, model):
        """Token tensors (id, start frame, end frame) of every file against the model's."""
        if model.get("rows") is None:
            return ["model: the rows cannot be written (a token without id); impl succeeded"]
        out = []
        p, s = case["prefix"], case["suffix"]
        by_file = {p + u + s: toks for u, toks in case["corpus"]}
        for n, mrows in model["rows"]:
            toks, irows = by_file.get(n), impl["dir"].get(n)
            if toks is None:
                continue
            if irows is None or len(irows) != len(mrows):
                out.append(f"token file {n}: impl {irows} model {mrows}")
                continue
            for k, (tok, mr, ir) in enumerate(zip(toks, mrows, irows)):
                if self.frames_exact(case, tok) and list(mr) != list(ir):
                    out.append(f"token file {n} row {k} (entry {tok}, shift {case['shift']} ms): "
                               f"impl {ir} model (id, floor(1000s/f), max(floor((1000e+f/2)/f), start+1)) {mr}")
        return out

    def cmp_ctm(self, case, impl, model):
        if self._err(impl):
            return [f"command raised {impl['error']}: {impl.get('message')}"]
        out = self._cmp_rows(case, impl, model)
        if model.get("mid") is None:
            out.append("model: the token dir cannot be read back; impl succeeded")
        else:
            toks_of = {u: toks for u, toks in case["corpus"]}
            for u, mtoks in model["mid"]:
                itoks = impl["back"].get(u, [])
                if not mtoks and not itoks:
                    continue
                if len(itoks) != len(mtoks):
                    out.append(f"ctm written for {u!r}: impl {itoks} model {mtoks}")
                    continue
                for tok, (mt, ma, mb), (it, ia, ib) in zip(toks_of[u], mtoks, itoks):
                    if not self.frames_exact(case, tok):
                        continue
                    if mt != it or not close(float(Fraction(ma)), ia, 1e-9) or not close(float(Fraction(mb)), ib, 1e-9):
                        out.append(f"ctm written for {u!r}: impl {[it, ia, ib]} model (frame * f / 1000) {[mt, ma, mb]}")
        model = model["trn"]
        mdir = {n: ids for n, ids in model["dir"]}
        idir = {n: [r[0] for r in rows] for n, rows in impl["dir"].items()}
        if idir != mdir:
            out.append(f"token dir impl={idir} model={mdir}")
        mback = {u: toks for u, toks in model["back"]}
        iback = {u: [r[0] for r in rows] for u, rows in impl["back"].items()}
        # utterances without tokens do not exist in a ctm
        if iback != {u: t for u, t in mback.items() if t}:
            out.append(f"ctm read back impl={iback} model={mback}")
        return out

    def _times_ok(self, orig, got, frame_s, extra=0.0):
        fails = []
        for (t0, a0, b0), (t1, a1, b1) in zip(orig, got):
            if t0 != t1:
                fails.append(f"token {t0!r} became {t1!r}")
            if not close(a0, a1, frame_s + extra + 1e-9) or not close(b0, b1, frame_s + extra + 1e-9):
                fails.append(f"times of {t0!r}: ({a0}, {b0}) became ({a1}, {b1}), more than one frame ({frame_s}s) away")
        if len(orig) != len(got):
            fails.append(f"{len(orig)} tokens became {len(got)}")
        return fails

    def pred_ctm(self, case, impl, model):
        if self._err(impl):
            return [(f"ctm command raised {impl['error']}: {impl.get('message')}", None)]
        fails = []
        want = {u: toks for u, toks in case["corpus"]}
        if sorted(impl["back"]) != sorted(want):
            return [(f"ctm -> token dir -> ctm: utterances {sorted(impl['back'])}, original {sorted(want)}", None)]
        for u, toks in want.items():
            for f in self._times_ok(toks, impl["back"][u], case["shift"] / 1000.0):
                fails.append((f"ctm round trip, utterance {u!r}: {f}", None))
        if case["mapping"] == "channel" and set(impl["chans"]) - {"B"}:
            fails.append((f"--channel B ignored: {impl['chans']}", None))
        return fails

    def _tg_f32_short(self, case, impl):
        """Token files for which the inferred length T = (max frame * f) / 1000 — computed by the
        code on a 0-dim TENSOR, i.e. in float32 — is below the end of the last interval
        `end * f / 1000` computed in double: write_textgrid then refuses end_time (ValueError).
        Emulated with the same torch operations on the stored rows."""
        import torch
        f = float(case["shift"])
        short = []
        for n, rows in impl.get("dir", {}).items():
            if not rows or not matches(case["prefix"], case["suffix"], n):
                continue
            m = max(max(r[1], r[2]) for r in rows)
            T = (torch.tensor(m) * f) / 1000
            if bool(T < max(r[2] * f / 1000 for r in rows)):
                short.append(n)
        return short

    def _tg_back_error_ok(self, case, impl, model_empty):
        """The error of token dir -> textgrids is one the model predicts (RuntimeError: a file
        without rows) or the known float32 deviation (ValueError 'could not write textgrid')."""
        e = impl.get("back_error")
        if e == "RuntimeError" and model_empty:
            return "model"
        if e == "ValueError" and "could not write textgrid" in impl.get("back_message", "") \
                and "gave end_time" in impl.get("back_cause", "") and self._tg_f32_short(case, impl):
            return "f32"
        return None

    def cmp_textgrid(self, case, impl, model):
        if self._err(impl):
            return [f"command raised {impl['error']}: {impl.get('message')}"]
        out = self._cmp_rows(case, impl, model)
        model_empty = [n for n, lines in (model.get("grids") or [])
                       if isinstance(lines, dict) and lines.get("error") == "RuntimeError"]
        if impl.get("back_error"):
            if self._tg_back_error_ok(case, impl, model_empty) is None:
                out.append(f"token dir -> textgrids raised {impl['back_error']}: {impl.get('back_message')} "
                           f"({impl.get('back_cause')}); model errors {model_empty}")
            return out
        if model_empty:
            out.append(f"model: RuntimeError (max() of a tensor without rows) for {model_empty}; impl succeeded")
            return out
        # the TextGrid files written, line by line (utterances whose frames are all exact)
        p, tgs = case["prefix"], case["tg_suffix"]
        exact = {p + u + tgs: all(self.frames_exact(case, t) for t in toks) for u, toks in case["corpus"]}
        for n, lines in (model.get("grids") or []):
            if not exact.get(n) or not isinstance(lines, list):
                continue
            ilines = impl.get("text", {}).get(n)
            if ilines != lines:
                out.append(f"TextGrid {n}: impl {ilines} model {lines}")
        model = model["trn"]
        mdir = {n: ids for n, ids in model["dir"]}
        idir = {n: [r[0] for r in rows] for n, rows in impl["dir"].items()}
        if idir != mdir:
            out.append(f"token dir impl={idir} model={mdir}")
        p, tgs = case["prefix"], case["tg_suffix"]
        mback = {p + u + tgs: toks for u, toks in model["back"]}
        iback = {n: [r[0] for r in rows] for n, rows in impl["back"].items()}
        if iback != mback:
            out.append(f"TextGrid dir impl={iback} model={mback}")
        return out

    def pred_textgrid(self, case, impl, model):
        if self._err(impl):
            return [(f"textgrid command raised {impl['error']}: {impl.get('message')}", None)]
        if impl.get("back_error"):
            why = self._tg_back_error_ok(case, impl, [u for u, toks in case["corpus"] if not toks])
            if why == "f32":
                return [(f"torch-token-data-dir-to-textgrids --infer --frame-shift-ms {case['shift']}: the inferred "
                         f"length is computed in float32 and falls below the end of the last interval "
                         f"({impl.get('back_cause')}) for {self._tg_f32_short(case, impl)}", SIG_TG_F32)]
            if why == "model":
                return []     # a tier without intervals is refused (C17_textgrid_empty), like an empty alignment
            return [(f"token dir -> textgrids raised {impl['back_error']}: {impl.get('back_message')} "
                     f"({impl.get('back_cause')})", None)]
        p, tgs = case["prefix"], case["tg_suffix"]
        want = {p + u + tgs: toks for u, toks in case["corpus"]}
        if sorted(impl["back"]) != sorted(want):
            return [(f"TextGrid -> token dir -> TextGrid: files {sorted(impl['back'])}, original {sorted(want)}", None)]
        fails = []
        for n, toks in want.items():
            for f in self._times_ok(toks, impl["back"][n], case["shift"] / 1000.0, 0.0005):
                fails.append((f"TextGrid round trip, {n!r}: {f}", None))
        return fails

    # ---- error rates
    def _parse_er(self, case, text):
        lines = [l for l in text.split("\n") if l]
        if case["per_utt"]:
            return {"kind": "per_utt", "rows": [[l.rsplit(" ", 1)[0], float(l.rsplit(" ", 1)[1])] for l in lines]}
        return {"kind": "total", "q": float(lines[0])} if lines else {"kind": "nothing"}

    @staticmethod
    def _q(s):
        f = Fraction(s)
        return f.numerator / f.denominator

    def _er_same(self, case, impl, m):
        if m["kind"] == "missing_error":
            return impl.get("error") == "ValueError"
        if m["kind"] == "zerodiv":
            return impl.get("error") == "ZeroDivisionError"
        if "error" in impl:
            return False
        got = self._parse_er(case, impl["text"])
        if got["kind"] != m["kind"]:
            return False
        if m["kind"] == "total":
            return got["q"] == self._q(m["q"])
        return got["rows"] == [[u, self._q(q)] for u, q in m["rows"]]

    def cmp_er(self, case, impl, model):
        out = []
        if self._er_unmapped(case):
            return out         # refused while loading (predicate); the model starts from loaded transcripts
        if model.get("fixed_costs") is not None and not self._er_same(case, impl, model["fixed_costs"]):
            out.append(f"printed impl={impl.get('text', impl.get('error'))!r}, model with C02's error_rate model "
                       f"for costs {case['costs']}: {model['fixed_costs']}")
        if not self._er_same(case, impl, model["fixed"]):
            pin = self._er_same(case, impl, model["pinned"])
            out.append(f"printed impl={impl.get('text', impl.get('error'))!r} model={model['fixed']}"
                       + (" (impl equals the pinned model: per-utterance quotient evaluated in every mode)" if pin else ""))
        # the tensors of every error_rate call, column by column: the model's renumbering (references of the
        # batch first, then hypotheses, table kept across batches), eos -1, padding -2 (C17_er_tensor_read)
        mt, it = model.get("tensors"), impl.get("tensors")
        if mt is not None and it is not None:
            exp = mt[:len(it)] if "error" in impl else mt
            for n, (a, b) in enumerate(zip(it, exp)):
                if a != b:
                    out.append(f"call {n} of error_rate: (ref, hyp) columns impl={a} model={b}")
                    break
            if len(it) != len(exp):
                out.append(f"{len(it)} calls of error_rate, model {len(exp)}")
        for r, h, inbatch, alone in impl.get("seen", []):
            if inbatch != alone:
                out.append(f"error_rate in a batch gives {inbatch} for ({r},{h}), alone {alone}")
        return out

    def pred_er(self, case, impl, model):
        # Σ edits / Σ |ref| with batch size 1 == any batch size (C17_er_total); with --costs the edits
        # are those of C02's model of error_rate (C17_er_total_costs), else the Levenshtein distance
        spec = model["batch1_costs"] if model.get("batch1_costs") is not None else model["batch1"]
        un = self._er_unmapped(case)
        if un:
            return [] if impl.get("error") == "ValueError" else [
                (f"stored id(s) {un} are not in the --id2token table, yet the command "
                 f"{'raised ' + impl['error'] if 'error' in impl else 'printed ' + repr(impl.get('text'))} "
                 "instead of ValueError", None)]
        refs_empty = any(len(r) == 0 for _, r, _ in model["prepped"])
        if spec["kind"] == "missing_error":
            return [] if impl.get("error") == "ValueError" else [
                ("utterance missing on one side accepted without --warn-missing", None)]
        if impl.get("error") == "ZeroDivisionError":
            if spec["kind"] == "zerodiv":
                if refs_empty:
                    return [("error rate undefined for an empty reference: ZeroDivisionError instead of a "
                             "documented convention", SIG_ZERO)]
                return []      # no utterances at all: nothing to report, out of the property's domain
            return [("ZeroDivisionError although the total error rate is defined (a reference is empty, "
                     "the per-utterance quotient is evaluated in total mode)", None)]
        if "error" in impl:
            return [(f"error-rate command raised {impl['error']}: {impl.get('message')}", None)]
        if spec["kind"] == "zerodiv":
            return [("a figure was printed although the quotient is 0/0 or x/0", None)]
        if not self._er_same(case, impl, spec):
            return [(f"printed {impl['text']!r}, total edits / total reference length is {spec}", None)]
        return []

    # ---- subset
    def cmp_subset(self, case, impl, model):
        cmd = model["cmd"]
        if case["crit"]["kind"].startswith("rand_"):
            return [f"command raised {impl['error']}: {impl.get('message')}"] if self._err(impl) else []
        if "error" in cmd:
            # the copy loop of the model met a target twice with os.link / os.symlink
            return [] if self._err(impl) == cmd["error"] else [
                f"model: {cmd['error']} (a target is visited twice, link mode); impl {json.dumps(impl)[:200]}"]
        if self._err(impl):
            return [f"command raised {impl['error']}: {impl.get('message')}"]
        mdest = sorted(a + "/" + b for a, b in model["dest"])
        mcmd = sorted(a + "/" + b for a, b in cmd["ok"])
        out = [] if mcmd == mdest else [f"model: copy loop {mcmd} differs from the declarative copySubset {mdest}"]
        # the model's reading of the tree against a direct one: utterances of feat/, and for a list request
        # "requested and in feat/" (order and multiplicity of the request)
        p, s = case["prefix"], case["suffix"]
        ids = [n[len(p): len(n) - len(s)] for n, _ in case["feat"] if matches(p, s, n)]
        if sorted(model.get("feat_ids", ids)) != sorted(ids):
            out.append(f"model: utterances of feat/ {model['feat_ids']}, direct reading {ids}")
        if case["crit"]["kind"] in ("utt_list", "utt_list_file") and \
                model["selected"] != [u for u in case["crit"]["list"] if u in ids]:
            out.append(f"model: selected {model['selected']} for the request {case['crit']['list']} on feat/ {ids}")
        return out if impl["dest"] == mcmd else out + [f"dest impl={impl['dest']} model={mcmd}"]

    def _dup_listed(self, case):
        """Existing utterances that --utt-list / --utt-list-file names more than once."""
        c = case["crit"]
        if c["kind"] not in ("utt_list", "utt_list_file"):
            return []
        p, s = case["prefix"], case["suffix"]
        have = {n for n, _ in case["feat"]}
        return sorted({u for u in c["list"] if c["list"].count(u) > 1 and p + u + s in have})

    def pred_subset(self, case, impl, model):
        if self._err(impl) == "FileExistsError" and case["mode"] != "copy" and self._dup_listed(case):
            return [(f"--utt-list names {self._dup_listed(case)} twice: FileExistsError with "
                     f"{'--symlink' if case['mode'] == 'symlink' else 'hard links (the default)'} "
                     f"(the same list works with --copy)", SIG_DUP_LIST)]
        if self._err(impl):
            return [(f"subset command raised {impl['error']}: {impl.get('message')}", None)]
        fails = []
        if not impl["identical"]:
            fails.append(("a file in dest differs from the file of the same name in src", None))
        # dest is a data directory: nothing outside feat/ and the sub-directories src has among ali/, ref/
        # (not the other sub-directories of src, not the files at its root, not a directory that merely
        # carries the default name of a renamed sub-directory)
        known = ["feat/"] + [sub + "/" for sub in case["others"]]
        alien = [x for x in impl["dest"] if not any(x.startswith(k) for k in known)]
        if alien:
            fails.append((f"dest holds {alien}: not files of feat/ or of an existing ali/ / ref/ of src", None))
        p, s = case["prefix"], case["suffix"]
        avail = sorted(n for n, _ in case["feat"] if matches(p, s, n))
        got_feat = sorted(x[len("feat/"):] for x in impl["dest"] if x.startswith("feat/"))
        c = case["crit"]
        if c["kind"].startswith("rand_"):
            # the random criteria: size (the model's count for the same n / ratio), subset of what is
            # there, the other sub-directories follow, same --seed = same subset
            size = len(model["selected"]) if model is not None else None
            if (size is not None and len(got_feat) != size) or not set(got_feat) <= set(avail) \
                    or len(set(got_feat)) != len(got_feat):
                fails.append((f"--{c['kind'].replace('_', '-')} {c.get('n', c.get('q'))}: extracted {got_feat} "
                              f"from {avail}, expected {size} of them", None))
            for sub, names in case["others"].items():
                got = sorted(x[len(sub) + 1:] for x in impl["dest"] if x.startswith(sub + "/"))
                if got != sorted(set(got_feat) & set(names)):
                    fails.append((f"{sub}/: extracted {got}, expected {sorted(set(got_feat) & set(names))}", None))
            if impl["again"] != impl["dest"]:
                fails.append((f"--{c['kind'].replace('_', '-')} with the same --seed extracted a different subset", None))
            return fails
        # every sub-directory of dest is the restriction of the same sub-directory of src to the selected
        # utterances OF feat/ (model["selected"]: Lean's subsetSel on the tree; for a list: requested and in
        # feat/): a file of ali/ or ref/ whose utterance feat/ does not have is never extracted
        want = sorted({p + u + s for u in model["selected"]})     # a name listed twice is one file
        if got_feat != want:
            fails.append((f"{c}: extracted {got_feat}, requested utterances (of feat/) are {want}", None))
        for sub, names in case["others"].items():
            got = sorted(x[len(sub) + 1:] for x in impl["dest"] if x.startswith(sub + "/"))
            exp = sorted(set(want) & set(names))
            if got != exp:
                stray = sorted(set(got) - set(want))
                fails.append((f"{sub}/: extracted {got}, expected {exp} = files of src/{sub} of the selected "
                              f"utterances of feat/" + (f"; {stray} belong to no selected utterance of feat/"
                                                        if stray else ""), None))
        return fails

    # ---- datadir (chunk / info on a whole SpectDataSet directory)
    def cmp_datadir(self, case, impl, model):
        p, s = case["prefix"], case["suffix"]
        ids = [n[len(p): len(n) - len(s)] for n, _ in case["feat"] if matches(p, s, n)]
        out = []
        if sorted(model["feat_ids"]) != sorted(ids):
            out.append(f"model: utterances of feat/ {model['feat_ids']}, direct reading {ids}")
        # the model follows the repaired chunk command; the pinned behaviour, verified to be exactly the known
        # finding (FileNotFoundError inside a sub-directory without a matching file), is no disagreement
        return out + [d for d, sig in self.pred_datadir(case, impl, model) if sig != SIG_CHUNK_EMPTY]

    def _subdir_without_match(self, case):
        """Existing ali/ / ref/ of src that hold no name matching prefix and suffix."""
        p, s = case["prefix"], case["suffix"]
        return sorted(sub for sub, files in case["others"].items() if not any(matches(p, s, n) for n, _ in files))

    def pred_datadir(self, case, impl, model):
        if self._err(impl):
            return [(f"command raised {impl['error']}: {impl.get('message')}", None)]
        fails = []
        p, s = case["prefix"], case["suffix"]
        ids = model["ids"]      # Lean: utterances that feat/ and every ali/, ref/ that counts list (sorted)
        if impl.get("chunk_error"):
            cls, msg = impl["chunk_error"]
            empty = self._subdir_without_match(case)
            if cls == "FileNotFoundError" and empty and model["feat_ids"] and \
                    any(f"/{self._subdirs(case)[sub]}/" in msg for sub in empty):
                fails.append((f"chunk: FileNotFoundError ({msg}): src has the sub-directory {empty} without a "
                              f"single matching file; the data set (and the info command) take it as absent, "
                              f"the chunk command tries to load from it", SIG_CHUNK_EMPTY))
            else:
                fails.append((f"chunk command raised {cls}: {msg}", None))
        else:
            if impl["ret"] not in (None, 0):
                fails.append((f"chunk returned {impl['ret']}", None))
            exists = ["feat/"] + [sub + "/" for sub in case["others"]]
            # sub-directories that count for the data set: with at least one matching file (Lean: dataSetSubs)
            known = ["feat/"] + [sub + "/" for sub in model["subs"]]
            alien = [x for x in impl["dest"] if not any(x.startswith(k) for k in exists)]
            if alien:
                fails.append((f"chunk: dest holds {alien}: not files of feat/ or of an existing ali/ / ref/ of src",
                              None))
            per_sub = {}
            for k in exists:
                names = sorted(x[len(k):] for x in impl["dest"] if x.startswith(k))
                want = ids if k in known else []
                if k in known:
                    per_sub[k] = names
                srcs = sorted({n[len(p): len(n) - len(s)].rsplit("#", 1)[0] for n in names if matches(p, s, n)})
                if srcs != want or any(not matches(p, s, n) for n in names):
                    fails.append((f"chunk: {k} of dest holds chunks of the utterances {srcs} ({names}); the "
                                  f"utterances every sub-directory of src has are {want}", None))
            if any(v != per_sub["feat/"] for v in per_sub.values()):
                fails.append((f"chunk: the sub-directories of dest do not hold the same utterances: {per_sub}", None))
        info = impl["info"]
        if impl["ret_info"] not in (None, 0):
            fails.append((f"info returned {impl['ret_info']}", None))
        if info.get("num_utterances") != len(ids):
            fails.append((f"info: num_utterances {info.get('num_utterances')}, the data set has {ids}", None))
        if info.get("total_frames") != model["frames"]:
            fails.append((f"info: total_frames {info.get('total_frames')}, the feature files of {ids} have "
                          f"{model['frames']} frames", None))
        if "ali" in model["subs"]:
            counted = sum(v for k, v in info.items() if k.startswith("count_"))
            if counted != model["sizes"]["ali"]:
                fails.append((f"info: count_* add up to {counted}, the alignments of {ids} have "
                              f"{model['sizes']['ali']} frames", None))
        elif info.get("max_ali_class") != -1:
            fails.append((f"info: max_ali_class {info.get('max_ali_class')} although the data set has no alignments", None))
        want_tok = model["sizes"]["ref"] if "ref" in model["subs"] else -1
        if ("ref" not in model["subs"] or ids) and info.get("total_tokens") != want_tok:
            fails.append((f"info: total_tokens {info.get('total_tokens')}, expected {want_tok} over {ids}", None))
        return fails

    # ---- moments
    def cmp_moments(self, case, impl, model):
        if self._err(impl):
            return [f"command raised {impl['error']}: {impl.get('message')}"]
        return [f"printed {impl['text']!r} model mean={model['mean']} var={model['var']}"] \
            if self._moment_fails(case, impl, model) else []

    def _moment_fails(self, case, impl, model):
        text = impl["text"].strip()
        if model["mean"] is None:
            return [] if text == "n/a (n/a)" else [f"printed {text!r} for an empty sample"]
        try:
            m_s, v_s = text.split(" ")
            v_s = v_s.strip("()")
            mean = float(m_s)
        except Exception:
            return [f"cannot parse {text!r}"]
        tol = 0.5 * 10 ** (-case["precision"]) + 1e-9
        out = []
        if not close(mean, float(Fraction(model["mean"])), tol):
            out.append(f"mean printed {m_s}, pooled mean is {model['mean']}")
        if model["var"] is None:
            if v_s != "n/a":
                out.append(f"variance printed {v_s} with Bessel's correction and one sample")
        else:
            var = float(Fraction(model["var"]))
            if case["std"]:
                var = var ** 0.5
            if v_s == "n/a" or not close(float(v_s), var, tol):
                out.append(f"{'std' if case['std'] else 'variance'} printed {v_s}, pooled value is {var}")
        return out

    def pred_moments(self, case, impl, model):
        if self._err(impl):
            return [(f"moments command raised {impl['error']}: {impl.get('message')}", None)]
        fails = [(f, None) for f in self._moment_fails(case, impl, model)]
        if model["total"] != model["total_rev"]:
            fails.append(("internal: pooled moments depend on order", None))
        return fails

    # ---- mvn
    def _mvn_expect(self, case, model):
        groups = model["groups"]
        if any(st is None for _, _, st in groups):
            return {"error1": "RuntimeError"}
        if case["id2gid"] is None and not groups:
            return {"ret": 1}
        return {"stats": {g: st for g, _, st in groups}}

    def cmp_mvn(self, case, impl, model):
        if self._err(impl):
            return [f"command raised {impl['error']}: {impl.get('message')}"]
        exp = self._mvn_expect(case, model)
        if "stats" not in exp:
            return [] if {k: v for k, v in impl.items() if k in exp} == exp else [f"impl={impl} model={exp}"]
        if "stats" not in impl:
            return [f"impl={impl} model has statistics"]
        out = []
        if sorted(impl["stats"]) != sorted(exp["stats"]):
            return [f"groups impl={sorted(impl['stats'])} model={sorted(exp['stats'])}"]
        for g, (mean, std) in impl["stats"].items():
            mm = [float(Fraction(x)) for x in exp["stats"][g]["mean"]]
            mv = [float(Fraction(x)) for x in exp["stats"][g]["var"]]
            if len(mean) != len(mm) or any(not close(a, b, 1e-9 + 1e-9 * abs(b)) for a, b in zip(mean, mm)):
                out.append(f"group {g!r}: mean impl={mean} model={mm}")
            if len(std) != len(mv) or any(not close(a * a, b, 1e-7 + 1e-7 * abs(b)) for a, b in zip(std, mv)):
                out.append(f"group {g!r}: std impl={std} model var={mv}")
        return out

    def pred_mvn(self, case, impl, model):
        if self._err(impl):
            return [(f"mvn command raised {impl['error']}: {impl.get('message')}", None)]
        return [(d, None) for d in self.cmp_mvn(case, impl, model)]

    # ================================================================== bookkeeping
    def nontrivial(self, case, impl):
        k = case["kind"]
        if k in ("workers", "session"):
            return True
        n = len(case.get("files", case.get("corpus", case.get("refs", case.get("feat", [])))))
        nondefault = (case["prefix"], case["suffix"]) != ("", ".pt")
        if k == "er":
            nondefault |= bool(case["replace"] or case["ignore"] or case["batch"] != 100 or case["per_utt"]
                               or case["distances"] or case["costs"])
        if k in ("subset", "moments", "mvn", "ctm", "textgrid", "datadir"):
            nondefault = True
        return n >= 2 and nondefault

    def tags(self, case, impl):
        k = case["kind"]
        if k == "workers":
            return ["kind=workers", f"workers.{case.get('start')}.{case['n_utts']}utts"]
        if k == "session":
            return ["kind=session", "session." + case["relation"]]
        t = ["kind=" + k, "prefix=" + ("default" if case["prefix"] == "" else "set"),
             "suffix=" + ("default" if case["suffix"] == ".pt" else ("empty" if case["suffix"] == "" else "set"))]
        if case.get("dtypes"):
            role = {"alidir": "ali", "refdir": "ref", "moments": case.get("which"), "mvn": "feat"}.get(k)
            for r in ([role] if role else ["feat", "ali", "ref"]):
                t.append(f"{k}.stored_{r}={case['dtypes'][r]}")
            if k == "refdir" and case.get("use_feat"):
                t.append(f"refdir.stored_feat={case['dtypes']['feat']}")
        if k in ("alidir", "moments") and case.get("which", "ali") == "ali":
            T = max([len(f[1]) for f in case["files"]] or [0])
            t.append(f"{k}.max_frames=" + ("<=8" if T <= 8 else "128..255" if T < 256 else ">=256" if T >= 256 else "9..127"))
        if k == "refdir":
            T = max([max([x[2] for x in f[1] if len(x) > 2] or [0]) for f in case["files"]] or [0])
            t.append("refdir.max_frames=" + ("<=127" if T <= 127 else "128..255" if T < 256 else ">=256"))
        if k == "datadir":
            T = max([f[1] for f in case["feat"]] or [0])
            t.append("datadir.max_frames=" + ("<=127" if T <= 127 else "128..255" if T < 256 else ">=256"))
        if k == "er":
            t += [f"er.batch={case['batch']}", f"er.per_utt={case['per_utt']}", f"er.distances={case['distances']}",
                  "er.costs=" + ("unit" if not case["costs"] else "other")]
            if case["replace"]:
                t.append("er.replace")
            if case["ignore"]:
                t.append("er.ignore")
            t.append("er.ids=" + case.get("vocab", "nonneg"))
            t.append("er.stored=" + {False: "R", True: "Rx3"}.get(case["timed"], str(case["timed"])))
            t.append("er.layout=" + case.get("layout", "two"))
            t.append("er.id2token=" + ("none" if not case["use_map"] else
                                       case.get("map_style", "t") + ("+swap" if case.get("swap") else "")))
            if self._er_unmapped(case):
                t.append("er.unmapped_id")
            rep = dict((a, b) for a, b in case["replace"])          # histogram only: which ids are scored
            kept = {rep.get(x, x) for _, toks in case["refs"] + case["hyps"] for x in toks} - set(case["ignore"])
            for v in (-1, -2):
                if v in kept:
                    t.append(f"er.id{v}_scored" + ("" if case["use_map"] else "_raw"))
        if k == "subset":
            t += ["subset." + case["crit"]["kind"], "subset.mode=" + case["mode"]]
            if self._dup_listed(case):
                t.append("subset.utt_listed_twice")
            p_, s_ = case["prefix"], case["suffix"]
            have = {n for n, _ in case["feat"]}
            stray = {n for names in case["others"].values() for n in names if matches(p_, s_, n) and n not in have}
            if stray:
                t.append("subset.src_has_utts_feat_lacks")
            if any(set(names) != have for names in case["others"].values()):
                t.append("subset.inconsistent_corpus")
            if case.get("unrelated"):
                t.append("subset.unrelated_files_in_src")
            if case.get("subdirs"):
                t.append("subset.custom_subdir_names")
            if "list" in case["crit"]:
                req = {p_ + u + s_ for u in case["crit"]["list"]}
                if req & stray:
                    t.append("subset.requested_utt_only_in_ali_or_ref")
                if req - have - stray:
                    t.append("subset.requested_utt_not_in_ali_ref_feat")
        if k == "datadir":
            have = {n for n, _ in case["feat"] if matches(case["prefix"], case["suffix"], n)}
            for sub, files in case["others"].items():
                names = {n for n, _ in files if matches(case["prefix"], case["suffix"], n)}
                if names - have:
                    t.append(f"datadir.{sub}_has_utts_feat_lacks")
                if have - names:
                    t.append(f"datadir.{sub}_lacks_utts_of_feat")
            t.append("datadir.subdirs=" + "+".join(["feat"] + sorted(case["others"])))
            if self._subdir_without_match(case):
                t.append("datadir.subdir_without_matching_file")
            if case.get("unrelated"):
                t.append("datadir.unrelated_files_in_src")
            if case.get("subdirs"):
                t.append("datadir.custom_subdir_names")
        if k == "textgrid":
            if any(not toks for _, toks in case["corpus"]):
                t.append("textgrid.empty_tier")
            if case["shift"] in ODD_SHIFTS:
                t.append("textgrid.odd_shift")
            if isinstance(impl, dict) and impl.get("back_error"):
                t.append("textgrid.back_error:" + impl["back_error"])
        if k == "moments":
            t.append("moments." + case["which"])
        if k in ("ctm", "textgrid"):
            t.append(f"{k}.grid=" + case.get("grid", "ms"))
            n_ex = sum(1 for _, toks in case["corpus"] for tok in toks if self.frames_exact(case, tok))
            n_all = sum(len(toks) for _, toks in case["corpus"])
            if n_all:
                t.append(f"{k}.frames_compared_exactly=" + ("all" if n_ex == n_all else "some" if n_ex else "none"))
        for what in sorted(self._omitted.get(json.dumps(case, sort_keys=True), ())):
            t.append("omitted_default=" + what.split(":")[1])
            t.append("omitted_default_in=" + what)
        if k == "refdir" and case.get("feat_extra"):
            t.append("refdir.feat_dir_has_other_files")
        if k == "refdir" and isinstance(impl, dict) and "error1" in impl:
            t.append("refdir.rejected:" + impl["error1"])
        return t

    def shrink(self, case):
        if case.get("kind") == "workers":
            return             # the corpora of the worker runs are minimal by construction
        if case.get("kind") == "session":
            # fewer earlier calls in the process: only the last one, then one at a time
            h = case.get("history", [])
            if len(h) > 1:
                yield dict(case, history=h[-1:])
                for i in range(min(len(h), 6)):
                    yield dict(case, history=h[:i] + h[i + 1:])
            return
        for fn, flags in (case.get("omit") or {}).items():
            # every flag passed explicitly again, one at a time
            for f in flags:
                om = {k: [x for x in v if not (k == fn and x == f)] for k, v in case["omit"].items()}
                yield dict(case, omit={k: v for k, v in om.items() if v})
        for key in ("files", "corpus", "refs", "hyps", "feat", "extra", "replace", "ignore"):
            v = case.get(key)
            if isinstance(v, list) and v:
                for i in range(len(v)):
                    c = dict(case)
                    c[key] = v[:i] + v[i + 1:]
                    yield c
        if case["kind"] == "datadir":
            for sub, names in case["others"].items():
                yield dict(case, others={k: v for k, v in case["others"].items() if k != sub})
                for i in range(len(names)):
                    yield dict(case, others=dict(case["others"], **{sub: names[:i] + names[i + 1:]}))
            for i in range(len(case.get("unrelated", []))):
                yield dict(case, unrelated=case["unrelated"][:i] + case["unrelated"][i + 1:])
            if case.get("subdirs"):
                yield {k: v for k, v in case.items() if k != "subdirs"}
        if case["kind"] == "subset":
            for sub, names in case["others"].items():
                yield dict(case, others={k: v for k, v in case["others"].items() if k != sub})
                for i in range(len(names)):
                    yield dict(case, others=dict(case["others"], **{sub: names[:i] + names[i + 1:]}))
            for i in range(len(case.get("unrelated", []))):
                yield dict(case, unrelated=case["unrelated"][:i] + case["unrelated"][i + 1:])
            if case.get("subdirs"):
                yield {k: v for k, v in case.items() if k != "subdirs"}
            lst = case["crit"].get("list")
            if lst:
                for i in range(len(lst)):
                    yield dict(case, crit=dict(case["crit"], list=lst[:i] + lst[i + 1:]))
            if case["mode"] != "copy":
                yield dict(case, mode="copy")
        if case["kind"] == "er":
            # an utterance on both sides at once; one token of one sequence; options back to their defaults
            for u in sorted({x[0] for x in case["refs"]} & {x[0] for x in case["hyps"]}):
                yield dict(case, refs=[x for x in case["refs"] if x[0] != u], hyps=[x for x in case["hyps"] if x[0] != u])
            for key in ("refs", "hyps"):
                for i, (u, toks) in enumerate(case[key]):
                    for j in range(len(toks)):
                        yield dict(case, **{key: case[key][:i] + [[u, toks[:j] + toks[j + 1:]]] + case[key][i + 1:]})
            for key, dflt in (("prefix", ""), ("suffix", ".pt"), ("timed", False), ("layout", "two"), ("quiet", True),
                              ("distances", False), ("per_utt", False), ("batch", 100), ("costs", None),
                              ("warn", False), ("swap", False), ("map_style", "t")):
                if key in case and case[key] != dflt:
                    yield dict(case, **{key: dflt})
        for key in ("corpus", "files"):
            v = case.get(key)
            if isinstance(v, list):
                for i, item in enumerate(v):
                    if isinstance(item[1], list) and len(item[1]) > 1:
                        c = dict(case)
                        c[key] = v[:i] + [[item[0], item[1][:-1]] + list(item[2:])] + v[i + 1:]
                        yield c

    # ================================================================== worker counts
    # A "workers" case is one pipeline of commands on one tiny corpus plus the pool settings to
    # compare with the serial run: {"kind": "workers", "name", "n_utts", "start": "fork"|"spawn",
    # "inputs", "outputs", "steps", "settings": [[workers, chunk], ...]} (settings[0] is the serial
    # run). The runs happen in subprocesses of c17_cli.py under `timeout`: a pool that hangs is a
    # machinery error (exit 2), never a violation.
    _worker_runs = None

    @staticmethod
    def _workers_case(group, settings=None):
        j0 = group["jobs"][0]
        return {"kind": "workers", "name": group["name"], "n_utts": group["n_utts"], "start": group["start"],
                "inputs": j0["inputs"], "outputs": j0["outputs"], "steps": j0["steps"],
                "settings": settings or [[j["workers"], j.get("chunk")] for j in group["jobs"]]}

    @staticmethod
    def _workers_jobs(case):
        return [{"inputs": case["inputs"], "outputs": case["outputs"], "steps": case["steps"],
                 "workers": w, "chunk": c, "start": case.get("start", "spawn")} for w, c in case["settings"]]

    def _start_worker_runs(self, rng, tier):
        import c17_jobs as J
        groups = J.make_small_groups(rng, tier)
        if tier == "thorough":
            groups = J.make_jobs(rng) + groups
        return WorkerRuns(groups, n_procs=4 if tier == "quick" else 6, limit_s=300 if tier == "quick" else 900)

    def impl_workers(self, case):
        group = {"name": case["name"], "n_utts": case["n_utts"], "start": case.get("start", "spawn"),
                 "jobs": self._workers_jobs(case)}
        return {"runs": WorkerRuns([group], n_procs=1, limit_s=300).collect()[0]}

    @staticmethod
    def _workers_what(case, setting, diffs):
        w, c = setting
        return (f"{case['name']} on a corpus of {case['n_utts']} utterance(s): the run with --num-workers {w} "
                f"--mp-chunk-size {c} ({case.get('start', 'spawn')} pool) differs from the serial run "
                f"(--num-workers 0): " + "; ".join(diffs[:4]) + (f" (+{len(diffs) - 4} more)" if len(diffs) > 4 else ""))

    def pred_workers(self, case, impl, model):
        if self._err(impl):
            return []          # the runs did not finish (timeout): no verdict, not a violation
        base, fails = impl["runs"][0], []
        for setting, run in zip(case["settings"][1:], impl["runs"][1:]):
            diffs = K.diff_runs(case["steps"], base, run)
            if diffs:
                fails.append((self._workers_what(case, setting, diffs), None))
        return fails

    # ================================================================== sessions (option grid of every command)
    # A "session" case is one command on one small corpus, judged against the same invocation run with
    # --num-workers 0 as the first thing a fresh process does: {"kind": "session", "name", "fn", "pool",
    # "inputs", "outputs", "argv", "relation", ...} with relation
    #   "same_process":     "history" = the invocations made before it IN THE SAME PROCESS (--num-workers 0);
    #   "workers":          the invocation with one worker, chunk size 1 (fresh process);
    #   "explicit_default": "omitted" = the invocation with the flag left out (argv passes the documented default).
    _session_runs = None

    def _start_session_runs(self, rng, tier):
        import c17_opts as O
        return WorkerRuns(O.session_groups(rng, tier), n_procs=3 if tier == "quick" else 4,
                          limit_s=400 if tier == "quick" else 900)

    @staticmethod
    def _session_jobs(case):
        import c17_opts as O
        su = {"fn": case["fn"], "pool": case["pool"]}
        common = {"inputs": case["inputs"], "outputs": case["outputs"], "isolate": True, "start": "fork",
                  "workers": 0, "chunk": None}
        fresh = dict(common, steps=O.steps_of(su, case["argv"]))
        if case["relation"] == "same_process":
            return [fresh, dict(common, steps=fresh["steps"],
                                chain=[O.steps_of(su, a) for a in case["history"] + [case["argv"]]])]
        if case["relation"] == "workers":
            return [fresh, dict(common, steps=[[case["fn"], case["argv"], case["pool"]]], workers=1, chunk=1,
                                start=case.get("start", "fork"))]
        return [dict(common, steps=O.steps_of(su, case["omitted"])), fresh]

    def impl_session(self, case):
        group = {"name": case["name"], "n_utts": 3, "start": "fork", "jobs": self._session_jobs(case)}
        ref, got = WorkerRuns([group], n_procs=1, limit_s=300).collect()[0]
        return {"runs": [ref, got["chain"][-1] if "chain" in got else got]}

    @staticmethod
    def _session_what(case, diffs):
        cmd = f"{case['fn']} {' '.join(case['argv'])}"
        tail = "; ".join(diffs[:3]) + (f" (+{len(diffs) - 3} more)" if len(diffs) > 3 else "")
        if case["relation"] == "same_process":
            prev = case["history"][-1] if case["history"] else []
            return (f"{cmd} (--num-workers 0) as call number {len(case['history']) + 1} of one python process, right "
                    f"after the same command with {' '.join(prev)}, leaves something else than the same invocation "
                    f"in a fresh process: {tail}")
        if case["relation"] == "workers":
            return (f"{cmd}: the run with --num-workers 1 --mp-chunk-size 1 ({case.get('start', 'fork')} pool) differs "
                    f"from the serial run (--num-workers 0): {tail}")
        return (f"{cmd}: passing the documented default explicitly gives something else than omitting the flag "
                f"({' '.join(case['omitted'])}): {tail}")

    @staticmethod
    def _session_ref(case):
        return {"same_process": "the first call of a fresh process", "workers": "serial run",
                "explicit_default": "with the flag omitted"}[case["relation"]]

    def pred_session(self, case, impl, model):
        if self._err(impl):
            return []          # the runs did not finish: no verdict
        su = {"fn": case["fn"], "pool": case["pool"]}
        import c17_opts as O
        diffs = K.diff_runs(O.steps_of(su, case["argv"]), impl["runs"][0], impl["runs"][1], self._session_ref(case))
        return [(self._session_what(case, diffs), None)] if diffs else []

    def _collect_sessions(self, tier, report):
        import time
        import c17_opts as O
        t0 = time.time()
        runs, self._session_runs = self._session_runs, None
        if runs is None:
            return
        per_group = runs.collect()
        n = {"same_process": 0, "workers": 0, "explicit_default": 0}
        n_fail, reduced = 0, False
        for g, res in zip(runs.groups, per_group):
            su, inv, ix = g["suite"], g["inv"], g["index"]
            base = {"kind": "session", "name": su["name"], "fn": su["fn"], "pool": su["pool"],
                    "inputs": su["inputs"], "outputs": su["outputs"]}
            found = []
            chain = res[0]["chain"]
            for pos, i in enumerate(ix["chain"]):
                n["same_process"] += 1
                case = dict(base, relation="same_process", argv=inv[i][1],
                            history=[inv[j][1] for j in ix["chain"][:pos]])
                d = K.diff_runs(O.steps_of(su, inv[i][1]), res[ix["fresh"][i]], chain[pos], self._session_ref(case))
                if d:
                    found.append((case, d, {"fresh": res[ix["fresh"][i]], "in_session": chain[pos]}))
            for i, j in ix["pool"].items():
                n["workers"] += 1
                case = dict(base, relation="workers", argv=inv[i][1], start=g["jobs"][j]["start"])
                d = K.diff_runs(O.steps_of(su, inv[i][1]), res[ix["fresh"][i]], res[j], self._session_ref(case))
                if d:
                    found.append((case, d, {"serial": res[ix["fresh"][i]], "with_workers": res[j]}))
            for i, (_, argv, is_default) in enumerate(inv):
                if not is_default:
                    continue
                n["explicit_default"] += 1
                case = dict(base, relation="explicit_default", argv=argv, omitted=inv[0][1])
                d = K.diff_runs(O.steps_of(su, argv), res[ix["fresh"][0]], res[ix["fresh"][i]], self._session_ref(case))
                if d:
                    found.append((case, d, {"omitted": res[ix["fresh"][0]], "explicit": res[ix["fresh"][i]]}))
            n_fail += len(found)
            for case, d, detail in found[:4]:
                if case["relation"] == "same_process" and len(case["history"]) > 1 and not reduced:
                    # does the call just before it suffice? (one more subprocess, once per run)
                    reduced = True
                    small = dict(case, history=case["history"][-1:])
                    try:
                        r = self.impl_session(small)
                        d2 = K.diff_runs(O.steps_of(su, case["argv"]), r["runs"][0], r["runs"][1],
                                         self._session_ref(case))
                        if d2:
                            case, d, detail = small, d2, {"fresh": r["runs"][0], "in_session": r["runs"][1]}
                    except Exception:  # noqa: keep the full history
                        pass
                report["failures"].append(Failure(case, self._session_what(case, d), None, detail))
        report["extra"]["sessions"] = {
            "commands": sorted({g["suite"]["fn"] for g in runs.groups}), "suites": len(runs.groups),
            "invocations": sum(len(g["inv"]) for g in runs.groups),
            "flips_explicit_default": n["explicit_default"], "compared": n, "differences": n_fail,
            "what": "per command: base (every optional flag omitted) and one option changed at a time (explicit "
                    "documented default / other value); (1) base, flip1, base, flip2, ... in ONE process with "
                    "--num-workers 0, each = the same invocation in a fresh process; (2) one worker = serial for "
                    "every invocation; (3) explicit documented default = flag omitted",
            "subprocesses": len(runs.procs), "waited_s": round(time.time() - t0, 1)}

    def extra_checks(self, rng, tier, report):
        if tier not in ("quick", "thorough"):
            return
        import time
        t0 = time.time()
        if self._session_runs is None:
            self._session_runs = self._start_session_runs(rng, tier)
        runs = self._worker_runs or self._start_worker_runs(rng, tier)
        self._worker_runs = None
        per_group = runs.collect()
        n_cmp, dist = 0, {}
        for g, res in zip(runs.groups, per_group):
            case = self._workers_case(g)
            k = f"{g['start']}/{g['n_utts']} utts"
            for setting, run in zip(case["settings"][1:], res[1:]):
                n_cmp += 1
                dist[k] = dist.get(k, 0) + 1
                diffs = K.diff_runs(case["steps"], res[0], run)
                if diffs:
                    small = self._workers_case(g, [case["settings"][0], setting])
                    report["failures"].append(Failure(small, self._workers_what(small, setting, diffs), None,
                                                      {"serial": res[0], "with_workers": run}))
        report["extra"]["worker_runs"] = {
            "pipelines": sorted({g["name"].split(" --")[0] for g in runs.groups}),
            "groups": len(runs.groups), "settings_compared": n_cmp, "by_start_method_and_corpus": dist,
            "settings": "workers {0,1,2} x chunk {1,2} on 0/1/3 utterances"
                        + ("; workers {0,1,3} x chunk {1,2} on 7 utterances" if tier == "thorough" else ""),
            "subprocesses": len(runs.procs), "waited_s": round(time.time() - t0, 1),
            "started_s_before_collect": round(t0 - runs.t_start, 1)}
        self._collect_sessions(tier, report)


class WorkerRuns:
    """The jobs of some groups spread over parallel subprocesses of c17_cli.py (longest first onto
    the least loaded), each under `timeout`; started at construction, gathered by `collect()`."""

    def __init__(self, groups, n_procs, limit_s):
        import time
        import c17_jobs as J
        from common import framework
        self.groups, self.procs, self.t_start = groups, [], time.time()
        self.dir = tempfile.mkdtemp(prefix="c17w_", dir="/tmp")
        flat = sorted(((J.cost(j, g["n_utts"]), gi, ji) for gi, g in enumerate(groups)
                       for ji, j in enumerate(g["jobs"])), key=lambda x: (-x[0], x[1], x[2]))
        bins = [[0.0, []] for _ in range(max(1, n_procs))]
        for c, gi, ji in flat:
            b = min(bins, key=lambda b: b[0])
            b[0] += c
            b[1].append((gi, ji))
        env = dict(os.environ)
        env["VERIF_REPO"] = str(framework.REPO)
        env.setdefault("OMP_NUM_THREADS", "1")
        try:
            for k, (_, items) in enumerate(bins):
                if not items:
                    continue
                jp, op, ep = (os.path.join(self.dir, f"{x}{k}.json") for x in ("jobs", "out", "err"))
                with open(jp, "w") as f:
                    json.dump([groups[gi]["jobs"][ji] for gi, ji in items], f)
                with open(ep, "w") as ef:
                    p = subprocess.Popen(["timeout", str(limit_s), sys.executable, str(HERE / "c17_cli.py"), jp, op],
                                         env=env, stdout=subprocess.DEVNULL, stderr=ef)
                self.procs.append((p, items, op, ep))
        except Exception:
            self._cleanup()
            raise

    def _cleanup(self):
        import shutil
        for p, _, _, _ in self.procs:
            if p.poll() is None:
                p.kill()
        shutil.rmtree(self.dir, ignore_errors=True)

    def collect(self):
        """-> per group, the list of results of its jobs. Raises (machinery error) when a
        subprocess timed out or crashed."""
        results = {}
        try:
            for p, items, op, ep in self.procs:
                rc = p.wait()
                if rc != 0:
                    with open(ep, errors="replace") as f:
                        tail = f.read()[-400:]
                    raise RuntimeError(f"worker runs did not finish (exit {rc}; 124 = timeout): {tail}")
                with open(op) as f:
                    for (gi, ji), r in zip(items, json.load(f)):
                        results[(gi, ji)] = r
        finally:
            self._cleanup()
        return [[results[(gi, ji)] for ji in range(len(g["jobs"]))] for gi, g in enumerate(self.groups)]


CHECK = C17()
