"""C19 — estimators are unbiased where promised; relaxed distributions are consistent.

Correspondence: the random primitives (`proposal.sample`, `torch.rand`, `torch.rand_like`,
`torch.bernoulli`) are replaced so that the WHOLE sample space of a small discrete proposal
with N in {1,2} Monte-Carlo samples is enumerated; the value and autograd gradient (float64)
of every tuple are compared with the Lean model over Rat (tolerance 1e-9), and the average
over the sample space is compared with the exact expectation / gradient (Lean spec).
"""
import itertools
import math
from fractions import Fraction as Fr

from common.framework import PropertyCheck
import c19_fam as fam
import c19_alias as alias
import c19_life as life_
from c19_fam import F, fs, close

EPS64 = 2.220446049250313e-16
SPECIALS = ("nan", "inf", "-inf")
EPS = {"float64": 2.220446049250313e-16, "float32": 1.1920928955078125e-07}
# model (Float = binary64) vs implementation: binary64 to 1e-9; a binary32 implementation is compared
# with the binary64 model evaluated at the SAME (binary32) inputs to 1e-4 (relative to max(1, |x|))
TOL_D = {"float64": 1e-9, "float32": 1e-4}
TOL_G = {"float64": 1e-8, "float32": 1e-4}
F32_EXP_MAX = 88.72          # torch.exp overflows binary32 above 88.7228...
# csample(b, v) against its specification (the relaxed sample of THIS distribution at the uniform point
# of the region of b, computed without cancellation): looser, `1 - probs` inside csample loses
# digits long before the clamp becomes active (sigmoid(20) in float64: 5e-8)
TOL_SPEC = {"float64": 1e-6, "float32": 1e-3}
SIG_CLAMP = "C19.relaxed.csample_clamped_probs"
SIG_STNAN = "C19.straight_through.nan_at_neg_inf_logit"
SIG_LOGSHAPE = "C19.direct.is_log_leading_axis"
SIG_IMHNINF = "C19.imh.ninf_ratio_poisons_chain"
SIG_STALE = "C19.distributions.lazy_attribute_stale_after_inplace_edit"


def _dy(rng, lo, hi, den):
    return Fr(rng.randint(lo * den, hi * den), den)


def _probs(rng, n, den=16):
    return [fs(Fr(rng.randint(1, den - 1), den)) for _ in range(n)]


def _simplex(rng, V, den=16):
    while True:
        cuts = sorted(rng.sample(range(1, den), V - 1))
        parts = [b - a for a, b in zip([0] + cuts, cuts + [den])]
        if all(p > 0 for p in parts):
            return [fs(Fr(p, den)) for p in parts]


def _logits(rng, n):
    return [fs(_dy(rng, -2, 2, 8)) for _ in range(n)]


# near-boundary parameters for the estimator families.  Exactly 0 / 1 (and logits beyond +-36, where
# float64 sigmoid rounds to 1) are NOT in the estimators' domain: the theorems assume P(b) != 0 on the
# sample space, and torch's own clamp_probs cuts the gradient of log P there.
_T24 = Fr(1, 1 << 24)


def _edge_probs(rng, n):
    th = [fs(rng.choice([_T24, 1 - _T24, Fr(1, 1 << 12), 1 - Fr(1, 1 << 12)])) for _ in range(n)]
    for j in range(1, n):
        if rng.random() < 0.5:
            th[j] = _probs(rng, 1)[0]
    return th


def _edge_simplex(rng, V):
    small = [rng.choice([_T24, Fr(1, 1 << 12)]) for _ in range(V - 1)]
    th = small + [1 - sum(small)]
    rng.shuffle(th)
    return [fs(x) for x in th]


def _edge_logits(rng, n):
    th = [fs(Fr(rng.choice([-20, -17, 17, 20]))) for _ in range(n)]
    for j in range(1, n):
        if rng.random() < 0.5:
            th[j] = _logits(rng, 1)[0]
    rng.shuffle(th)
    return th


def _ninf_row(rng, row, like=None):
    """a row of logits in which some (not all) classes are impossible: logit -inf.  `like`: put the
    -inf entries (at least) where that row has them (a density dominated by the proposal)."""
    row = list(row)
    V = len(row)
    if like is not None:
        idx = [j for j, x in enumerate(like) if fam.is_ninf(x)]
    else:
        idx = rng.sample(range(V), rng.randint(1, max(1, V - 2)) if rng.random() < 0.7 else V - 1)
    for j in idx:
        row[j] = "-inf"
    return row


def _family(rng, which=None, max_points=9, edge=False, par=None, ninf=False, like=None):
    """ninf: categorical families only, `logits` parametrisation with zero-probability classes
    (logit -inf); `like`: a family instance whose -inf positions are copied."""
    which = which or rng.choice(["bern1", "bern2", "bern3", "cat2w", "cat3", "onehot3", "cat2"])
    par = par or rng.choice(["probs", "logits"])
    if ninf:
        sp = _family(rng, which, par="logits", edge=edge)
        while like is not None and fam.n_points(sp) != fam.n_points(like):
            sp = _family(rng, which, par="logits", edge=edge)
        if sp["fam"] == "cat2":
            lk = like["theta"] if like else [None, None]
            rows = [_ninf_row(rng, sp["theta"][0], lk[0]), sp["theta"][1]]
            if like or rng.random() < 0.5:
                rows[1] = _ninf_row(rng, sp["theta"][1], lk[1])
            sp["theta"] = rows
        else:
            sp["theta"] = _ninf_row(rng, sp["theta"], like["theta"] if like else None)
        return sp
    probs = _edge_probs if edge else _probs
    simplex = _edge_simplex if edge else _simplex
    logits = _edge_logits if edge else _logits
    if which.startswith("bern"):
        n = int(which[4])
        th = probs(rng, n) if par == "probs" else logits(rng, n)
        return {"fam": "bern", "param": par, "theta": th}
    if which in ("cat2w", "cat3", "onehot3", "onehot2"):
        V = int(which[-1]) if which[-1].isdigit() else 2
        f = "onehot" if which.startswith("onehot") else "cat"
        if par == "probs":
            th = simplex(rng, V)
            if rng.random() < 0.3:      # unnormalised (sum 2): torch normalises
                th = [fs(2 * F(x)) for x in th]
        else:
            th = logits(rng, V)
        return {"fam": f, "param": par, "theta": th}
    if which == "cat2":
        V = rng.choice([2, 3])
        th = [simplex(rng, V), simplex(rng, V)] if par == "probs" else [logits(rng, V), logits(rng, V)]
        return {"fam": "cat2", "param": par, "theta": th}
    raise ValueError(which)


def _is_edge(spec):
    """does a family instance carry a near-boundary parameter?"""
    th = spec["theta"]
    flat = [x for r in th for x in r] if spec["fam"] == "cat2" else th
    if spec["param"] == "probs":
        return any(F(x) < Fr(1, 1000) for x in flat)
    return any(abs(F(x)) >= 17 for x in flat if not fam.is_ninf(x))


# ---- relaxed distributions: parameter values and draws, boundary and near-boundary included
U_GRID = [Fr(0), Fr(1, 1 << 40), Fr(1, 16), Fr(1, 4), Fr(1, 2), Fr(3, 4), Fr(15, 16),
          1 - Fr(1, 1 << 24), 1 - Fr(1, 1 << 40), 1 - Fr(1, 1 << 53), Fr(1)]
LB_SIGMOID = [Fr(-6), Fr(-3, 2), Fr(0), Fr(1, 4), Fr(2), Fr(7)]          # probs = sigmoid(.), interior
LB_PROBS = [Fr(0), Fr(1, 1 << 60), Fr(1, 1 << 53), _T24, Fr(1, 16), Fr(1, 2), Fr(15, 16), 1 - _T24,
            1 - Fr(1, 1 << 53), Fr(1)]
LB_LOGITS = [Fr(x) for x in (-100, -88, -37, -20, -17, 17, 20, 37, 88, 100)] + [Fr(-6), Fr(-3, 2), Fr(0),
                                                                               Fr(1, 4), Fr(2), Fr(7)]
# draws for the categorical relaxation: dyadic values near 0 at several scales (z_k = -log(-log v_k)
# then spans [-3.6, -2]), the middle, and values within a few ulp of 1 (incl. 0 and 1 themselves)
G_GRID = [Fr(0), Fr(1, 1 << 44), Fr(1, 1 << 22), Fr(1, 1 << 14), Fr(1, 1 << 11), Fr(1, 16), Fr(1, 2),
          Fr(15, 16), 1 - Fr(1, 1 << 24), 1 - Fr(1, 1 << 53), Fr(1)]
G_GRID_Q = [Fr(0), Fr(1, 1 << 44), Fr(1, 1 << 14), Fr(1, 2), 1 - Fr(1, 1 << 24), 1 - Fr(1, 1 << 53), Fr(1)]
G_EDGE = [("probs", [Fr(1), Fr(0)]), ("probs", [Fr(0), Fr(1)]), ("probs", [1 - _T24, _T24]),
          ("probs", [Fr(2), Fr(0)]), ("probs", [Fr(1, 2), Fr(1, 2)]),
          ("logits", [Fr(0), Fr(-20)]), ("logits", [Fr(-88), Fr(0)]), ("logits", [Fr(0), Fr(100)]),
          ("probs", [Fr(0), Fr(1), Fr(0)]), ("probs", [Fr(0), Fr(0), Fr(1)]), ("probs", [Fr(1), Fr(0), Fr(0)]),
          ("probs", [Fr(1, 2), Fr(1, 2), Fr(0)]), ("probs", [_T24, 1 - 2 * _T24, _T24]),
          ("logits", [Fr(88), Fr(0), Fr(-88)]), ("logits", [Fr(0), Fr(0), Fr(-37)]),
          ("logits", [Fr(20), Fr(-20), Fr(0)])]


TINY = {"float64": 2.2250738585072014e-308, "float32": 1.1754943508222875e-38}


def _sigmoid(l):
    if l >= 0:
        return 1.0 / (1.0 + math.exp(-l))
    e = math.exp(l)
    return e / (1.0 + e)


def _clampf(x, eps):
    return min(max(x, eps), 1.0 - eps)


def expected_lb(par, value, dtn):
    """what `probs` and `logits` of LogisticBernoulli(par=value) denote (python floats, independent of
    the library): probs-construction -> logits = logit(clamp_probs(p)); logits-construction -> probs =
    sigmoid(logits).  `value` as the dtype holds it."""
    if par == "probs":
        pc = _clampf(value, EPS[dtn])
        return value, math.log(pc) - math.log1p(-pc)
    return _sigmoid(value), value


def expected_g(par, row, dtn):
    """the same for one row (class axis) of GumbelOneHotCategorical: probs-construction -> probs =
    row / sum(row), logits = log(clamp_probs(probs)); logits-construction -> logits = row - logsumexp(row),
    probs = softmax(row).  -> (probs, logits)"""
    if par == "probs":
        tot = sum(Fr(x) for x in row)
        ps = [float(Fr(x) / tot) for x in row]
        return ps, [math.log(_clampf(x, EPS[dtn])) for x in ps]
    m = max(row)
    lse = m + math.log(sum(math.exp(x - m) for x in row))
    ls = [x - lse for x in row]
    return [math.exp(x) for x in ls], ls


def pclose(a, b, dtn, kind):
    """implementation value `a` (exact-rational string or special) against the oracle float `b`:
    probabilities to a few ulp RELATIVE (sigmoid / softmax / division are accurate to that; a dtype's
    underflow threshold as the floor), logits to a few ulp of 1 + |logit| (a difference of two logs)"""
    if b in (float("inf"), float("-inf")) or b != b or a in SPECIALS:
        return a == fs(b)
    a = float(F(a))
    if kind == "probs":
        # exp of a log-probability known to a few ulp of 1 + |log p|
        return abs(a - b) <= 64 * EPS[dtn] * abs(b) * (1 + (abs(math.log(b)) if b > 0 else 0)) + TINY[dtn]
    return abs(a - b) <= 64 * EPS[dtn] * (1 + abs(b))


def _table(rng, M):
    return [fs(_dy(rng, -3, 3, 4)) for _ in range(M)]


ALL_FAMS = ["bern1", "bern2", "bern3", "cat2w", "cat3", "onehot3", "cat2"]
CAT_FAMS = ["cat2w", "cat3", "onehot3", "cat2"]
# zero-probability classes handed over as logits = -inf (torch's Categorical / log_softmax support
# them; a Bernoulli with an infinite logit is outside torch's own domain: its log_prob is NaN)
G_NINF = [["0", "-inf"], ["-inf", "0"], ["3/10", "-inf", "1"], ["-inf", "1/2", "-inf"], ["0", "0", "-inf"],
          ["-inf", "-2", "2"], ["-inf", "-inf", "7"], ["20", "-inf", "-20"]]


def _g_ninf(rng):
    if rng.random() < 0.5:
        return list(rng.choice(G_NINF))
    return _ninf_row(rng, _logits(rng, rng.choice([2, 3, 3, 4])))


# ---- operation SEQUENCES on one distribution object (fifth round).  The distributions derive the
# parametrisation they were not built with (and the SRSWOR log-partition) lazily and cache it in the
# object's __dict__; `expand` builds a NEW object from what it finds there.  A history is a list of
# operation names run on the object with the results dropped; the token "expand" derives a new object
# (the next pending leading axis of the case's `expand`, or an expand to the same shape when none is
# pending) and the remaining operations run on THAT object.  What is observed afterwards must be the
# distribution of the expanded parameters whatever the history was.
RELAXED_OPS = ["probs", "logits", "mean", "variance", "stddev", "entropy", "support", "shapes", "repr",
               "rsample", "rsample_n", "sample", "threshold", "threshold_st", "log_prob", "tlog_prob",
               "csample", "clog_prob", "clog_prob_other", "enumerate_support", "relax", "st"]
SRSWOR_OPS = ["log_partition", "mean", "variance", "stddev", "support", "shapes", "repr",
              "has_enumerate_support", "enumerate_support", "enumerate_support_noexpand", "sample",
              "sample_n", "log_prob", "log_prob_n", "total_count", "given_count"]


# which lazy attributes an operation reads, in order (for the Lean OBJECT model `RelaxedObj` /
# `SrsworObj`: what is in `__dict__` when `expand` runs).  By `C19_obj_*_history` what the object denotes
# does not depend on this, so an inaccuracy here cannot raise an alarm; it only decides which branch of
# the object model a case exercises.
RELAXED_READS = {"probs": ["probs"], "logits": ["logits"], "mean": ["logits"], "rsample": ["logits"],
                 "rsample_n": ["logits"], "sample": ["logits"], "log_prob": ["logits"], "tlog_prob": ["logits"],
                 "csample": ["probs"], "clog_prob": ["logits"], "clog_prob_other": ["logits"],
                 "relax": ["logits", "probs", "logits"], "st": ["logits"]}
SRSWOR_READS = {"log_partition": ["partition"], "log_prob": ["partition"], "log_prob_n": ["partition"]}


def _history(rng, ops, maxlen=4, tokens=2):
    h = [rng.choice(ops) for _ in range(rng.randint(0, maxlen))]
    for _ in range(rng.randint(0, tokens)):
        h.insert(rng.randint(0, len(h)), "expand")
    return h


def _bshape(*shapes):
    """numpy-style broadcast of shapes (lists)"""
    n = max(len(s) for s in shapes)
    out = []
    for i in range(n):
        dims = [s[len(s) - n + i] for s in shapes if len(s) - n + i >= 0]
        m = max(dims)
        if any(d not in (1, m) for d in dims):
            raise ValueError(f"shapes {shapes} do not broadcast")
        out.append(m)
    return out


def _bindex(src, dst, flat):
    """flat index into a tensor of shape `src` of the entry that entry `flat` of its broadcast to
    `dst` reads"""
    idx = []
    for d in reversed(dst):
        idx.append(flat % d)
        flat //= d
    idx.reverse()
    idx = idx[len(dst) - len(src):]
    k = 0
    for i, d in zip(idx, src):
        k = k * d + (i if d != 1 else 0)
    return k


def fam_short(x, n=160):
    t = str(x)
    return t if len(t) <= n else t[:n] + "..."


def model_probs(check, case):
    """self.probs of the Gumbel distribution of a case (raw, as the dtype holds them)"""
    return [fs(x) for x in check._gumbel_dist(case).probs.tolist()]


class C19(PropertyCheck):
    pid = "C19"
    rule = ("estimator cases: every family (1-3 independent Bernoulli, 2/3-way (one-hot) categorical, two "
            "categoricals; probs and logits parametrisations, dyadic probabilities) x N in {1,2} x with/without "
            "control variate, plus a near-boundary pass (probabilities 2^-24, 1-2^-24, 2^-12; logits +-17, +-20) "
            "over every family and parametrisation; each case enumerates the whole of Omega^N. relaxed cases: "
            "LogisticBernoulli probs in {0, 2^-60, 2^-53, 2^-24, .., 1-2^-24, 1-2^-53, 1} and logits up to "
            "+-100 x draws u, v from a grid that contains 0 and 1 x float64/float32 x validate_args; "
            "GumbelOneHotCategorical with probs and logits, one-hot / near-one-hot / unnormalised probs and "
            "logits spread by 20..100, every conditioning class, draws next to 0 and 1, both dtypes; "
            "zero-probability classes handed over as logits = -inf (categorical relaxation, every conditioning "
            "class; categorical estimator families with the support as sample space; IS with a dominated "
            "density; IMH); both relaxed distributions as TENSORS (parameter shapes (), (K,), (N,K) / "
            "(V,), (B,V), (B1,B2,V), probs= and logits= constructions, expand, sample shapes), every entry / "
            "row against the one-variable model and against a python oracle of what probs / logits denote; "
            "csample(b, v) against rsample at the uniform point of the region of b; "
            "Relax/ST estimators at p = k/16 for every k in 0..16, both constructions, parameter tensors "
            "of shape () .. (2,2), hand-written and REBAR control variates of the relaxed sample, and "
            "(combination logic) at boundary parameters, Bernoulli and categorical. operation SEQUENCES on one "
            "distribution object (both relaxed distributions, SRSWOR): every lazy property / method / one estimator "
            "call, each also immediately before an expand, random histories of up to 6 operations, expands in "
            "several steps and to the same shape, operations continuing on the derived object; the object at the "
            "end against the Lean object model, a python oracle and a fresh construction of the expanded "
            "parameter; Relax/ST grids on a used-then-expanded proposal; SRSWOR with batched counts (equal or "
            "not over the batch, broadcast, out_size default/max/beyond). estimator OBJECTS with a life: every "
            "estimator constructed with OTHER values of its documented public attributes (each attribute alone, pairs, "
            "triples, all; control variate dropped / added), called 0-2 times, the attributes assigned, one object per "
            "tuple or one for the whole sample space - against the model and exact mean for the values in force, a "
            "freshly constructed estimator, the Lean object model on the same history (IS, IMH), and the shape of the "
            "draws asked for; self_normalize=True against a python oracle; the tensor a relaxed / SRSWOR distribution "
            "was constructed from edited in place after operations that cache derived attributes (fresh twins of the "
            "old and of the new values). "
            "SRSWOR: all (total, given) <= 6, every forced/free "
            "outcome pattern, genuine seeds up to total = 64 (257 thorough). "
            "binomial: every (n, k) with n <= 66 in both branches. non-trivial: sample space of >= 4 points "
            "(estimators), >= 1 free draw (SRSWOR), n >= 2 (combinatorics); distinct by the case")
    assumptions = [
        "autograd returns the derivative; torch.exp/log/sigmoid/softmax/binary_cross_entropy_with_logits at "
        "their documented meaning; float64 rounding not modelled (tolerance 1e-9; a float32 implementation "
        "is compared with the binary64 model at the same float32 inputs to 1e-4)",
        "proposal.sample / torch.rand / torch.rand_like / torch.bernoulli replaced by enumerating stubs; "
        "torch.bernoulli(p) can return only 1 when p = 1 and only 0 when p = 0",
        "probabilities handed to the Lean model are torch's own float64 values as exact rationals; "
        "self.logits / self.probs of the relaxed distributions (probs_to_logits, log_softmax) are taken from "
        "torch, the clamp_probs inside rsample / csample is part of the model",
        "estimator families never carry a probability of exactly 0 through `probs=` (the theorems assume "
        "P(b) != 0; torch's clamp_probs cuts the gradient of log P there); a class of logit -inf is outside "
        "the sample space (never drawn, P = P' = 0) and the sample space handed to the model is the support",
        "estimator objects: only documented public attributes are assigned, to values the constructor would accept "
        "(the constructor's argument checks are not repeated by an assignment); a distribution's constructor tensor "
        "edited in place must leave ONE distribution (the new or the old values) - torch's lazy_property convention "
        "(a cached derived attribute is stale) is recognised and NOT judged (outside C19's quantifier; "
        "observation in design_notes/C19.md)",
        "a Bernoulli / LogisticBernoulli logit is finite (torch's own Bernoulli.log_prob is NaN at an "
        "infinite logit; arg_constraints say `real`); a categorical logit may be -inf",
        "where a class has logit -inf the relaxed distribution has no density (z_k = -inf almost surely): the "
        "factorisation clause is evaluated in the extended reals at zcond only, log_prob / clog_prob at z "
        "are compared with the model (both NaN) but not judged",
    ]
    exhaustive = {"quick": False, "thorough": False}
    quick_budget_s = 200
    thorough_budget_s = 1500

    # ================================================================ generators
    def cases(self, rng, tier):
        big = tier != "quick"
        # ---- combinatorics: exhaustive
        for L in ([0, 1, 5, 20, 21, 40, 66] if not big else list(range(0, 67))):
            qs = [[n, k] for n in range(L + 1) for k in range(0, L + 2)]
            if [L, 0] not in qs:
                qs.append([L, 0])
            # make sure the batch maximum is L
            yield {"kind": "binom", "L": L, "queries": qs}
        for length, V in itertools.product(range(0, 5 if not big else 7), range(1, 4 if not big else 5)):
            if V ** length <= 4096:
                yield {"kind": "enum_vocab", "length": length, "V": V}
        for length in range(0, 7 if not big else 10):
            for count in range(0, length + 2):
                yield {"kind": "enum_card", "length": length, "count": count}
        for lmax in range(1, 5 if not big else 7):
            qs = [[n, k] for n in range(0, lmax + 1) for k in range(0, n + 1)]
            if not any(q[0] == lmax for q in qs):
                qs.append([lmax, 0])
            yield {"kind": "enum_card_tensor", "lmax": lmax, "queries": qs}
        # ---- SRSWOR: all (total, given) <= 6, every pattern of the free draws
        tmax = 6
        for total in range(0, tmax + 1):
            for given in range(0, total + 1):
                for extra in (0, 2):
                    if total + extra == 0:
                        continue          # zero-length vectors: separate malformed/edge stream below
                    for bits in itertools.product([0, 1], repeat=max(total - 1, 0)):
                        yield {"kind": "srswor", "via": "function", "out_size": total + extra,
                               "elems": [{"total": total, "given": given, "bits": list(bits)}]}
        for _ in range(40 if not big else 400):
            B = rng.randint(2, 4)
            elems = []
            for _ in range(B):
                t = rng.randint(0, tmax)
                elems.append({"total": t, "given": rng.randint(0, t),
                              "bits": [rng.randint(0, 1) for _ in range(t)]})
            mt = max(e["total"] for e in elems)
            if mt == 0:
                continue
            yield {"kind": "srswor", "via": rng.choice(["function", "distribution"]),
                   "out_size": rng.choice([None, mt, mt + 1]), "elems": elems}
        # round h: HOW the counts and the sizes are handed over.  Every (total, given) <= 3 (5 when big) x
        # out_size omitted / None / equal / larger (by 1, by 3) x the counts as 0-dim tensors, python ints
        # (distribution), one-element and two-element vectors, a 0-dim total broadcast against a vector of
        # givens x the function and the distribution with sample shape () / [1] / [2] / [3]
        nth = rng.randrange(4)
        for total in range(0, (3 if not big else 5) + 1):
            for given in range(0, total + 1):
                for osz in ("omitted", None, 0, 1, 3):
                    if total + (osz if isinstance(osz, int) else 0) == 0:
                        continue
                    for counts, B in (("0dim", 1), ("int", 1), ("1d", 1), ("1d", 2), ("bcast", 2)):
                        def elems():
                            out = [{"total": total, "given": given, "bits": [rng.randint(0, 1) for _ in range(total)]}]
                            if B == 2 and counts == "bcast":
                                out.append({"total": total, "given": rng.randint(0, total),
                                            "bits": [rng.randint(0, 1) for _ in range(total)]})
                            elif B == 2:
                                t2 = rng.randint(0, total)
                                out.append({"total": t2, "given": rng.randint(0, t2),
                                            "bits": [rng.randint(0, 1) for _ in range(t2)]})
                            return out
                        size = {"out_size": total + osz if isinstance(osz, int) else None,
                                **({"out_omitted": True} if osz == "omitted" else {})}
                        if counts != "int":
                            yield {"kind": "srswor", "via": "function", "counts": counts, "elems": elems(), **size}
                        nth += 1
                        yield {"kind": "srswor", "via": "distribution", "counts": counts, "elems": elems(),
                               "sample_n": (None, 1, None, 3, 2)[nth % 5], **size}
        for total in range(1, tmax + 1):
            for given in range(0, total + 1):
                yield {"kind": "srswor_dist", "total": total, "given": given,
                       "out_size": total + (given % 2), "seed": rng.randrange(1 << 30)}
        for total in ((12, 33, 64) if not big else (12, 20, 33, 64, 100, 257)):
            for given in sorted({0, 1, total // 2, total - 1, total}):
                yield {"kind": "srswor_dist", "total": total, "given": given, "out_size": total + (given % 2),
                       "seed": rng.randrange(1 << 30), "enumerate": False}
        # malformed: documented RuntimeError
        yield {"kind": "srswor", "via": "function", "out_size": 3,
               "elems": [{"total": 2, "given": 3, "bits": [0, 0]}]}
        yield {"kind": "srswor", "via": "function", "out_size": 1,
               "elems": [{"total": 3, "given": 1, "bits": [0, 0, 0]}]}
        # ---- relaxed distributions.  LogisticBernoulli: every parameter value (probs given directly incl.
        # exactly 0 and 1 and 2^-24 / 2^-53 next to them; logits up to +-100, i.e. beyond where sigmoid
        # rounds to 0/1 in either dtype; interior probs = sigmoid(.)) x every draw of the grid (incl. 0
        # and 1, which clamp_probs must absorb) x both dtypes.  rsample depends on u only and csample on
        # v only, so the quick tier pairs u_i with v_(i+shift) instead of the full product.
        bparams = ([("sigmoid", x) for x in LB_SIGMOID] + [("probs", x) for x in LB_PROBS]
                   + [("logits", x) for x in LB_LOGITS])
        for dtype in ("float64", "float32"):
            for par, val in bparams:
                if big:
                    pairs = [(u, v) for u in U_GRID for v in U_GRID]
                else:
                    sh = rng.randrange(len(U_GRID))
                    pairs = [(u, U_GRID[(i + sh) % len(U_GRID)]) for i, u in enumerate(U_GRID)]
                for u, v in pairs:
                    yield {"kind": "bern", "param": par, "value": fs(val), "dtype": dtype,
                           "u": fs(u), "v": fs(v), "validate": rng.random() < 0.5}
        # GumbelOneHotCategorical: random interior logits / simplex points, plus the boundary list
        # (one-hot and near-one-hot probs, unnormalised probs, logits spread by 20 / 88 / 100), every
        # conditioning class (also the zero-probability ones), both dtypes.  For two classes the
        # conditional draws run over the whole (reduced in quick) grid squared.
        for _ in range(150 if not big else 1500):
            V = rng.choice([2, 3])
            par = rng.choice(["logits", "probs"])
            th = _logits(rng, V) if par == "logits" else _simplex(rng, V)
            yield {"kind": "gumbel", "param": par, "theta": th, "dtype": rng.choice(["float64", "float32"]),
                   "us": [fs(rng.choice(G_GRID)) for _ in range(V)],
                   "vs": [fs(rng.choice(G_GRID)) for _ in range(V)], "k": rng.randrange(V),
                   "validate": rng.random() < 0.5}
        gq = G_GRID if big else G_GRID_Q
        for dtype in ("float64", "float32"):
            for par, th in G_EDGE:
                V = len(th)
                if V == 2:
                    vss = [list(t) for t in itertools.product(gq, repeat=2)]
                else:
                    vss = [[rng.choice(G_GRID) for _ in range(V)] for _ in range(40 if not big else 400)]
                for vs in vss:
                    for k in (range(V) if V == 2 else [rng.randrange(V)]):
                        yield {"kind": "gumbel", "param": par, "theta": [fs(x) for x in th], "dtype": dtype,
                               "us": [fs(rng.choice(G_GRID)) for _ in range(V)],
                               "vs": [fs(x) for x in vs], "k": k, "validate": rng.random() < 0.5}
        # zero-probability classes handed over through `logits=` (-inf entries; the `probs=` route is
        # in G_EDGE): every conditioning class, the impossible ones too, both dtypes
        for _ in range(36 if not big else 360):
            th = _g_ninf(rng)
            V = len(th)
            dtype = rng.choice(["float64", "float32"])
            for k in range(V):
                yield {"kind": "gumbel", "param": "logits", "theta": th, "dtype": dtype,
                       "us": [fs(rng.choice(G_GRID)) for _ in range(V)],
                       "vs": [fs(rng.choice(G_GRID)) for _ in range(V)], "k": k,
                       "validate": rng.random() < 0.5}
        # ---- the same distributions as TENSORS: parameter of shape (), (K,), (N, K) [Bernoulli] /
        # (V,), (B, V), (B1, B2, V) [categorical: the last axis is the class axis], constructed with
        # `probs=` or `logits=`, optionally `expand`ed, sampled with a sample shape; every entry / row
        # must behave as the one-variable distribution of ITS parameter (and `probs` / `logits` must
        # denote the same distribution whichever was given)
        def prod(l):
            n = 1
            for x in l:
                n *= x
            return n
        for i in range(48 if not big else 480):
            par = rng.choice(["probs", "logits"])
            shape = rng.choice([[], [3], [2], [2, 2], [3, 2], [1], [2, 1]])
            if par == "probs":
                pool = LB_PROBS + [Fr(k, 16) for k in range(1, 16)] * 2
            else:
                pool = LB_LOGITS + [Fr(k, 8) for k in range(-24, 25)]
            expand = rng.choice([None, None, [2], [2, 1]])
            sample = rng.choice([[], [], [2], [1, 2]])
            n = prod(shape) * prod(expand or []) * prod(sample)
            yield {"kind": "bern_nd", "param": par, "shape": shape,
                   "values": [fs(rng.choice(pool)) for _ in range(prod(shape))],
                   "expand": expand, "sample": sample, "dtype": rng.choice(["float64", "float64", "float32"]),
                   "us": [fs(rng.choice(U_GRID)) for _ in range(n)],
                   "vs": [fs(rng.choice(U_GRID)) for _ in range(n)], "validate": rng.random() < 0.5,
                   "history": _history(rng, RELAXED_OPS)}
        for i in range(48 if not big else 480):
            par = rng.choice(["probs", "logits"])
            V = rng.choice([2, 3, 3, 4])
            batch = rng.choice([[], [2], [3], [2, 2], [1], [2, 1]])
            rows = []
            for _ in range(prod(batch)):
                r = rng.random()
                edge = [th for pr, th in G_EDGE if pr == par and len(th) == V]
                if r < 0.2 and edge:
                    rows.append([fs(x) for x in rng.choice(edge)])
                elif r < 0.45 and par == "logits":
                    rows.append(_ninf_row(rng, _logits(rng, V)))
                else:
                    rows.append(_logits(rng, V) if par == "logits" else _simplex(rng, V))
            expand = rng.choice([None, None, [2], [2, 1]])
            sample = rng.choice([[], [], [2], [1, 2]])
            n = prod(batch) * prod(expand or []) * prod(sample)
            yield {"kind": "gumbel_nd", "param": par, "shape": batch + [V],
                   "values": [x for r in rows for x in r], "expand": expand, "sample": sample,
                   "dtype": rng.choice(["float64", "float64", "float32"]),
                   "us": [[fs(rng.choice(G_GRID)) for _ in range(V)] for _ in range(n)],
                   "vs": [[fs(rng.choice(G_GRID)) for _ in range(V)] for _ in range(n)],
                   "ks": [rng.randrange(V) for _ in range(n)], "validate": rng.random() < 0.5,
                   "history": _history(rng, RELAXED_OPS)}
        # ---- operation sequences on ONE object, then a derived object (fifth round): every operation
        # (each lazy property, each method, one estimator call) x both constructions immediately before
        # `expand`, followed by further random operations / expands; the derived object is observed
        # entry by entry like every other tensor case and against a freshly constructed distribution
        # of the expanded parameters
        for op in RELAXED_OPS:
            for par in ("probs", "logits"):
                shape = rng.choice([[], [2], [3], [2, 2], [1]])
                pool = ([Fr(k, 16) for k in range(1, 16)] + LB_PROBS[3:7] if par == "probs"
                        else [Fr(k, 8) for k in range(-24, 25)] + LB_LOGITS[3:7])
                expand = rng.choice([[2], [2], [3], [2, 1], [1, 2]])
                sample = rng.choice([[], [], [2]])
                n = prod(shape) * prod(expand) * prod(sample)
                yield {"kind": "bern_nd", "param": par, "shape": shape,
                       "values": [fs(rng.choice(pool)) for _ in range(prod(shape))],
                       "expand": expand, "sample": sample, "dtype": rng.choice(["float64", "float64", "float32"]),
                       "us": [fs(rng.choice(U_GRID)) for _ in range(n)],
                       "vs": [fs(rng.choice(U_GRID)) for _ in range(n)], "validate": rng.random() < 0.5,
                       "history": [op, "expand"] + _history(rng, RELAXED_OPS, 2, 1)}
                V = rng.choice([2, 3])
                batch = rng.choice([[], [2], [2, 2], [1]])
                rows = [(_ninf_row(rng, _logits(rng, V)) if par == "logits" and rng.random() < 0.25 else
                         _logits(rng, V) if par == "logits" else _simplex(rng, V)) for _ in range(prod(batch))]
                n = prod(batch) * prod(expand) * prod(sample)
                yield {"kind": "gumbel_nd", "param": par, "shape": batch + [V],
                       "values": [x for r in rows for x in r], "expand": expand, "sample": sample,
                       "dtype": rng.choice(["float64", "float64", "float32"]),
                       "us": [[fs(rng.choice(G_GRID)) for _ in range(V)] for _ in range(n)],
                       "vs": [[fs(rng.choice(G_GRID)) for _ in range(V)] for _ in range(n)],
                       "ks": [rng.randrange(V) for _ in range(n)], "validate": rng.random() < 0.5,
                       "history": [op, "expand"] + _history(rng, RELAXED_OPS, 2, 1)}
        # the SRSWOR distribution the same way: batched counts (total / given constant or not over the
        # batch, the two broadcast against each other), out_size default / max / beyond, every
        # operation immediately before an expand (leading axes and size-1 axes), random sequences
        def srswor_seq(hist):
            tshape, gshape = rng.choice([([], []), ([3], [3]), ([3], []), ([], [2]), ([2, 2], [2, 2]),
                                         ([2, 1], [2]), ([2], [2, 1]), ([1], [1]), ([2], [2])])
            bsh = _bshape(tshape, gshape)
            while True:
                t0 = rng.randint(0, 5)
                same_t = rng.random() < 0.55
                tot = [t0 if same_t else rng.randint(0, 5) for _ in range(prod(tshape))]
                if max(tot) >= 1:
                    break
            # given <= total of every element it meets
            cap = [min(tot[_bindex(tshape, bsh, i)] for i in range(prod(bsh))
                       if _bindex(gshape, bsh, i) == j) for j in range(prod(gshape))]
            g0 = rng.randint(0, min(cap))
            same_g = rng.random() < 0.4
            giv = [g0 if same_g else rng.randint(0, c) for c in cap]
            mt = max(tot)
            # successive targets of `expand`: size-1 axes of the batch shape made larger, then new
            # leading axes (a history token applies the next one; what is left is applied at the end)
            lead = rng.choice([[], [2], [2], [3], [2, 1]])
            grown = [(rng.choice([2, 3]) if d == 1 and rng.random() < 0.7 else d) for d in bsh]
            exps = ([grown] if grown != bsh else []) + ([lead + grown] if lead else [])
            return {"kind": "srswor_seq", "tshape": tshape, "gshape": gshape, "total": tot, "given": giv,
                    "out_size": rng.choice([None, mt, mt + 1]), "validate": rng.random() < 0.5,
                    "history": hist, "expands": exps if rng.random() < 0.85 else [],
                    "seed": rng.randrange(1 << 30), "f": _table(rng, 1 << (mt + 1))}
        for op in SRSWOR_OPS:
            yield srswor_seq([op, "expand"] + _history(rng, SRSWOR_OPS, 2, 1))
        for _ in range(24 if not big else 240):
            yield srswor_seq(_history(rng, SRSWOR_OPS))
        # ---- estimators: whole sample space
        reps = 2 if not big else 12
        for _ in range(reps):
            for which in ALL_FAMS:
                for N in (1, 2):
                    sp = _family(rng, which)
                    M = fam.n_points(sp)
                    for cvmode in ("none", "cv", "cv_detached"):
                        yield {"kind": "direct", "dist": sp, "N": N, "f": _table(rng, M),
                               "c": None if cvmode == "none" else _table(rng, M),
                               "cv_mean_detached": cvmode == "cv_detached"}
                    sq = _family(rng, which)
                    # same family shape for the density: redraw theta of the same structure
                    while fam.n_points(sq) != M or sq["fam"] != sp["fam"]:
                        sq = _family(rng, which)
                    yield {"kind": "is", "proposal": sp, "density": sq, "N": N, "f": _table(rng, M)}
                    yield {"kind": "is", "proposal": sp, "density": "same", "N": N, "f": _table(rng, M)}
                if which in ("bern1", "cat2w", "cat3", "onehot3"):
                    sp = _family(rng, which)
                    yield {"kind": "enumerate", "dist": sp, "f": _table(rng, fam.n_points(sp))}
        # the same with near-boundary parameters (2^-24, 1 - 2^-24, 2^-12; logits +-17, +-20): every
        # family x both parametrisations, N = 1 (and N = 2 in the larger tiers)
        for _ in range(1 if not big else 4):
            for which in ALL_FAMS:
                for par in ("probs", "logits"):
                    for N in ((1,) if not big else (1, 2)):
                        sp = _family(rng, which, edge=True, par=par)
                        M = fam.n_points(sp)
                        cvmode = rng.choice(["none", "cv", "cv_detached"])
                        yield {"kind": "direct", "dist": sp, "N": N, "f": _table(rng, M),
                               "c": None if cvmode == "none" else _table(rng, M),
                               "cv_mean_detached": cvmode == "cv_detached"}
                        sq = _family(rng, which, edge=rng.random() < 0.5, par=rng.choice(["probs", "logits"]))
                        while fam.n_points(sq) != M or sq["fam"] != sp["fam"]:
                            sq = _family(rng, which, edge=rng.random() < 0.5)
                        # N = 1 only: with a proposal probability of ~1e-9 per variable the weights P/Q
                        # reach 1e20 and the SUM over two samples cancels catastrophically in float64
                        yield {"kind": "is", "proposal": sp, "density": rng.choice([sq, "same"]), "N": 1,
                               "f": _table(rng, M)}
                    if which in ("bern1", "cat2w", "cat3", "onehot3"):
                        sp = _family(rng, which, edge=True, par=par)
                        yield {"kind": "enumerate", "dist": sp, "f": _table(rng, fam.n_points(sp))}
        # zero-probability classes given through `logits=` (-inf): the sample space is the support (an
        # impossible class is never drawn and contributes nothing to the expectation or its gradient);
        # every categorical family, N in {1, 2}; IS with a density that the proposal dominates
        for _ in range(1 if not big else 6):
            for which in CAT_FAMS:
                for N in (1, 2):
                    sp = _family(rng, which, ninf=True)
                    M = fam.n_points(sp)
                    for cvmode in ("none", rng.choice(["cv", "cv_detached"])):
                        yield {"kind": "direct", "dist": sp, "N": N, "f": _table(rng, M),
                               "c": None if cvmode == "none" else _table(rng, M),
                               "cv_mean_detached": cvmode == "cv_detached"}
                    yield {"kind": "is", "proposal": sp, "density": _family(rng, which, ninf=True, like=sp),
                           "N": N, "f": _table(rng, M)}
                    yield {"kind": "is", "proposal": sp, "density": "same", "N": N, "f": _table(rng, M)}
                if which != "cat2":
                    sp = _family(rng, which, ninf=True)
                    yield {"kind": "enumerate", "dist": sp, "f": _table(rng, fam.n_points(sp))}
        for total in range(1, 5):
            for given in range(0, total + 1):
                yield {"kind": "enumerate_srswor", "total": total, "given": given,
                       "out_size": total + (given % 2),
                       "f": _table(rng, 2 ** (total + (given % 2)))}
        # ---- IMH: proposal = density, drawn or supplied start; plus general densities
        us = [Fr(0), Fr(1, 1 << 30), Fr(1, 8), Fr(1, 2), Fr(7, 8), 1 - Fr(1, 1 << 24)]
        for _ in range(60 if not big else 600):
            which = rng.choice(["bern1", "bern2", "cat3", "onehot3"])
            ninf = which in ("cat3", "onehot3") and rng.random() < 0.3
            sp = _family(rng, which, ninf=True) if ninf else _family(rng, which, edge=rng.random() < 0.25)
            M = fam.n_points(sp)
            N = rng.randint(1, 5)
            same = ninf or rng.random() < 0.6
            dens = "same"
            if not same:
                dens = _family(rng, which)
                while fam.n_points(dens) != M or dens["fam"] != sp["fam"]:
                    dens = _family(rng, which)
            # an impossible class is never proposed
            sup = [j for j, x in enumerate(sp["theta"]) if not fam.is_ninf(x)] if ninf else list(range(M))
            yield {"kind": "imh", "proposal": sp, "density": dens, "N": N, "burn_in": rng.randrange(N),
                   "init": rng.choice([None, rng.choice(sup)]),
                   "draws": [rng.choice(sup) for _ in range(N + 1)],
                   "us": [fs(rng.choice(us)) for _ in range(N)], "f": _table(rng, M)}
        # ---- IMH with a density that VANISHES on part of the proposal's support (what find_initial_sample is
        # for): proposals outside the density's support have log-ratio -inf; they are rejected, and the chain
        # must go on from the state it is in (audit: the earlier stream never proposed such a point)
        for i in range(40 if not big else 400):
            M = rng.choice([3, 3, 4])
            q = [Fr(1, M)] * M if rng.random() < 0.5 else None
            while q is None or sum(q) != 1:
                q = [Fr(rng.randint(1, 5), 8) for _ in range(M)]
                q[-1] = 1 - sum(q[:-1])
                if q[-1] <= 0:
                    q = None
            nsup = rng.randint(1, M - 1) if i % 8 else M          # every 8th: full support (both variants agree)
            sup = sorted(rng.sample(range(M), nsup))
            p = [fs(Fr(rng.randint(1, 8), 8)) if j in sup else None for j in range(M)]
            N = rng.randint(2, 6)
            draws = [rng.randrange(M) for _ in range(N)]
            if i % 3 == 0 and nsup < M:      # an impossible proposal early, possible ones after it
                draws[0] = rng.choice([j for j in range(M) if j not in sup])
            yield {"kind": "imh_support", "q": [fs(x) for x in q], "p": p, "N": N, "burn_in": rng.randrange(N),
                   "init": rng.choice(sup), "draws": draws, "us": [fs(rng.choice(us)) for _ in range(N)],
                   "f": _table(rng, M)}
        # ---- relaxation-based estimators; p = k/16 for EVERY k in 0..16 (p = 0 and p = 1 included: the
        # estimate must then be f(0) resp. f(1) exactly)
        ks_all = list(range(0, 17))
        for i in range(6 if not big else 40):
            k = rng.choice([0, 16]) if i < 2 else rng.randint(0, 16)
            yield {"kind": "st_value", "ks": [k] if rng.random() < 0.5 else [k, rng.choice(ks_all)],
                   "f": _table(rng, 4)}
            yield {"kind": "relax_value", "k": k, "f": _table(rng, 2),
                   "cv": [fs(_dy(rng, -2, 2, 4)), fs(_dy(rng, -2, 2, 4)), fs(_dy(rng, 1, 3, 4))]}
        for k in (0, 16):
            yield {"kind": "st_value", "ks": [k], "f": _table(rng, 4)}
            yield {"kind": "relax_value", "k": k, "f": _table(rng, 2),
                   "cv": [fs(_dy(rng, -2, 2, 4)), fs(_dy(rng, -2, 2, 4)), fs(_dy(rng, 1, 3, 4))]}
        # the same clause for BOTH constructions (`logits = log(k / (16 - k))`: the conditional sample is
        # then drawn with the lazily derived `probs`), parameter tensors of shape (), (K,), (N, K) with a
        # different p = k/16, integrand and control variate per entry, and the library's own REBAR control
        # variate next to a hand-written one; both depend on the RELAXED sample, so the grid mean is E f
        # only if csample(b, .) has the law of the relaxed sample restricted to the region of b
        for i in range(4 if not big else 30):
            yield {"kind": "st_value", "param": "logits", "ks": [rng.randint(1, 15) for _ in range(rng.choice([1, 2]))],
                   "f": _table(rng, 4)}
        for i in range(16 if not big else 120):
            par = "logits" if i % 2 == 0 else "probs"
            shape = rng.choice([[], [1], [2], [3], [2, 2]])
            n = prod(shape)
            kpool = list(range(1, 16)) if par == "logits" else list(range(0, 17))
            if n > 2:
                kpool = [k for k in kpool if k % 4 == 0]      # keeps the common refinement of the grids small
            yield {"kind": "relax_value", "param": par, "shape": shape,
                   "ks": [rng.choice(kpool) for _ in range(n)], "f": [_table(rng, 2) for _ in range(n)],
                   "cvkind": rng.choice(["smooth", "rebar"]),
                   "cv": [fs(_dy(rng, -2, 2, 4)), fs(_dy(rng, -2, 2, 4)), fs(rng.choice([Fr(1, 2), Fr(1), Fr(2)]))]}
        # the estimators on a DERIVED proposal: an object that has been used (an estimator call, a
        # conditional sample, any lazy property read, ...) is expanded and handed to a new estimator; the
        # grid mean must be E f for every entry of the expanded proposal
        for i in range(12 if not big else 96):
            par = "logits" if i % 2 == 0 else "probs"
            shape = rng.choice([[], [1], [2]])
            n = prod(shape)
            hist = ([rng.choice(["relax", "st", "csample", "probs", "logits", "rsample"])] if i % 3 else []) \
                + _history(rng, RELAXED_OPS, 3, 1)
            expand = rng.choice([[2], [2], [1], [3], [2, 1]])
            if i % 4 == 3:
                yield {"kind": "st_value", "param": par, "ks": [rng.randint(1, 15) for _ in range(rng.choice([1, 2]))],
                       "f": _table(rng, 4), "history": hist, "expand": expand}
                continue
            yield {"kind": "relax_value", "param": par, "shape": shape,
                   "ks": [rng.choice([4, 8, 12]) for _ in range(n)], "f": [_table(rng, 2) for _ in range(n)],
                   "cvkind": rng.choice(["smooth", "rebar"]), "history": hist, "expand": expand,
                   "cv": [fs(_dy(rng, -2, 2, 4)), fs(_dy(rng, -2, 2, 4)), fs(rng.choice([Fr(1, 2), Fr(1), Fr(2)]))]}
        cdraw = [Fr(0), Fr(1, 1 << 40), 1 - Fr(1, 1 << 53), Fr(1)]
        for i in range(40 if not big else 400):
            N = rng.choice([1, 2, 3])
            if i % 4 == 0:       # boundary parameter: probs in {0, 1, 2^-24, 1-2^-24} or saturated logits
                par = rng.choice(["probs", "logits"])
                val = rng.choice([Fr(0), Fr(1), _T24, 1 - _T24] if par == "probs"
                                 else [Fr(x) for x in (-88, -37, -20, 20, 37, 88)])
            else:
                par, val = "logits", _dy(rng, -2, 2, 8)

            def draw():
                return rng.choice(cdraw) if rng.random() < 0.15 else Fr(rng.randint(1, 63), 64)
            yield {"kind": "relax_comb", "param": par, "value": fs(val), "N": N,
                   "us": [fs(draw()) for _ in range(N)],
                   "vs": [fs(draw()) for _ in range(N)], "f": _table(rng, 2),
                   "cv": [fs(_dy(rng, -2, 2, 4)), fs(_dy(rng, -2, 2, 4)), fs(_dy(rng, 1, 3, 4))]}
            # the same through the categorical relaxation (gradient along one parameter coordinate)
            if i % 2 == 0:
                if i % 8 == 0:
                    gpar, gth = rng.choice(G_EDGE)
                    gth = [fs(x) for x in gth]
                elif i % 8 == 4:      # impossible classes through logits = -inf
                    gpar, gth = "logits", _g_ninf(rng)
                else:
                    V = rng.choice([2, 3])
                    gpar = rng.choice(["logits", "probs"])
                    gth = _logits(rng, V) if gpar == "logits" else _simplex(rng, V)
                V = len(gth)
                yield {"kind": "relax_comb", "dist": "gumbel", "param": gpar, "theta": gth, "N": N,
                       "coord": rng.randrange(V),
                       "us": [[fs(draw()) for _ in range(V)] for _ in range(N)],
                       "vs": [[fs(draw()) for _ in range(V)] for _ in range(N)], "f": _table(rng, V),
                       "cvkind": rng.choice(["smooth", "smooth", "rebar"]),
                       "cv": [fs(_dy(rng, -2, 2, 4)), fs(_dy(rng, -2, 2, 4)), fs(_dy(rng, 1, 3, 4))]}
        # ---- callbacks as the user may WRITE them (fourth round).  An integrand / control variate is its
        # table of values, but as torch code it also decides which tensor carries them: a fresh one, the
        # argument itself (f(b) = b), a view of the argument (select, narrow, squeeze, transpose, expand, a
        # no-op cast / contiguous / reshape, as_strided, detach) or a copy modified in place.  Every
        # estimator is run with every kind, next to the SAME function returning a fresh tensor (bit-equal
        # results required) and against the model / exact expectation of the function's table.  "The
        # argument itself" needs samples without an event axis: Bernoulli families are also run in BATCH
        # layout (plain Bernoulli(theta), batch shape (n,): the estimate is a vector of n independent
        # one-variable estimates, each compared with the model of its variable) - with spellings and with
        # ordinary tables.
        sq = alias.Spellings(rng)
        FLOAT_FAMS = ["bern1", "bern2", "bern3", "onehot3", "onehot2"]

        def spelled(sp, layout, copies=True):
            if layout == "batch":
                return sq.next(None, copies=copies)
            n = fam.n_coords(sp)
            return sq.next(rng.randrange(n), n, copies=copies)

        def btables(sp):
            return [_table(rng, 2) for _ in sp["theta"]]

        def same_shape(which, sp):
            sd = _family(rng, which)
            while fam.n_points(sd) != fam.n_points(sp) or sd["fam"] != sp["fam"]:
                sd = _family(rng, which)
            return sd
        for _ in range(2 if not big else 8):
            for which in FLOAT_FAMS:
                for layout in (("event", "batch") if which.startswith("bern") else ("event",)):
                    for N in (1, 2):
                        sp = _family(rng, which, edge=rng.random() < 0.15)
                        cvmode = rng.choice(["none", "cv", "cv_detached"])
                        case = {"kind": "direct", "dist": sp, "layout": layout, "N": N, "fp": spelled(sp, layout),
                                "f": None, "c": None, "cv_mean_detached": cvmode == "cv_detached",
                                "sample_owned": rng.random() < 0.5}
                        if cvmode != "none":
                            if rng.random() < 0.6:
                                case["cp"] = spelled(sp, layout)
                            else:
                                case["c"] = btables(sp) if layout == "batch" else _table(rng, fam.n_points(sp))
                        elif rng.random() < 0.4:
                            # the option is_log=True (func = log f): values against a python oracle, and the
                            # same spelling-independence
                            case["is_log"] = True
                        yield case
                        sp = _family(rng, which)
                        yield {"kind": "is", "proposal": sp, "layout": layout, "N": N, "fp": spelled(sp, layout),
                               "density": rng.choice(["same", same_shape(which, sp)]), "f": None,
                               "sample_owned": rng.random() < 0.5, "is_log": rng.random() < 0.25,
                               "self_normalize": rng.random() < 0.2}
                        if layout == "event" and N == 1:    # integrand = views of a table it keeps
                            sp = _family(rng, which)
                            M = fam.n_points(sp)
                            yield {"kind": "direct", "dist": sp, "N": 1, "f": _table(rng, M), "f_kept": True,
                                   "c": rng.choice([None, _table(rng, M)]), "cv_mean_detached": False}
                            yield {"kind": "is", "proposal": sp, "N": 1, "f": _table(rng, M), "f_kept": True,
                                   "density": rng.choice(["same", same_shape(which, sp)])}
                        if layout == "batch":       # the layout with ordinary tables
                            sp = _family(rng, which)
                            cvmode = rng.choice(["none", "cv", "cv_detached"])
                            yield {"kind": "direct", "dist": sp, "layout": layout, "N": N, "f": btables(sp),
                                   "c": None if cvmode == "none" else btables(sp),
                                   "cv_mean_detached": cvmode == "cv_detached"}
                            yield {"kind": "is", "proposal": sp, "layout": layout, "N": N, "f": btables(sp),
                                   "density": rng.choice(["same", same_shape(which, sp)])}
                sp = _family(rng, which)
                yield {"kind": "enumerate", "dist": sp, "f": None, "is_log": rng.random() < 0.3,
                       "fp": spelled(sp, "batch" if which.startswith("bern") else "event")}
                if which in ("bern2", "bern3"):
                    yield {"kind": "enumerate", "dist": sp, "f": btables(sp)}
        # IMH: mc_samples - burn_in in {1, 2, 3} (the recorded values f(b_t) of EARLIER kept states must
        # survive the later steps), drawn and supplied starting points (both documented shapes)
        for i in range(120 if not big else 900):
            which = rng.choice(FLOAT_FAMS)
            layout = rng.choice(["event", "batch"]) if which.startswith("bern") else "event"
            sp = _family(rng, which, edge=rng.random() < 0.15)
            M = fam.n_points(sp)
            kept = 1 + i % 3
            burn = rng.choice([0, 0, 1, 2])
            N = kept + burn
            case = {"kind": "imh", "proposal": sp, "layout": layout, "N": N, "burn_in": burn,
                    "density": "same" if rng.random() < 0.7 else same_shape(which, sp),
                    "init": rng.choice([None, rng.randrange(M)]), "init_lead": rng.random() < 0.5,
                    "draws": [rng.randrange(M) for _ in range(N + 1)], "f": None,
                    "sample_owned": rng.random() < 0.5, "is_log": rng.random() < 0.25}
            if layout == "batch":
                case["us"] = [[fs(rng.choice(us)) for _ in sp["theta"]] for _ in range(N)]
            else:
                case["us"] = [fs(rng.choice(us)) for _ in range(N)]
            if i % 6 == 5:
                case["f"] = btables(sp) if layout == "batch" else _table(rng, M)
                if layout == "event":       # the integrand returns views of a table it keeps
                    case["f_kept"] = True
            else:
                case["fp"] = spelled(sp, layout)
            yield case
        # relaxation-based estimators: integrand of the thresholded sample and control variate of the
        # relaxed sample in the same spellings (cv(z) = z, f(b) = b, ...)
        for i in range(8 if not big else 60):
            par = rng.choice(["probs", "logits"])
            yield {"kind": "st_value", "param": par, "f": _table(rng, 4), "fp": sq.next(None),
                   "ks": [rng.randint(1, 15) if par == "logits" else rng.randint(0, 16)
                          for _ in range(rng.choice([1, 2]))]}
        for i in range(12 if not big else 90):
            par = "logits" if i % 2 == 0 else "probs"
            shape = rng.choice([[], [1], [2], [3], [2, 2]])
            n = prod(shape)
            kpool = list(range(1, 16))
            if n > 2:
                kpool = [k for k in kpool if k % 4 == 0]
            case = {"kind": "relax_value", "param": par, "shape": shape, "ks": [rng.choice(kpool) for _ in range(n)],
                    "f": [_table(rng, 2) for _ in range(n)], "cvkind": rng.choice(["smooth", "rebar"]),
                    "cv": [fs(_dy(rng, -2, 2, 4)), fs(_dy(rng, -2, 2, 4)), fs(rng.choice([Fr(1, 2), Fr(1), Fr(2)]))]}
            r = i % 3
            if r != 1:
                case["fp"] = sq.next(None)
            if r != 0:
                case["cp"] = sq.next(None)
            yield case
        for i in range(36 if not big else 240):
            N = rng.choice([1, 2, 3])

            def draw2():
                return Fr(rng.randint(1, 63), 64)
            r = i % 3
            if i % 2 == 0:
                case = {"kind": "relax_comb", "param": rng.choice(["probs", "logits"]), "N": N,
                        "us": [fs(draw2()) for _ in range(N)], "vs": [fs(draw2()) for _ in range(N)],
                        "f": _table(rng, 2),
                        "cv": [fs(_dy(rng, -2, 2, 4)), fs(_dy(rng, -2, 2, 4)), fs(_dy(rng, 1, 3, 4))]}
                case["value"] = fs(Fr(rng.randint(1, 15), 16) if case["param"] == "probs" else _dy(rng, -2, 2, 8))
                coord = None
            else:
                V = rng.choice([2, 3])
                gpar = rng.choice(["logits", "probs"])
                case = {"kind": "relax_comb", "dist": "gumbel", "param": gpar,
                        "theta": _logits(rng, V) if gpar == "logits" else _simplex(rng, V), "N": N,
                        "coord": rng.randrange(V),
                        "us": [[fs(draw2()) for _ in range(V)] for _ in range(N)],
                        "vs": [[fs(draw2()) for _ in range(V)] for _ in range(N)], "f": _table(rng, V),
                        "cvkind": "smooth",
                        "cv": [fs(_dy(rng, -2, 2, 4)), fs(_dy(rng, -2, 2, 4)), fs(_dy(rng, 1, 3, 4))]}
                coord = rng.randrange(V)
            if r != 1:
                case["fp"] = sq.next(coord, None if coord is None else len(case["theta"]))
            if r != 0:
                case["cp"] = sq.next(None if coord is None else rng.randrange(len(case["theta"])),
                                     None if coord is None else len(case["theta"]))
            yield case
        # ---- parameters edited IN PLACE between uses of one distribution object (sixth round): the tensor a
        # distribution was constructed from is modified (an optimiser step), after 0-3 operations that may have
        # cached a lazily derived attribute (`probs` of a `logits=` object: csample, a RelaxEstimator call,
        # ...; `logits` of a `probs=` object: everything else; `log_partition` of the SRSWOR distribution:
        # log_prob), before or after an `expand`; the object must still be ONE distribution (see
        # `_pred_param_edit`)
        for i in range(36 if not big else 300):
            cls = ("lb", "gumbel", "lb")[i % 3]
            par = rng.choice(["probs", "logits"])
            pre = [rng.choice(RELAXED_OPS) for _ in range(rng.randint(0, 3))]
            if i % 2 == 0:      # an operation that caches the OTHER attribute
                pre.insert(rng.randint(0, len(pre)), rng.choice(["csample", "relax", "probs"] if par == "logits" else
                                                                 ["logits", "rsample", "log_prob", "tlog_prob", "st"]))
            if rng.random() < 0.3:
                pre.insert(rng.randint(0, len(pre)), "expand")
            post = [rng.choice(RELAXED_OPS + ["expand"]) for _ in range(rng.randint(0, 2))]
            nexp = (pre + post).count("expand")
            expand = [[], [2], [2, 3]][min(nexp, 2)] if nexp else rng.choice([None, [2]])
            sample = rng.choice([[], [], [2]])
            dtype = rng.choice(["float64", "float64", "float32"])
            if cls == "lb":
                shape = rng.choice([[], [2], [3], [2, 2], [1]])
                pool = ([Fr(k, 16) for k in range(1, 16)] if par == "probs" else [Fr(k, 8) for k in range(-24, 25)])
                n = prod(shape) * prod(expand or []) * prod(sample)
                yield {"kind": "param_edit", "cls": "lb", "param": par, "shape": shape, "dtype": dtype,
                       "values": [fs(rng.choice(pool)) for _ in range(prod(shape))],
                       "new_values": [fs(rng.choice(pool)) for _ in range(prod(shape))],
                       "history": pre + ["edit"] + post, "expand": expand, "sample": sample,
                       "us": [fs(rng.choice(U_GRID[2:-3])) for _ in range(n)],
                       "vs": [fs(rng.choice(U_GRID[2:-3])) for _ in range(n)]}
            else:
                V = rng.choice([2, 3])
                batch = rng.choice([[], [2], [2, 2], [1]])
                row = lambda: _logits(rng, V) if par == "logits" else _simplex(rng, V)
                n = prod(batch) * prod(expand or []) * prod(sample)
                yield {"kind": "param_edit", "cls": "gumbel", "param": par, "shape": batch + [V], "dtype": dtype,
                       "values": [x for _ in range(prod(batch)) for x in row()],
                       "new_values": [x for _ in range(prod(batch)) for x in row()],
                       "history": pre + ["edit"] + post, "expand": expand, "sample": sample,
                       "us": [[fs(rng.choice(G_GRID[3:8])) for _ in range(V)] for _ in range(n)],
                       "vs": [[fs(rng.choice(G_GRID[3:8])) for _ in range(V)] for _ in range(n)],
                       "ks": [rng.randrange(V) for _ in range(n)]}
        for i in range(12 if not big else 100):
            shape = rng.choice([[], [2], [3], [2, 2]])
            nb = prod(shape)
            tot = [rng.randint(1, 5) for _ in range(nb)]
            giv = [rng.randint(0, t) for t in tot]
            edit = rng.choice(["given", "given", "total"])
            case = {"kind": "param_edit", "cls": "srswor", "edit": edit, "shape": shape, "total": tot, "given": giv,
                    "out_size": max(tot) + rng.choice([0, 1]), "seed": rng.randrange(1 << 30)}
            if edit == "given":
                case["new_given"] = [rng.randint(0, t) for t in tot]
            else:
                case["new_total"] = [rng.randint(max(g, 1), max(tot)) for g in giv]
            pre = [rng.choice(SRSWOR_OPS) for _ in range(rng.randint(0, 2))]
            if i % 2 == 0:
                pre.insert(rng.randint(0, len(pre)), rng.choice(["log_prob", "log_partition"]))
            if rng.random() < 0.3:
                pre.insert(rng.randint(0, len(pre)), "expand")
            case["history"] = pre + ["edit"] + [rng.choice(SRSWOR_OPS + ["expand"]) for _ in range(rng.randint(0, 1))]
            yield case
        # ---- the estimator OBJECT's life cycle (sixth round).  Every stream above constructs an estimator
        # and calls it once.  Here the observed call is made on an object with a history: constructed with
        # OTHER values of some documented public attributes (`life.alt`; callbacks: affine images), called
        # 0-2 times, the attributes then assigned (`est.mc_samples = 2`, `est.density = ...`, ...), and - with
        # `reuse` - one object serving every tuple of the sample space (second, third, ... call).  Every
        # attribute of every estimator on its own, a pure second call, random pairs / triples, all at once.
        # The case is judged as before (model, exact mean over the sample space) for the attribute values in
        # force, and against a freshly constructed estimator (bit-equal); the shape of the draws the call
        # asks for is observed as well.
        LIFE_FAMS = ["bern1", "bern2", "cat3", "onehot3", "cat2w", "onehot2"]
        for _ in range(1 if not big else 6):
            for kind in ("direct", "is"):
                extra = [] if kind == "is" else [
                    # a control variate taken away from an object constructed with one / given to an object
                    # constructed without
                    {"set": ["cv"], "warm": 1, "reuse": True, "cv": "drop"},
                    {"set": ["cv", "cv_mean"], "warm": rng.choice([0, 1]), "reuse": False, "cv": "add"}]
                for lf in life_.skeletons(rng, kind) + extra:
                    which = rng.choice(LIFE_FAMS)
                    layout = "batch" if which.startswith("bern") and rng.random() < 0.4 else "event"
                    sp = _family(rng, which, edge=rng.random() < 0.1)
                    M = fam.n_points(sp)
                    N = rng.choice([1, 2])
                    tab = (lambda: btables(sp)) if layout == "batch" else (lambda: _table(rng, M))
                    lf = dict(lf, alt={"mc_samples": rng.choice([n for n in (1, 2, 3) if n != N]),
                                       "proposal": same_shape(which, sp), "density": same_shape(which, sp)})
                    if kind == "direct":
                        touches_cv = "cv" in lf["set"] or "cv_mean" in lf["set"]
                        cvmode = rng.choice(["cv", "cv", "none"] if touches_cv else ["none", "cv", "cv_detached"])
                        if lf.get("cv"):
                            cvmode = "none" if lf["cv"] == "drop" else "cv"
                        case = {"kind": "direct", "dist": sp, "layout": layout, "N": N, "f": tab(),
                                "c": None if cvmode == "none" else tab(),
                                "cv_mean_detached": cvmode == "cv_detached", "life": lf}
                        if cvmode == "none" and rng.random() < (0.5 if "is_log" in lf["set"] else 0.15):
                            case["is_log"] = True
                    else:
                        case = {"kind": "is", "proposal": sp, "layout": layout, "N": N, "f": tab(),
                                "density": rng.choice(["same", same_shape(which, sp)]), "life": lf}
                        if rng.random() < (0.5 if "is_log" in lf["set"] else 0.15):
                            case["is_log"] = True
                        if rng.random() < (0.5 if "self_normalize" in lf["set"] else 0.15):
                            case["self_normalize"] = True
                    if rng.random() < 0.3:
                        case["sample_owned"] = True
                    yield case
            nprop = 0
            for lf in life_.skeletons(rng, "enumerate"):
                which = rng.choice(["bern1", "bern2", "cat3", "onehot3", "cat2w"])
                smaller = rng.random() < 0.5
                if "proposal" in lf["set"]:
                    # the first two: three classes, constructed over a proposal with another support
                    nprop += 1
                    if nprop <= 2:
                        which, smaller = ("cat3", "onehot3")[nprop - 1], True
                sp = _family(rng, which)
                yield {"kind": "enumerate", "dist": sp, "is_log": rng.random() < (0.5 if "is_log" in lf["set"] else 0.15),
                       "f": btables(sp) if which.startswith("bern") else _table(rng, fam.n_points(sp)),
                       "life": dict(lf, alt={"proposal": same_shape(which, sp), "smaller": smaller})}
            def imh_lives():
                for lf in life_.skeletons(rng, "imh"):
                    yield lf, None
                # round h: the object is RE-POINTED - constructed over one distribution (handed its starting
                # point), then `proposal` / `density` (/ `initial_sample`) assigned, proposal == target at the
                # call: every proposal accepted, whatever was evaluated at construction.  Two normalised
                # distributions that differ have a point where the constructing one is the larger: EVERY
                # starting point of the sample space is handed once (not a lucky one)
                for n, st in enumerate((["density"], ["density", "proposal"], ["initial_sample", "density"],
                                        ["initial_sample"], ["initial_sample", "density", "proposal"])):
                    which = ["bern1", "cat3", "bern2", "onehot3"][(n + rng.randrange(4)) % 4]
                    for init in range(4 if which == "bern2" else 2 if which == "bern1" else 3):
                        yield ({"set": st, "warm": (n + init) % 3, "reuse": (n + init) % 2 == 1},
                               {"which": which, "init": init})
            for lf, pinned in imh_lives():
                which = pinned["which"] if pinned else rng.choice(["bern1", "bern2", "cat3", "onehot3"])
                layout = "batch" if which.startswith("bern") and rng.random() < 0.4 else "event"
                sp = _family(rng, which)
                M = fam.n_points(sp)
                kept, burn = rng.choice([1, 2, 3]), rng.choice([0, 0, 1, 2])
                dens_life = bool({"density", "proposal"} & set(lf["set"])) or bool(pinned)
                if dens_life:       # a chain long enough for a wrong log-ratio to change a decision
                    kept, burn = 3, rng.choice([0, 1])
                N = kept + burn
                draws = [rng.randrange(M) for _ in range(N + 1)]
                if dens_life:       # successive proposals differ
                    for j in range(1, N + 1):
                        while draws[j] == draws[j - 1]:
                            draws[j] = rng.randrange(M)
                case = {"kind": "imh", "proposal": sp, "layout": layout, "N": N, "burn_in": burn,
                        "density": "same" if rng.random() < 0.6 else same_shape(which, sp),
                        "init": rng.choice([None, rng.randrange(M)]), "init_lead": rng.random() < 0.5,
                        "draws": draws,
                        "f": btables(sp) if layout == "batch" else _table(rng, M),
                        "is_log": rng.random() < (0.5 if "is_log" in lf["set"] else 0.15),
                        "life": dict(lf, alt={"mc_samples": rng.choice([n for n in range(1, N + 3) if n != N]),
                                              "burn_in": rng.randrange(N), "proposal": same_shape(which, sp),
                                              "density": same_shape(which, sp),
                                              "initial_sample": rng.choice(["none", rng.randrange(M)])})}
                if pinned:
                    case.update(init=pinned["init"] % M, density="same", repointed=True)
                    if "initial_sample" in lf["set"]:   # constructed with ANOTHER handed starting point
                        case["life"]["alt"]["initial_sample"] = (pinned["init"] + 1 + rng.randrange(M - 1)) % M
                # (an object that goes on using the density / proposal it was constructed with decides
                # accept / reject with other log-ratios: uniforms next to 1 make every such decision visible)
                upool = us[-1:] if dens_life else us
                if layout == "batch":
                    case["us"] = [[fs(rng.choice(upool)) for _ in sp["theta"]] for _ in range(N)]
                else:
                    case["us"] = [fs(rng.choice(upool)) for _ in range(N)]
                yield case
            for lf in life_.skeletons(rng, "st"):
                par = rng.choice(["probs", "logits"])
                yield {"kind": "st_value", "param": par, "f": _table(rng, 4), "life": lf,
                       "ks": [rng.randint(1, 15) for _ in range(rng.choice([1, 2]))]}
            for lf in life_.skeletons(rng, "relax"):
                par = rng.choice(["probs", "logits"])
                shape = rng.choice([[], [1], [2]])
                n = prod(shape)
                cvkind = rng.choice(["smooth", "rebar"])
                if cvkind == "rebar" and rng.random() < 0.7:
                    lf = dict(lf, cv_coef=True)
                yield {"kind": "relax_value", "param": par, "shape": shape, "life": lf,
                       "ks": [rng.choice([4, 8, 12]) for _ in range(n)], "f": [_table(rng, 2) for _ in range(n)],
                       "cvkind": cvkind,
                       "cv": [fs(_dy(rng, -2, 2, 4)), fs(_dy(rng, -2, 2, 4)), fs(rng.choice([Fr(1, 2), Fr(1), Fr(2)]))]}
            for i, lf in enumerate(life_.skeletons(rng, "relax")):
                N = rng.choice([1, 2, 3])
                lf = dict(lf, alt={"mc_samples": rng.choice([n for n in (1, 2, 3, 4) if n != N])})
                cvc = [fs(_dy(rng, -2, 2, 4)), fs(_dy(rng, -2, 2, 4)), fs(_dy(rng, 1, 3, 4))]
                # the library's REBAR control variates on every second life, constructed with other
                # coefficients / integrand and edited in place before the observed call
                cvkind = "rebar" if i % 4 in (1, 2) else "smooth"
                if cvkind == "rebar":
                    lf = dict(lf, cv_coef=True)
                if i % 2 == 0:
                    par = rng.choice(["probs", "logits"])
                    yield {"kind": "relax_comb", "param": par, "N": N, "life": lf, "f": _table(rng, 2), "cv": cvc,
                           "cvkind": cvkind,
                           "value": fs(Fr(rng.randint(1, 15), 16) if par == "probs" else _dy(rng, -2, 2, 8)),
                           "us": [fs(Fr(rng.randint(1, 63), 64)) for _ in range(N)],
                           "vs": [fs(Fr(rng.randint(1, 63), 64)) for _ in range(N)]}
                else:
                    V = rng.choice([2, 3])
                    gpar = rng.choice(["logits", "probs"])
                    yield {"kind": "relax_comb", "dist": "gumbel", "param": gpar, "life": lf,
                           "theta": _logits(rng, V) if gpar == "logits" else _simplex(rng, V), "N": N,
                           "coord": rng.randrange(V), "f": _table(rng, V), "cv": cvc,
                           "cvkind": cvkind,
                           "us": [[fs(Fr(rng.randint(1, 63), 64)) for _ in range(V)] for _ in range(N)],
                           "vs": [[fs(Fr(rng.randint(1, 63), 64)) for _ in range(V)] for _ in range(N)]}
        # malformed constructions: the documented ValueError
        for cls in ("LogisticBernoulli", "GumbelOneHotCategorical"):
            for how in ("neither", "both", "scalar"):
                if not (cls == "LogisticBernoulli" and how == "scalar"):
                    yield {"kind": "relaxed_ctor", "cls": cls, "how": how}

    # ================================================================ implementation
    def run_impl(self, case):
        return getattr(self, "_impl_" + case["kind"])(case)

    def model_request(self, case):
        return getattr(self, "_req_" + case["kind"])(case)

    def compare(self, case, impl, model):
        if isinstance(impl, dict) and "error" in impl and case["kind"] not in ("srswor",):
            return [f"implementation raised {impl['error']}: {impl.get('message')}"]
        return getattr(self, "_cmp_" + case["kind"])(case, impl, model)

    def predicate(self, case, impl, model):
        if isinstance(impl, dict) and "error" in impl and case["kind"] not in ("srswor",):
            sig = None
            return [(f"{case['kind']}: implementation raised {impl['error']}: {impl.get('message')}", sig)]
        return getattr(self, "_pred_" + case["kind"])(case, impl, model)

    # ---------------------------------------------------------------- callbacks as the user writes them
    @staticmethod
    def _batch(case):
        """layout "batch": a Bernoulli family as a plain `Bernoulli(theta)` (batch shape (n,), no event
        axis): n one-variable problems side by side, the estimators return a vector"""
        return case.get("layout", "event") == "batch"

    def _tables(self, case, sp, key):
        """table of values of the callback `key` ("f": integrand, "c": control variate).  event layout: one
        value per point of the family; batch layout: per element [value at 0, value at 1].  With a spelling
        (`fp` / `cp`, see c19_alias) the table is what the spelling computes."""
        fn = case.get(key + "p")
        if fn is None:
            t = case.get(key)
            if t is not None and self._batch(case) and t and not isinstance(t[0], list):
                t = [t]
            return t
        if self._batch(case):
            return [[fs(alias.value(fn, 0)), fs(alias.value(fn, 1))] for _ in sp["theta"]]
        return [fs(alias.value(fn, fam.coord_value(sp, i, fn["coord"]))) for i in range(fam.n_points(sp))]

    def _callback(self, case, sp, key, twin=False, log=None):
        fn = case.get(key + "p")
        if fn is not None:
            if twin:
                fn = alias.twin(fn) or fn
            return alias.make(fn, None if twin else log)
        t = self._tables(case, sp, key)
        if t is None:
            return None
        if case.get(key + "_kept") and not twin and not self._batch(case):
            # a table function whose single-sample results are views of a table it keeps
            return fam.table_view_func(sp, t, self._kept)
        return fam.batch_table_func(t) if self._batch(case) else fam.table_func(sp, t)

    _kept = []

    def _kept_reset(self):
        self._kept = []

    def _kept_ok(self):
        import torch
        return all(torch.equal(a, b) for a, b in self._kept)

    @staticmethod
    def _lme(vals, logw=None):
        """log of the (weighted) mean of exp: the is_log=True reading of an average.  vals: exact values
        of log f; logw: log-weights (sum instead of mean)"""
        xs = [float(F(v)) + (0.0 if logw is None else w) for v, w in zip(vals, logw or vals)]
        m = max(xs)
        tot = sum(math.exp(x - m) for x in xs)
        return m + math.log(tot if logw is not None else tot / len(xs))

    @staticmethod
    def _lclose(a, b):
        return a not in SPECIALS and abs(float(F(a)) - b) <= 1e-9 * max(1.0, abs(b))

    @staticmethod
    def _pred_untouched(name, impl):
        """tensors that belong to somebody else (what proposal.sample handed out and keeps) are inputs;
        and the estimate has the batch shape of the proposal"""
        out = []
        sh = impl.get("shapes")
        if sh and sh["seen"] != [sh["want"]]:
            # the specific defect behind finding C19.direct.is_log_leading_axis: DirectEstimator(is_log=True)
            # adds `fb_lmax` (kept with keepdim=True) and returns (1,) + batch_shape
            known = name == "DirectEstimator(is_log=True)" and sh["seen"] == [[1] + sh["want"]]
            out.append((f"{name} returns an estimate of shape {sh['seen']}, the proposal's batch shape is "
                        f"{sh['want']}", SIG_LOGSHAPE if known else None))
        if not impl.get("samples_untouched", True):
            out.append((f"{name} wrote into a tensor that proposal.sample returned (the proposal keeps it)", None))
        if not impl.get("tables_untouched", True):
            out.append((f"{name} wrote into the tensor its integrand returned (a view of a table the integrand "
                        f"keeps): the table changed", None))
        return out

    @staticmethod
    def _has_twin(case):
        return any(alias.twin(case.get(k)) is not None for k in ("fp", "cp")) or bool(case.get("f_kept"))

    @staticmethod
    def _alias_obs(case, logs):
        """per callback: did every call of a view spelling return storage shared with its argument?"""
        return {k: (bool(logs[k]) and all(logs[k])) for k in logs if alias.is_view(case.get(k + "p"))}

    def _pred_twin(self, name, case, a, b):
        """value semantics of callbacks: the estimator's result must not depend on WHICH tensor carries
        the callback's values"""
        if b is None or a == b:
            return []
        sp = {k: case[k]["how"] for k in ("fp", "cp") if case.get(k)}
        return [(f"{name}: the result changes when a callback that returns (a view of) its argument / a copy "
                 f"modified in place is replaced by the same function returning a fresh tensor ({sp}): "
                 f"{fam_short(a)} vs fresh {fam_short(b)}", None)]

    # ---------------------------------------------------------------- estimators: common
    def _run_tuples(self, dist, params, pts, N, make_est, vec=False, owned=False, reuse=False):
        """call the estimator once per tuple of Omega^N with proposal.sample replaced.  vec: the result is
        a vector (batch layout): per tuple a list over its elements of [value, gradient].  owned: the
        proposal hands out a tensor it KEEPS (no copy); `self._untouched` says whether it was left alone.
        reuse: ONE estimator object (the first `make_est()`) serves every tuple.  `make_est` runs with the
        stub in place (a life's earlier calls draw from it); `self._asked`: the distinct sample shapes the
        observed calls asked the proposal for"""
        import torch
        out = []
        self._untouched = True
        want = [pts[0].numel()] if vec else []
        self._shapes = {"want": want, "seen": []}
        self._asked = []
        est = None
        for t in fam.tuples(len(pts), N):
            b = torch.stack([pts[i] for i in t])
            asked = []

            def sample(shape=(), _b=b):
                asked.append([int(x) for x in shape])
                return _b if owned else _b.clone()
            with fam.patched(dist, sample=sample):
                if est is None or not reuse:
                    est = make_est()
                    del asked[:]
                v = est()
            for a in asked:
                if a not in self._asked:
                    self._asked.append(a)
            if not torch.equal(b, torch.stack([pts[i] for i in t])):
                self._untouched = False
            if list(v.shape) not in self._shapes["seen"]:
                self._shapes["seen"].append(list(v.shape))
            if list(v.shape) == [1] + want:
                v = v.squeeze(0)        # an extra leading axis: go on with the values, the predicate reports it

            def one(x):
                gs = torch.autograd.grad(x, params, allow_unused=True, retain_graph=True)
                flat = []
                for g, p in zip(gs, params):
                    flat += [0.0] * p.numel() if g is None else g.reshape(-1).tolist()
                return [fs(x.item()), [fs(y) for y in flat]]
            if list(v.shape) != want:
                raise ValueError(f"estimate of shape {list(v.shape)} for batch shape {want}")
            if vec:
                out.append([one(v[j]) for j in range(v.numel())])
            else:
                out.append(one(v))
        return out

    # ---------------------------------------------------------------- the estimator object's life cycle
    @staticmethod
    def _alt_n(n, alt):
        """a number of Monte-Carlo samples other than n"""
        return alt if isinstance(alt, int) and alt >= 1 and alt != n else n + 1

    def _alt_dist(self, spec, like, layout, pts):
        """the proposal / density an object is constructed with before the attribute is assigned: another
        member of the same family (own parameter tensor); as a proposal it hands out the first point"""
        import torch
        d = fam.build(self._alt_spec(spec, like), True, layout=layout)[0]
        d.sample = lambda shape=(): torch.stack([pts[0]] * (list(shape) or [1])[0])
        return d

    def _alt_spec(self, spec, like):
        return spec if isinstance(spec, dict) and spec.get("fam") == like["fam"] and \
            fam.n_points(spec) == fam.n_points(like) else dict(like, param="probs", theta=self._uniform_theta(like))

    @staticmethod
    def _uniform_theta(like):
        th = like["theta"]
        if like["fam"] == "cat2":
            return [["1/2" if len(r) == 2 else "1/3"] * len(r) for r in th]
        return ["1/2"] * len(th) if like["fam"] == "bern" else [fs(Fr(1, len(th)))] * len(th)

    def _pred_life(self, name, case, a, b, asked=None, want_asked=None):
        """an object with a history (constructed with other attribute values, called, attributes assigned)
        against a freshly constructed estimator with the attribute values in force, on the same draws"""
        lf = case.get("life")
        out = []
        if asked is not None and asked != want_asked:
            out.append((f"{name}{life_.describe(lf)}: the call drew samples of shape {asked}, expected one draw of "
                        f"shape {want_asked} (mc_samples as it is at the time of the call)", None))
        def same(x, y):
            # (1e-12, not bit-equality: a proposal whose lazily cached `probs` was computed during an earlier
            # call hands autograd the same graph with its nodes created in another order - the gradient's
            # last bit may differ)
            if isinstance(x, list) and isinstance(y, list):
                return len(x) == len(y) and all(same(p, q) for p, q in zip(x, y))
            if isinstance(x, str) and isinstance(y, str):
                return x == y or (x not in SPECIALS and y not in SPECIALS and close(x, y, 1e-12))
            return x == y
        if lf and b is not None and not same(a, b):
            out.append((f"{name}{life_.describe(lf)} returns {fam_short(a)}; a freshly constructed estimator with "
                        f"the same attribute values returns {fam_short(b)} on the same draws (the value of a call "
                        f"must depend on the attributes as they are at the time of the call)", None))
        return out

    def _cmp_batch(self, per, models, M, N, gtols):
        """batch layout: element j of the estimate on a tuple of joint points is the one-variable model of
        element j on the projected tuple; its gradient lives in parameter coordinate j only"""
        out = []
        for ti, t in enumerate(fam.tuples(M, N)):
            for j, (val, grads) in enumerate(per[ti]):
                m = models[j]["per_tuple"][fam.project(t, j)]
                out += self._cmp_multi(f"tuple {ti} element {j}", [val, [grads[j]]], m, gtols[j])
                if any(F(x) != 0 for k, x in enumerate(grads) if k != j):
                    out.append(f"tuple {ti} element {j}: gradient outside parameter coordinate {j}: {grads}")
        return out

    def _pred_batch(self, name, per, P, N, exact):
        """batch layout: mean over the joint sample space of element j = exact[j] (value, [gradient in
        coordinate j]); zero elsewhere"""
        fails = []
        for j in range(len(per[0])):
            v, g = self._wmean([row[j] for row in per], P, N)
            ev, eg = F(exact[j][0]), F(exact[j][1][0])
            if not close(v, ev):
                fails.append((f"{name}: element {j}: mean value over the sample space {float(v)!r} != E f = "
                              f"{float(ev)!r}", None))
            for k, x in enumerate(g):
                want = eg if k == j else Fr(0)
                if not close(x, want):
                    fails.append((f"{name}: element {j}: mean gradient[{k}] {float(x)!r} != exact {float(want)!r}",
                                  None))
        return fails

    @staticmethod
    def _wmean(per_tuple, P, N):
        """average over Omega^N of the implementation's (value, grads) with exact weights."""
        tl = fam.tuples(len(P), N)
        K = len(per_tuple[0][1])
        v = Fr(0)
        g = [Fr(0)] * K
        for t, (val, grads) in zip(tl, per_tuple):
            w = Fr(1)
            for i in t:
                w *= P[i]
            v += w * F(val)
            for j in range(K):
                g[j] += w * F(grads[j])
        return v, g

    @staticmethod
    def _gtol(spec):
        """tolerance for a per-tuple autograd gradient of log P: 1e-9, unless the differentiated
        distribution has a per-variable probability p below ~4e-6, where torch's own
        `sigmoid(l) - target` / `onehot - softmax` carries a relative error of eps / p (conditioning,
        not an error of the estimator); the averages over the sample space keep 1e-9."""
        return max(fam.TOL, 16 * EPS64 / fam.min_marginal(spec))

    @staticmethod
    def _cmp_multi(tag, a, b, gtol=fam.TOL):
        out = []
        if not close(a[0], b[0]):
            out.append(f"{tag}: value impl={float(F(a[0]))!r} model={float(F(b[0]))!r}")
        for j, (x, y) in enumerate(zip(a[1], b[1])):
            if not close(x, y, gtol):
                out.append(f"{tag}: grad[{j}] impl={float(F(x))!r} model={float(F(y))!r}")
        if len(a[1]) != len(b[1]):
            out.append(f"{tag}: gradient sizes differ {len(a[1])} vs {len(b[1])}")
        return out

    def _points_json(self, spec, f, c=None, lv=None, only=None):
        """`only`: indices of the points that make up the sample space (default: all)"""
        P, dP = fam.exact_probs(spec)
        pts = []
        for i in (range(len(P)) if only is None else only):
            d = {"p": fs(P[i]), "dp": [fs(x) for x in dP[i]], "f": f[i]}
            if c is not None:
                d["c"] = c[i]
            if lv is not None:
                d["lv"] = lv[i]
            pts.append(d)
        if only is not None:
            P, dP = [P[i] for i in only], [dP[i] for i in only]
        return pts, P, dP

    # ---------------------------------------------------------------- direct
    def _impl_direct(self, case):
        import torch
        from pydrobert.torch.estimators import DirectEstimator
        sp = case["dist"]
        batch = self._batch(case)
        dist, param, pts = fam.build(sp, layout=case.get("layout", "event"))
        ctab = self._tables(case, sp, "c")
        cv_mean = None
        if ctab is not None:
            # the differentiable exact mean of the control variate
            if batch:
                ct = torch.tensor([[float(F(x)) for x in r] for r in ctab], dtype=torch.float64)
                cv_mean = ct[:, 0] * dist.log_prob(pts[0]).exp() + ct[:, 1] * dist.log_prob(pts[-1]).exp()
            else:
                ct = torch.tensor([float(F(x)) for x in ctab], dtype=torch.float64)
                cv_mean = (dist.log_prob(torch.stack(pts)).exp() * ct).sum()
            if case["cv_mean_detached"]:
                cv_mean = cv_mean.detach()
        # the sample space is the support: a class of probability zero (logit -inf) is never drawn
        spts = [pts[i] for i in fam.support(sp)]
        logs = {"f": [], "c": []}
        self._kept_reset()

        lf = case.get("life")
        N = case["N"]

        def run(twin, lf=lf):
            func = self._callback(case, sp, "f", twin, logs["f"])
            cv = self._callback(case, sp, "c", twin, logs["c"])
            final = {"proposal": dist, "func": func, "mc_samples": N, "cv": cv, "cv_mean": cv_mean,
                     "is_log": bool(case.get("is_log"))}

            def make():
                if not lf:
                    return DirectEstimator(dist, func, N, cv, cv_mean, final["is_log"])
                al = lf.get("alt", {})
                alt = {"proposal": self._alt_dist(al.get("proposal"), sp, case.get("layout", "event"), spts),
                       "func": life_.affine(func, -2.0, 3.0), "mc_samples": self._alt_n(N, al.get("mc_samples")),
                       "is_log": not final["is_log"]}
                if cv is None:      # constructed WITH a control variate, which is then taken away
                    alt["cv"] = life_.affine(func, 0.5, -1.0)
                    alt["cv_mean"] = torch.full_like(dist.log_prob(spts[0]), 0.125)
                elif lf.get("cv") == "add":     # constructed WITHOUT a control variate, which is then given
                    alt["cv"] = alt["cv_mean"] = None
                else:
                    alt["cv"] = life_.affine(cv, 1.5, 0.25)
                    alt["cv_mean"] = cv_mean.detach() * 0.5 + 1.0
                return life_.build(DirectEstimator, ["proposal", "func", "mc_samples", "cv", "cv_mean", "is_log"],
                                   final, alt, self._direct_life(lf, cv is None))
            return self._run_tuples(dist, [param], spts, N, make, vec=batch,
                                    owned=bool(case.get("sample_owned")), reuse=bool(lf and lf.get("reuse")))
        per = run(False)
        untouched, shapes, asked = self._untouched, self._shapes, self._asked
        lps = dist.log_prob(torch.stack(pts)).detach()
        if batch:
            psum = [fs(x) for x in (lps[0].exp() + lps[-1].exp()).tolist()]
        else:
            psum = fs(lps.exp().sum().item())
        return {"per_tuple": per, "psum": psum, "aliased": self._alias_obs(case, logs),
                "samples_untouched": untouched, "tables_untouched": self._kept_ok(), "shapes": shapes,
                "asked": asked, "fresh": run(False, None) if lf else None,
                "twin": run(True) if self._has_twin(case) else None}

    @staticmethod
    def _direct_life(lf, no_cv):
        """a DirectEstimator that ends without a control variate can only be CONSTRUCTED with one if it is
        given a `cv_mean` too: the two attributes are then assigned together"""
        if no_cv and "cv" in lf["set"] and "cv_mean" not in lf["set"]:
            return dict(lf, set=lf["set"] + ["cv_mean"])
        return lf

    def _pred_log_tuples(self, name, case, sp, per, logw):
        """is_log=True (func = log f; no control variate): on every tuple the returned value is the log of
        what the is_log=False estimator returns for f = exp(func): log mean_n exp(func(b_n)) for the direct
        estimator, log sum_n exp(func(b_n) + logw(b_n)) / N for importance sampling (logw = log P - log Q).
        self_normalize=True (importance sampling): the weights are exp(logw(b_n)) / sum_m exp(logw(b_m))
        instead of exp(logw(b_n)) / N - the documented self-normalised estimate sum_n w_n f(b_n) (biased:
        only its VALUE on every tuple is judged), in log space with is_log"""
        ft = self._tables(case, sp, "f")
        sup = fam.support(sp)
        fails = []
        if case.get("self_normalize"):
            for ti, t in enumerate(fam.tuples(len(sup), case["N"])):
                pts = [sup[i] for i in t]
                for j in range(len(ft) if self._batch(case) else 1):
                    if self._batch(case):
                        vals, lw, g = [ft[j][(i >> j) & 1] for i in pts], [logw[j][(i >> j) & 1] for i in pts], \
                            per[ti][j][0]
                    else:
                        vals, lw, g = [ft[i] for i in pts], [logw[i] for i in pts], per[ti][0]
                    m = max(lw)
                    ws = [math.exp(x - m) for x in lw]
                    if case.get("is_log"):
                        want = self._lme(vals, lw) - (m + math.log(sum(ws)))
                    else:
                        want = sum(w * float(F(v)) for w, v in zip(ws, vals)) / sum(ws)
                    if not self._lclose(g, want):
                        fails.append((f"{name}(self_normalize=True{', is_log=True' if case.get('is_log') else ''}): "
                                      f"tuple {t} element {j}: {g} is not the self-normalised estimate "
                                      f"sum_n w_n f(b_n), w = softmax(log P - log Q), = {want!r}", None))
            return fails[:4]
        for ti, t in enumerate(fam.tuples(len(sup), case["N"])):
            pts = [sup[i] for i in t]
            if self._batch(case):
                rows = [[ft[j][(i >> j) & 1] for i in pts] for j in range(len(ft))]
                got = [x[0] for x in per[ti]]
                lws = [None if logw is None else [logw[j][(i >> j) & 1] for i in pts] for j in range(len(ft))]
            else:
                rows, got = [[ft[i] for i in pts]], [per[ti][0]]
                lws = [None if logw is None else [logw[i] for i in pts]]
            for j, (vals, g, lw) in enumerate(zip(rows, got, lws)):
                want = self._lme(vals, lw) - (math.log(case["N"]) if lw is not None else 0.0)
                if not self._lclose(g, want):
                    fails.append((f"{name}(is_log=True): tuple {t} element {j}: {g} is not the log of the "
                                  f"is_log=False estimate of exp(func) = {want!r}", None))
        return fails[:4]

    def _elem_cases(self, case, key="dist"):
        """batch layout: the one-variable event-layout case of every element"""
        sp = case[key]
        ft, ct = self._tables(case, sp, "f"), self._tables(case, sp, "c")
        out = []
        for j in range(len(sp["theta"])):
            sub = {k: v for k, v in case.items() if k not in ("layout", "fp", "cp")}
            sub[key] = fam.element(sp, j)
            sub["f"] = ft[j]
            if "c" in case:
                sub["c"] = None if ct is None else ct[j]
            out.append(sub)
        return out

    def _req_direct(self, case):
        import torch
        if case.get("is_log"):
            return None         # is_log=True is not modelled: python oracle in the predicate (values only)
        if self._batch(case):
            return {"op": "c19.multi", "case": {"reqs": [self._req_direct(c) for c in self._elem_cases(case)]}}
        sp = case["dist"]
        dist, _, pts = fam.build(sp, False)
        lv = [fs(x) for x in dist.log_prob(torch.stack(pts)).tolist()]
        points, _, _ = self._points_json(sp, self._tables(case, sp, "f"), self._tables(case, sp, "c"), lv,
                                         fam.support(sp))
        return {"op": "c19.direct", "case": {
            "N": case["N"], "K": fam.n_params(sp), "use_cv": self._tables(case, sp, "c") is not None,
            "cv_mean_detached": bool(case["cv_mean_detached"]), "points": points}}

    def _cmp_direct(self, case, impl, model):
        out = []
        if self._batch(case):
            subs = self._elem_cases(case)
            return self._cmp_batch(impl["per_tuple"], model["replies"], fam.n_points(case["dist"]), case["N"],
                                   [self._gtol(c["dist"]) for c in subs])[:6]
        gtol = self._gtol(case["dist"])
        for i, (a, b) in enumerate(zip(impl["per_tuple"], model["per_tuple"])):
            out += self._cmp_multi(f"tuple {i}", a, b, gtol)
        if len(impl["per_tuple"]) != len(model["per_tuple"]):
            out.append("number of tuples differs")
        return out[:6]

    def _pred_direct(self, case, impl, model):
        P, _ = fam.exact_probs(case["dist"])
        P = [P[i] for i in fam.support(case["dist"])]
        fails = self._pred_twin("DirectEstimator", case, impl["per_tuple"], impl["twin"])
        fails += self._pred_life("DirectEstimator", case, impl["per_tuple"], impl.get("fresh"), impl.get("asked"),
                                 [[case["N"]]])
        fails += self._pred_untouched("DirectEstimator(is_log=True)" if case.get("is_log") else "DirectEstimator",
                                      impl)
        if case.get("is_log"):
            return fails + self._pred_log_tuples("DirectEstimator", case, case["dist"], impl["per_tuple"], None)
        has_cv = self._tables(case, case["dist"], "c") is not None
        for x in (impl["psum"] if isinstance(impl["psum"], list) else [impl["psum"]]):
            if not close(x, 1):
                fails.append((f"probabilities over the support sum to {float(F(x))}", None))
        if self._batch(case):
            exact = []
            for m in model["replies"]:
                ev, eg = m["exact"][0], list(m["exact"][1])
                if has_cv and case["cv_mean_detached"]:
                    eg = [fs(F(a) - F(b)) for a, b in zip(eg, m["exact_cv"][1])]
                exact.append([ev, eg])
            return fails + self._pred_batch("DirectEstimator (batch of independent variables)", impl["per_tuple"],
                                            P, case["N"], exact)
        v, g = self._wmean(impl["per_tuple"], P, case["N"])
        ev, eg = F(model["exact"][0]), [F(x) for x in model["exact"][1]]
        if has_cv and case["cv_mean_detached"]:
            # companion statement: a detached cv_mean gives grad E f - grad E c
            eg = [a - F(b) for a, b in zip(eg, model["exact_cv"][1])]
        if not close(v, ev):
            fails.append((f"DirectEstimator: mean value over the sample space {float(v)!r} != E f = {float(ev)!r}",
                          None))
        for j, (a, b) in enumerate(zip(g, eg)):
            if not close(a, b):
                fails.append((f"DirectEstimator: mean gradient[{j}] {float(a)!r} != exact {float(b)!r}", None))
        return fails

    # ---------------------------------------------------------------- importance sampling
    def _impl_is(self, case):
        import torch
        from pydrobert.torch.estimators import ImportanceSamplingEstimator
        sp = case["proposal"]
        batch = self._batch(case)
        lay = case.get("layout", "event")
        dist, qparam, pts = fam.build(sp, layout=lay)
        if case["density"] == "same":
            dens, pparam = dist, qparam
            params = [qparam]
        else:
            dens, pparam, _ = fam.build(case["density"], layout=lay)
            params = [pparam, qparam]
        pts = [pts[i] for i in fam.support(sp)]        # the proposal's support
        logs = {"f": []}
        self._kept_reset()

        lf = case.get("life")
        N = case["N"]

        def run(twin, lf=lf):
            func = self._callback(case, sp, "f", twin, logs["f"])
            final = {"proposal": dist, "func": func, "mc_samples": N, "density": dens,
                     "self_normalize": bool(case.get("self_normalize")), "is_log": bool(case.get("is_log"))}

            def make():
                if not lf:
                    return ImportanceSamplingEstimator(dist, func, N, dens, final["self_normalize"], final["is_log"])
                al = lf.get("alt", {})
                alt = {"proposal": self._alt_dist(al.get("proposal"), sp, lay, pts),
                       "func": life_.affine(func, -2.0, 3.0), "mc_samples": self._alt_n(N, al.get("mc_samples")),
                       "self_normalize": not final["self_normalize"], "is_log": not final["is_log"],
                       # another density of the family; the proposal itself where the case has its own density
                       "density": self._alt_dist(al.get("density"), sp, lay, pts)
                       if case["density"] == "same" or isinstance(al.get("density"), dict) else dist}
                return life_.build(ImportanceSamplingEstimator,
                                   ["proposal", "func", "mc_samples", "density", "self_normalize", "is_log"],
                                   final, alt, lf)
            return self._run_tuples(dist, params, pts, N, make, vec=batch,
                                    owned=bool(case.get("sample_owned")), reuse=bool(lf and lf.get("reuse")))
        per = run(False)
        out = {"per_tuple": per, "aliased": self._alias_obs(case, logs), "samples_untouched": self._untouched,
               "tables_untouched": self._kept_ok(), "shapes": self._shapes, "asked": self._asked}
        out["fresh"] = run(False, None) if lf else None
        out["twin"] = run(True) if self._has_twin(case) else None
        return out

    def _is_elem_cases(self, case):
        sp = case["proposal"]
        ft = self._tables(case, sp, "f")
        return [dict({k: v for k, v in case.items() if k not in ("layout", "fp", "life")},
                     proposal=fam.element(sp, j), f=ft[j],
                     density="same" if case["density"] == "same" else fam.element(case["density"], j))
                for j in range(len(sp["theta"]))]

    def _req_is(self, case):
        if case.get("is_log") or case.get("self_normalize"):
            return None         # not modelled: python oracle in the predicate (values only)
        if self._batch(case):
            return {"op": "c19.multi", "case": {"reqs": [self._req_is(c) for c in self._is_elem_cases(case)]}}
        sp = case["proposal"]
        Q, dQ = fam.exact_probs(sp)
        sd = sp if case["density"] == "same" else case["density"]
        P, dP = fam.exact_probs(sd)
        ft = self._tables(case, sp, "f")
        pts = [{"q": fs(Q[i]), "dq": fs(dQ[i][0]), "p": fs(P[i]), "dp": [fs(x) for x in dP[i]],
                "f": ft[i]} for i in fam.support(sp)]
        lf = case.get("life")
        if lf:
            # the object model run on the SAME history: what the object is constructed with (`*0`: the
            # alternatives of `_impl_is`), the earlier calls, the assignments, then one call per tuple
            al = lf.get("alt", {})
            Q0, _ = fam.exact_probs(self._alt_spec(al.get("proposal"), sp))
            P0, _ = fam.exact_probs(self._alt_spec(al.get("density"), sp))
            for d, i in zip(pts, fam.support(sp)):
                d.update(q0=fs(Q0[i]), p0=fs(P0[i]), f0=fs(3 - 2 * F(ft[i])))
            st = set(lf["set"])
            return {"op": "c19.life_is", "case": {
                "N": case["N"], "K": fam.n_params(sd), "points": pts, "warm": lf.get("warm", 0), "set": lf["set"],
                "ctor": {"mc_samples": self._alt_n(case["N"], al.get("mc_samples")) if "mc_samples" in st
                         else case["N"], "func": "func" in st, "density": "density" in st,
                         "proposal": "proposal" in st, "self_normalize": "self_normalize" in st,
                         "is_log": "is_log" in st}}}
        return {"op": "c19.is", "case": {"N": case["N"], "K": fam.n_params(sd), "points": pts}}

    def _split_is(self, case, per):
        """-> per-tuple [val, density grads], list of proposal-only grads"""
        K = fam.n_params(case["proposal"] if case["density"] == "same" else case["density"])
        a = [[v, g[:K]] for v, g in per]
        extra = [g[K:] for v, g in per]
        return a, extra

    def _is_batch_split(self, case, per):
        """batch layout -> per[t][j] = [val, density grads], and all proposal-only grads"""
        n = len(case["proposal"]["theta"])
        a = [[[v, g[:n]] for v, g in row] for row in per]
        extra = [g[n:] for row in per for v, g in row]
        return a, extra

    def _cmp_is(self, case, impl, model):
        out = []
        if self._batch(case):
            a, extra = self._is_batch_split(case, impl["per_tuple"])
            subs = self._is_elem_cases(case)
            out = self._cmp_batch(a, model["replies"], fam.n_points(case["proposal"]), case["N"],
                                  [self._gtol(c["proposal"] if c["density"] == "same" else c["density"])
                                   for c in subs])
        else:
            a, extra = self._split_is(case, impl["per_tuple"])
            gtol = self._gtol(case["proposal"] if case["density"] == "same" else case["density"])
            for i, (x, y) in enumerate(zip(a, model["per_tuple"])):
                out += self._cmp_multi(f"tuple {i}", x, y, gtol)
        for i, e in enumerate(extra):
            if any(F(x) != 0 for x in e):
                out.append(f"tuple {i}: non-zero gradient w.r.t. the proposal parameters {e}")
        return out[:6]

    def _pred_is(self, case, impl, model):
        Q, _ = fam.exact_probs(case["proposal"])
        Q = [Q[i] for i in fam.support(case["proposal"])]
        fails = self._pred_twin("ImportanceSamplingEstimator", case, impl["per_tuple"], impl["twin"])
        fails += self._pred_life("ImportanceSamplingEstimator", case, impl["per_tuple"], impl.get("fresh"),
                                 impl.get("asked"), [[case["N"]]])
        fails += self._pred_untouched("ImportanceSamplingEstimator", impl)
        if case.get("is_log") or case.get("self_normalize"):
            import torch
            lay = case.get("layout", "event")
            dq, _, pts = fam.build(case["proposal"], False, layout=lay)
            dp = dq if case["density"] == "same" else fam.build(case["density"], False, layout=lay)[0]
            if self._batch(case):
                lw = (dp.log_prob(torch.stack([pts[0], pts[-1]])) - dq.log_prob(torch.stack([pts[0], pts[-1]]))
                      ).t().tolist()
            else:
                lw = (dp.log_prob(torch.stack(pts)) - dq.log_prob(torch.stack(pts))).tolist()
            return fails + self._pred_log_tuples("ImportanceSamplingEstimator", case, case["proposal"],
                                                 impl["per_tuple"], lw)
        if self._batch(case):
            a, extra = self._is_batch_split(case, impl["per_tuple"])
            fails += self._pred_batch("ImportanceSamplingEstimator (batch of independent variables)", a, Q,
                                      case["N"], [m["exact"] for m in model["replies"]])
            if any(F(x) != 0 for e in extra for x in e):
                fails.append(("ImportanceSamplingEstimator: gradient flows into the proposal parameters", None))
            return fails
        a, extra = self._split_is(case, impl["per_tuple"])
        v, g = self._wmean(a, Q, case["N"])
        ev, eg = F(model["exact"][0]), [F(x) for x in model["exact"][1]]
        # the oracle over the WHOLE space of the density (the proposal dominates it by construction)
        sd = case["proposal"] if case["density"] == "same" else case["density"]
        Pd, _ = fam.exact_probs(sd)
        ev_all = sum(p * F(x) for p, x in zip(Pd, self._tables(case, case["proposal"], "f")))
        if ev_all != ev:
            fails.append((f"ImportanceSamplingEstimator: oracle over the proposal's support {float(ev)!r} != E_P f "
                          f"over the whole space {float(ev_all)!r} (proposal does not dominate)", None))
        if not close(v, ev):
            fails.append((f"ImportanceSamplingEstimator: mean value {float(v)!r} != E_P f = {float(ev)!r}", None))
        for j, (x, y) in enumerate(zip(g, eg)):
            if not close(x, y):
                fails.append((f"ImportanceSamplingEstimator: mean gradient[{j}] {float(x)!r} != exact {float(y)!r}",
                              None))
        if any(F(x) != 0 for e in extra for x in e):
            fails.append(("ImportanceSamplingEstimator: gradient flows into the proposal parameters", None))
        return fails

    # ---------------------------------------------------------------- enumerate
    def _impl_enumerate(self, case):
        import torch
        from pydrobert.torch.estimators import EnumerateEstimator
        sp = case["dist"]
        logs = {"f": []}
        lf0 = case.get("life")
        is_log = bool(case.get("is_log"))

        def make(dist, func, layout, pts, lf):
            """the estimator object (with its life, if the case has one); -> (estimator, calls to make)"""
            final = {"proposal": dist, "func": func, "is_log": is_log}
            if not lf:
                return EnumerateEstimator(dist, func, is_log), 1
            alt = {"proposal": self._alt_dist(lf.get("alt", {}).get("proposal"), sp, layout, pts),
                   "func": life_.affine(func, -2.0, 3.0), "is_log": not is_log}
            V = len(sp["theta"])
            if lf.get("alt", {}).get("smaller") and sp["fam"] in ("cat", "onehot") and V >= 3:
                # ... whose support is another set of points (one class fewer)
                alt["proposal"] = fam.build(dict(sp, param="probs", theta=[fs(Fr(1, V - 1))] * (V - 1)))[0]
            return life_.build(EnumerateEstimator, ["proposal", "func", "is_log"], final, alt, lf), \
                (2 if lf.get("reuse") else 1)
        if sp["fam"] == "bern":
            # torch's Independent cannot enumerate: a plain Bernoulli (batch shape (n,)) whose support is
            # enumerated for all elements in parallel; the estimate is the vector of E f_j
            bc = dict(case, layout="batch")
            dist, param, pts = fam.build(sp, layout="batch")

            def run(twin, lf=lf0):
                est, calls = make(dist, self._callback(bc, sp, "f", twin, logs["f"]), "batch", pts, lf)
                for _ in range(calls):      # reuse: the observed call is the second one on the object
                    v = est()
                if list(v.shape) != [len(sp["theta"])]:
                    raise ValueError(f"estimate of shape {list(v.shape)} for batch shape {[len(sp['theta'])]}")
                out = []
                for j in range(v.numel()):
                    g, = torch.autograd.grad(v[j], [param], retain_graph=True)
                    out.append([fs(v[j].item()), [fs(x) for x in g.reshape(-1).tolist()]])
                return out
            sup = dist.enumerate_support()
            return {"v": run(False), "twin": run(True) if self._has_twin(case) else None,
                    "fresh": run(False, None) if lf0 else None,
                    "support_cols": [sorted(int(x) for x in col) for col in sup.t().tolist()],
                    "psum": [fs(x) for x in dist.log_prob(sup).exp().sum(0).tolist()],
                    "aliased": self._alias_obs(case, logs)}

        dist, param, pts = fam.build(sp)

        def run(twin, lf=lf0):
            est, calls = make(dist, self._callback(case, sp, "f", twin, logs["f"]), "event", pts, lf)
            for _ in range(calls):
                v = est().sum()
            g, = torch.autograd.grad(v, [param], retain_graph=True)
            return [fs(v.item()), [fs(x) for x in g.reshape(-1).tolist()]]
        sup = dist.enumerate_support()
        idx = fam.index_fn(sp)(sup).tolist()
        return {"v": run(False), "twin": run(True) if self._has_twin(case) else None,
                "fresh": run(False, None) if lf0 else None, "support_idx": sorted(idx),
                "psum": fs(dist.log_prob(sup).exp().sum().item()), "aliased": self._alias_obs(case, logs)}

    def _req_enumerate(self, case):
        sp = case["dist"]
        if case.get("is_log"):
            return None
        if sp["fam"] == "bern":
            ft = self._tables(dict(case, layout="batch"), sp, "f")
            if len(sp["theta"]) == 1 and len(ft) == 2 and not isinstance(ft[0], list):
                ft = [ft]
            reqs = []
            for j in range(len(sp["theta"])):
                el = fam.element(sp, j)
                points, _, _ = self._points_json(el, ft[j])
                reqs.append({"op": "c19.enumerate", "case": {"K": 1, "points": points}})
            return {"op": "c19.multi", "case": {"reqs": reqs}}
        points, _, _ = self._points_json(sp, self._tables(case, sp, "f"))
        return {"op": "c19.enumerate", "case": {"K": fam.n_params(sp), "points": points}}

    def _enum_rows(self, case, impl, model, key):
        """-> list of (tag, impl [val, grads], model [val, grads]) with the model's gradient placed in the
        element's own parameter coordinate"""
        if case["dist"]["fam"] != "bern":
            return [("enumerate", impl["v"], model[key])]
        n = len(case["dist"]["theta"])
        rows = []
        for j, m in enumerate(model["replies"]):
            g = ["0"] * n
            g[j] = m[key][1][0]
            rows.append((f"enumerate element {j}", impl["v"][j], [m[key][0], g]))
        return rows

    def _cmp_enumerate(self, case, impl, model):
        return [d for tag, a, b in self._enum_rows(case, impl, model, "model") for d in self._cmp_multi(tag, a, b)]

    def _pred_enumerate(self, case, impl, model):
        fails = self._pred_twin("EnumerateEstimator", case, impl["v"], impl["twin"])
        fails += self._pred_life("EnumerateEstimator", case, impl["v"], impl.get("fresh"))
        if case.get("is_log"):
            # is_log=True: log sum_b P(b) exp(func(b)), exactly (value only)
            sp = case["dist"]
            if sp["fam"] == "bern":
                ft = self._tables(dict(case, layout="batch"), sp, "f")
                for j, row in enumerate(ft):
                    P, _ = fam.exact_probs(fam.element(sp, j))
                    want = math.log(sum(float(p) * math.exp(float(F(x))) for p, x in zip(P, row)))
                    if not self._lclose(impl["v"][j][0], want):
                        fails.append((f"EnumerateEstimator(is_log=True) element {j}: {impl['v'][j][0]} != "
                                      f"log E exp(func) = {want!r}", None))
            else:
                P, _ = fam.exact_probs(sp)
                want = math.log(sum(float(p) * math.exp(float(F(x))) for p, x in
                                    zip(P, self._tables(case, sp, "f"))))
                if not self._lclose(impl["v"][0], want):
                    fails.append((f"EnumerateEstimator(is_log=True): {impl['v'][0]} != log E exp(func) = {want!r}",
                                  None))
            return fails
        fails += [(m, None) for tag, a, b in self._enum_rows(case, impl, model, "exact")
                  for m in self._cmp_multi(f"EnumerateEstimator vs exact expectation ({tag})", a, b)]
        if case["dist"]["fam"] == "bern":
            if any(c != [0, 1] for c in impl["support_cols"]):
                fails.append((f"enumerate_support does not list both values of every variable once: "
                              f"{impl['support_cols']}", None))
        else:
            M = fam.n_points(case["dist"])
            if impl["support_idx"] != list(range(M)):
                fails.append((f"enumerate_support does not list every point once: {impl['support_idx']}", None))
        for x in (impl["psum"] if isinstance(impl["psum"], list) else [impl["psum"]]):
            if not close(x, 1):
                fails.append((f"probabilities over the enumerated support sum to {float(F(x))}", None))
        return fails

    # enumerate over the SRSWOR distribution (no parameters: value only)
    def _impl_enumerate_srswor(self, case):
        import torch
        from pydrobert.torch.estimators import EnumerateEstimator
        from pydrobert.torch.distributions import SimpleRandomSamplingWithoutReplacement as S
        dist = S(case["given"], case["total"], case["out_size"])
        n = case["out_size"]
        t = torch.tensor([float(F(x)) for x in case["f"]], dtype=torch.float64)
        w = torch.tensor([float(2 ** j) for j in range(n)])
        func = lambda b: t[(b * w).sum(-1).round().long()]
        v = EnumerateEstimator(dist, func)()
        sup = dist.enumerate_support()
        lp = dist.log_prob(sup)
        return {"v": fs(v.item()), "support": [[int(x) for x in r] for r in sup.tolist()],
                "psum": fs(lp.to(torch.float64).exp().sum().item()),
                "in_support": bool(dist.support.check(sup).all())}

    def _req_enumerate_srswor(self, case):
        return {"op": "c19.enum_card", "case": {"length": case["total"], "count": case["given"]}}

    def _cmp_enumerate_srswor(self, case, impl, model):
        pad = case["out_size"] - case["total"]
        exp = [r + [0] * pad for r in model["support"]]
        return [] if impl["support"] == exp else [f"support impl={impl['support']} model={exp}"]

    def _pred_enumerate_srswor(self, case, impl, model):
        fails = []
        sup = impl["support"]
        T, L = case["total"], case["given"]
        want = sorted([list(b) + [0] * (case["out_size"] - T) for b in itertools.product([0, 1], repeat=T)
                       if sum(b) == L])
        if sorted(sup) != want:
            fails.append(("SRSWOR.enumerate_support is not the set of vectors with the given cardinality", None))
        if not impl["in_support"]:
            fails.append(("SRSWOR.enumerate_support yields a vector outside support", None))
        if abs(float(F(impl["psum"])) - 1) > 1e-5:      # float32 log-factorials
            fails.append((f"SRSWOR probabilities over the support sum to {float(F(impl['psum']))}", None))
        n = case["out_size"]
        ex = sum(F(case["f"][sum(b << j for j, b in enumerate(r))]) for r in want) / len(want)
        if abs(F(impl["v"]) - ex) > Fr(1, 10 ** 5) * max(1, abs(ex)):
            fails.append((f"EnumerateEstimator over SRSWOR {float(F(impl['v']))} != {float(ex)}", None))
        return fails

    # ---------------------------------------------------------------- IMH
    def _imh_setup(self, case):
        import torch
        sp = case["proposal"]
        dist, _, pts = fam.build(sp, False)
        dens = dist if case["density"] == "same" else fam.build(case["density"], False)[0]
        allp = torch.stack(pts)
        ratios = (dens.log_prob(allp) - dist.log_prob(allp)).tolist()
        return dist, dens, pts, ratios

    def _impl_imh(self, case):
        import torch
        from pydrobert.torch.estimators import IndependentMetropolisHastingsEstimator as IMH
        sp = case["proposal"]
        lay = case.get("layout", "event")
        batch = self._batch(case)
        dist, _, pts = fam.build(sp, False, layout=lay)
        dens = dist if case["density"] == "same" else fam.build(case["density"], False, layout=lay)[0]
        us = torch.tensor([[float(F(x)) for x in r] for r in case["us"]] if batch
                          else [float(F(x)) for x in case["us"]], dtype=torch.float64)
        logs = {"f": []}
        owned = bool(case.get("sample_owned"))
        self._kept_reset()

        lf0 = case.get("life")
        N, burn = case["N"], case["burn_in"]

        def run(twin, lf=lf0):
            func = self._callback(case, sp, "f", twin, logs["f"])
            draws = list(case["draws"])
            taken, asked, drawn = [], [], []
            warm = [bool(lf)]
            pool = torch.stack(pts).clone()       # owned: the proposal hands out views of a pool it keeps

            def sample(shape=()):
                if warm[0]:         # an earlier call of the object's life: not part of the script
                    return pts[case["draws"][0]].unsqueeze(0).clone()
                drawn.append([int(x) for x in shape])
                i = draws.pop(0)
                taken.append(i)
                return pool[i].unsqueeze(0) if owned else pts[i].unsqueeze(0).clone()

            def rand(*a, **k):
                shp = [int(x) for x in (a[0] if len(a) == 1 and not isinstance(a[0], int) else a)]
                if warm[0]:
                    return torch.full(shp, 0.5, dtype=torch.float64)
                asked.append(shp)
                return us.clone()
            init = keep = None
            if case["init"] is not None:
                init = pts[case["init"]].clone()
                if case.get("init_lead"):       # the documented second form: (1,) + batch + event shape
                    init = init.unsqueeze(0).clone()
                keep = init.clone()
            final = {"proposal": dist, "func": func, "mc_samples": N, "density": dens, "burn_in": burn,
                     "initial_sample": init, "initial_sample_tries": 3, "is_log": bool(case.get("is_log"))}
            order = ["proposal", "func", "mc_samples", "density", "burn_in", "initial_sample",
                     "initial_sample_tries", "is_log"]
            with fam.patched(dist, sample=sample), fam.torch_patched(rand=rand):
                if not lf:
                    est = IMH(**final)
                else:
                    al = lf.get("alt", {})
                    n0, b0, ai = self._imh_alt(case)
                    ai = None if ai is None else pts[ai].unsqueeze(0).clone()
                    adist = self._alt_dist(al.get("proposal"), sp, lay, pts)
                    adist.sample = sample
                    alt = {"proposal": adist, "func": life_.affine(func, -2.0, 3.0), "mc_samples": n0,
                           "density": self._alt_dist(al.get("density"), sp, lay, pts) if case["density"] == "same"
                           else dist, "burn_in": b0, "initial_sample": ai, "initial_sample_tries": 1,
                           "is_log": not final["is_log"]}
                    est = life_.build(IMH, order, final, alt, lf)
                warm[0] = False
                v = est()
                if lf and lf.get("reuse"):       # and once more: the script is played again
                    draws[:] = list(case["draws"])
                    del taken[:], asked[:], drawn[:]
                    v = est()
            want = [len(sp["theta"])] if batch else []
            if list(v.shape) != want:
                raise ValueError(f"estimate of shape {list(v.shape)}, expected {want}")
            return {"v": [fs(x) for x in v.tolist()] if batch else fs(v.item()), "consumed": len(taken),
                    "requires_grad": bool(v.requires_grad), "rand_shapes": asked, "drawn": drawn,
                    "samples_untouched": bool(torch.equal(pool, torch.stack(pts))),
                    "init_untouched": True if init is None else bool(torch.equal(init, keep))}
        out = run(False)
        out["tables_untouched"] = self._kept_ok()
        out["aliased"] = self._alias_obs(case, logs)
        out["twin"] = run(True) if self._has_twin(case) else None
        out["fresh"] = run(False, None) if lf0 else None
        return out

    def _imh_alt(self, case):
        """the numbers an IMH object with a life is CONSTRUCTED with: (mc_samples, burn_in, index of the
        initial_sample point or None).  The constructor checks burn_in < mc_samples: every object on the
        way is valid"""
        lf, N, burn = case["life"], case["N"], case["burn_in"]
        al = lf.get("alt", {})
        n0 = N if "mc_samples" not in lf["set"] else max(self._alt_n(N, al.get("mc_samples")), burn + 1)
        if n0 == N and "mc_samples" in lf["set"]:
            n0 = N + 1
        b0 = al.get("burn_in")
        if not isinstance(b0, int) or not 0 <= b0 < min(N, n0) or b0 == burn:
            b0 = (burn + 1) % min(N, n0)
        ai = al.get("initial_sample", "none")
        sup = fam.support(case["proposal"])
        ai = None if ai in (None, "none") else sup[ai % len(sup)]
        if case["init"] is None and ai is None:
            ai = sup[0]
        return n0, b0, ai

    def _imh_life_req(self, case, base):
        """the object model on the same history (event layout)"""
        import torch
        lf = case["life"]
        st = set(lf["set"])
        al = lf.get("alt", {})
        sp = case["proposal"]
        dist, dens, pts, _ = self._imh_setup(case)
        allp = torch.stack(pts)
        prop0 = self._alt_dist(al.get("proposal"), sp, "event", pts) if "proposal" in st else dist
        if "density" in st:
            dens0 = self._alt_dist(al.get("density"), sp, "event", pts) if case["density"] == "same" else dist
        else:
            dens0 = dens
        r0 = (dens0.log_prob(allp) - prop0.log_prob(allp)).tolist()
        fin = [r == r and abs(r) != float("inf") for r in r0]
        n0, b0, ai = self._imh_alt(case)
        ft = base["f"]
        return {"op": "c19.life_imh", "case": dict(
            base, is_log=bool(case.get("is_log")), ratios0=[fs(r) if ok else "0" for r, ok in zip(r0, fin)],
            in_support0=fin, f0=[fs(3 - 2 * F(x)) for x in ft], warm=lf.get("warm", 0), set=lf["set"],
            warm_draw=case["draws"][0], warm_lu=fs(math.log(0.5)), calls=2 if lf.get("reuse") else 1,
            ctor={"mc_samples": n0 if "mc_samples" in st else case["N"],
                  "burn_in": b0 if "burn_in" in st else case["burn_in"],
                  "tries": 1 if "initial_sample_tries" in st else 3,
                  "init": ai if "initial_sample" in st else case["init"],
                  "ratio": bool({"density", "proposal"} & st), "func": "func" in st,
                  "is_log": ("is_log" in st) != bool(case.get("is_log"))})}

    # ---- IMH, density vanishing on part of the proposal's support
    def _imh_support_setup(self, case):
        import torch
        M = len(case["q"])
        prop = torch.distributions.Categorical(probs=torch.tensor([float(F(x)) for x in case["q"]], dtype=torch.float64))
        logp = torch.tensor([float("-inf") if x is None else math.log(float(F(x))) for x in case["p"]],
                            dtype=torch.float64)
        ratios = (logp - prop.log_prob(torch.arange(M))).tolist()
        return prop, logp, ratios

    def _impl_imh_support(self, case):
        import torch
        from pydrobert.torch.estimators import IndependentMetropolisHastingsEstimator as IMH
        prop, logp, _ = self._imh_support_setup(case)

        class Dens:
            def log_prob(self, b):
                return logp[b]
        ftab = torch.tensor([float(F(x)) for x in case["f"]], dtype=torch.float64)
        states = []

        def func(b):
            states.append(int(b.reshape(-1)[0].item()))
            return ftab[b]
        draws = list(case["draws"])

        def sample(shape=()):
            return torch.tensor([draws.pop(0)])
        us = torch.tensor([float(F(x)) for x in case["us"]], dtype=torch.float64)

        def rand(*a, **k):
            return us.clone()
        with fam.patched(prop, sample=sample), fam.torch_patched(rand=rand):
            est = IMH(prop, func, case["N"], Dens(), case["burn_in"], torch.tensor([case["init"]]), 3, False)
            v = est()
        return {"v": fs(v.item()), "states": states, "consumed": case["N"] - len(draws)}

    def _req_imh_support(self, case):
        _, _, ratios = self._imh_support_setup(case)
        return {"op": "c19.imh_support", "case": {
            "ratios": [None if r == float("-inf") else fs(r) for r in ratios],
            "f": case["f"], "burn_in": case["burn_in"], "init": case["init"], "draws": case["draws"],
            "lus": self._lus(case)}}

    def _imh_support_margin_ok(self, case):
        _, _, ratios = self._imh_support_setup(case)
        fin = [r for r in ratios if r != float("-inf")]
        for a in fin:
            for b in fin:
                for l in self._lus(case):
                    if l is not None and abs((a - b) - float(F(l))) < 1e-9:
                        return False
        return True

    def _cmp_imh_support(self, case, impl, model):
        if not self._imh_support_margin_ok(case):
            return []
        b = case["burn_in"]
        # the model has both book-keepings; which one the tree under test has is the predicate's business
        for variant in ("fixed", "pinned"):
            m = model[variant]
            if impl["states"] == m["chain"][b:] and close(impl["v"], m["v"]):
                return []
        return [f"imh_support: kept states {impl['states']} estimate {impl['v']}; model (repaired) "
                f"{model['fixed']['chain'][b:]} {model['fixed']['v']}, (pinned) {model['pinned']['chain'][b:]} "
                f"{model['pinned']['v']}"]

    def _pred_imh_support(self, case, impl, model):
        if not self._imh_support_margin_ok(case):
            return []
        b = case["burn_in"]
        fails = []
        if impl["consumed"] != case["N"]:
            fails.append((f"IMH consumed {impl['consumed']} proposals for mc_samples={case['N']}", None))
        sup = [j for j, x in enumerate(case["p"]) if x is not None]
        want = model["fixed"]["chain"][b:]
        if any(st not in sup for st in impl["states"]):
            fails.append((f"IMH chain entered a state of density zero: {impl['states']} (support {sup})", None))
        if impl["states"] != want or not close(impl["v"], model["fixed"]["v"]):
            frozen = (impl["states"] == model["pinned"]["chain"][b:] and close(impl["v"], model["pinned"]["v"])
                      and any(d not in sup for d in case["draws"]))
            fails.append((f"IMH with a density that vanishes on part of the proposal's support: kept states "
                          f"{impl['states']} (estimate {float(F(impl['v']))}), expected {want} "
                          f"({float(F(model['fixed']['v']))}): after a proposal outside the support "
                          f"(draws {case['draws']}, support {sup}) the chain "
                          + ("is frozen - last_ratio became NaN (0 * -inf)" if frozen else "differs"),
                          SIG_IMHNINF if frozen else None))
        return fails

    @staticmethod
    def _lus_of(us):
        out = []
        for x in us:
            u = float(F(x))
            out.append(None if u == 0 else fs(math.log(u)))
        return out

    def _lus(self, case):
        return self._lus_of(case["us"])

    def _imh_elem_cases(self, case):
        """batch layout: the chain of element j (its bit of the start and of every proposal, its own
        uniform draws, its own integrand)"""
        sp = case["proposal"]
        ft = self._tables(case, sp, "f")
        out = []
        for j in range(len(sp["theta"])):
            out.append(dict({k: v for k, v in case.items() if k not in ("layout", "fp", "life")},
                            proposal=fam.element(sp, j), f=ft[j],
                            density="same" if case["density"] == "same" else fam.element(case["density"], j),
                            init=None if case["init"] is None else (case["init"] >> j) & 1,
                            draws=[(i >> j) & 1 for i in case["draws"]], us=[r[j] for r in case["us"]]))
        return out

    def _req_imh(self, case):
        if self._batch(case):
            return {"op": "c19.multi", "case": {"reqs": [self._req_imh(c) for c in self._imh_elem_cases(case)]}}
        _, _, pts, ratios = self._imh_setup(case)
        # a point outside the support (class with logit -inf: log P - log Q = -inf - -inf) is never
        # proposed; its ratio is a placeholder
        fin = [r == r and abs(r) != float("inf") for r in ratios]
        base = {"ratios": [fs(r) if ok else "0" for r, ok in zip(ratios, fin)],
                "f": self._tables(case, case["proposal"], "f"), "in_support": fin,
                "N": case["N"], "burn_in": case["burn_in"], "tries": 3, "init": case["init"],
                "draws": case["draws"], "lus": self._lus(case)}
        if case.get("life"):
            return self._imh_life_req(case, base)
        return {"op": "c19.imh", "case": base}

    def _imh_margin_ok(self, case):
        """every accept decision is clear of the tolerance (else: tie, skip equality)"""
        if case["density"] == "same":
            return True
        if self._batch(case):
            return all(self._imh_margin_ok(c) for c in self._imh_elem_cases(case))
        _, _, _, ratios = self._imh_setup(case)
        lus = self._lus(case)
        for a in ratios:
            for b in ratios:
                for l in lus:
                    if l is not None and abs((a - b) - float(F(l))) < 1e-9:
                        return False
        return True

    def _cmp_imh(self, case, impl, model):
        if not self._imh_margin_ok(case):
            return []
        if case.get("is_log"):
            # is_log=True is not part of the model; the model's list of recorded values func(b_t) is the
            # oracle: the estimate is the log of the mean of their exponentials (any densities)
            vs = impl["v"] if self._batch(case) else [impl["v"]]
            ms = model["replies"] if self._batch(case) else [model]
            out = []
            for j, (v, m) in enumerate(zip(vs, ms)):
                if m.get("recorded") is None:
                    out.append("model: error")
                elif not self._lclose(v, self._lme(m["recorded"])):
                    out.append(f"imh(is_log=True) element {j}: impl={v} but the log-mean-exp of the recorded values "
                               f"{m['recorded']} is {self._lme(m['recorded'])!r}")
            return out
        vs = impl["v"] if self._batch(case) else [impl["v"]]
        ms = model["replies"] if self._batch(case) else [model]
        out = []
        for j, (v, m) in enumerate(zip(vs, ms)):
            if m["v"] is None:
                out.append("model: error")
            elif not close(v, m["v"]):
                rec = [float(F(x)) for x in (m.get("recorded") or [])]
                out.append(f"imh element {j}: impl={float(F(v))} model={float(F(m['v']))} = mean of the recorded "
                           f"values f(b_t) = {rec} (C19_imh_values)")
            if m["v"] is not None and m.get("recorded") is not None:
                # the model's own two readings of the call agree (C19_imh_values, re-checked on the driver)
                rec = [F(x) for x in m["recorded"]]
                if not rec or sum(rec) / len(rec) != F(m["v"]):
                    out.append(f"imh element {j}: model estimate {m['v']} is not the mean of its recorded values {m['recorded']}")
        return out

    def _pred_imh(self, case, impl, model):
        fails = []
        tw = impl["twin"]
        fails += self._pred_twin("IndependentMetropolisHastingsEstimator", case, impl["v"], tw and tw["v"])
        fr = impl.get("fresh")
        fails += self._pred_life("IndependentMetropolisHastingsEstimator", case, impl["v"], fr and fr["v"])
        if any(d != [1] for d in impl.get("drawn", [])):
            fails.append((f"IMH asked the proposal for samples of shape {impl['drawn']}, expected [1] each", None))
        if impl["requires_grad"]:
            fails.append(("IMH estimate carries a gradient", None))
        fails += self._pred_untouched("IndependentMetropolisHastingsEstimator", impl)
        if not impl["init_untouched"]:
            fails.append(("IMH wrote into the initial_sample tensor it was handed", None))
        batch = self._batch(case)
        want_shape = [case["N"]] + ([len(case["proposal"]["theta"])] if batch else [])
        if impl["rand_shapes"] != [want_shape]:
            fails.append((f"IMH asked torch.rand for shapes {impl['rand_shapes']}, expected one draw of "
                          f"(mc_samples,) + batch_shape = {want_shape}", None))
        if case["density"] == "same":
            # every proposal accepted -> plain post-burn-in average of the proposals: the mean of the VALUES
            # f(b_t) of the kept chain states
            off = 1 if case["init"] is None else 0
            chain = case["draws"][off: off + case["N"]]
            kept = chain[case["burn_in"]:]
            ft = self._tables(case, case["proposal"], "f")
            if batch:
                exs = [sum(F(ft[j][(i >> j) & 1]) for i in kept) / len(kept) for j in range(len(ft))]
                vs = impl["v"]
            else:
                exs, vs = [sum(F(ft[i]) for i in kept) / len(kept)], [impl["v"]]
            if case.get("is_log"):
                lexs = ([self._lme([ft[j][(i >> j) & 1] for i in kept]) for j in range(len(ft))] if batch
                        else [self._lme([ft[i] for i in kept])])
                for j, (v, ex) in enumerate(zip(vs, lexs)):
                    if not self._lclose(v, ex):
                        fails.append((f"IMH(is_log=True) with proposal = density, element {j}: {v} is not the log of "
                                      f"the plain post-burn-in average {ex!r} of exp(func) over the kept proposals "
                                      f"{kept}", None))
                exs = []
            for j, (v, ex) in enumerate(zip(vs, exs)):
                if not close(v, ex):
                    el = f" (element {j})" if batch else ""
                    fails.append((f"IMH with proposal = density{el}: {float(F(v))} is not the plain post-burn-in "
                                  f"average {float(ex)} of f over the kept proposals {kept}", None))
            if impl["consumed"] != off + case["N"]:
                fails.append((f"IMH consumed {impl['consumed']} proposal draws, expected {off + case['N']}", None))
        return fails

    # ---------------------------------------------------------------- SRSWOR
    def _srswor_run(self, case):
        """run the real sampler with torch.bernoulli replaced; -> (b rows, ps rows, outcomes rows)"""
        import torch
        from pydrobert.torch.functional import simple_random_sampling_without_replacement as srs
        from pydrobert.torch.distributions import SimpleRandomSamplingWithoutReplacement as S
        base = case["elems"]
        elems = self._srswor_eff(case)
        queues = [list(e["bits"]) for e in elems]
        ps, outs = [[] for _ in elems], [[] for _ in elems]

        def bern(p, *a, **k):
            flat = p.reshape(-1).tolist()
            o = []
            for i, pi in enumerate(flat):
                if pi == 1:
                    x = 1.0
                elif pi == 0:
                    x = 0.0
                else:
                    x = float(queues[i].pop(0)) if queues[i] else 0.0
                ps[i].append(pi)
                outs[i].append(x)
                o.append(x)
            return torch.tensor(o, dtype=p.dtype).reshape(p.shape)
        # how the counts are handed over (round h): a vector per count (before), 0-dim tensors / python
        # ints (a single vector, no batch axis), a 0-dim total broadcast against a vector of givens
        counts = self._srswor_counts(case)
        if counts == "1d":
            total = torch.tensor([e["total"] for e in base])
            given = torch.tensor([e["given"] for e in base])
        elif counts == "bcast":
            total = torch.tensor(base[0]["total"])
            given = torch.tensor([e["given"] for e in base])
        else:
            total, given = torch.tensor(base[0]["total"]), torch.tensor(base[0]["given"])
        n = case.get("sample_n")
        info = {}
        with fam.torch_patched(bernoulli=bern):
            if case["via"] == "function":
                b = srs(total, given, *([] if case.get("out_omitted") else [case["out_size"]]))
            else:
                if counts == "int":
                    total, given = int(total), int(given)
                d = S(given, total, *([] if case.get("out_omitted") else [case["out_size"]]), validate_args=True)
                b = d.sample() if n is None else d.sample([n])
                info["in_support"] = d.support.check(b).reshape(-1).tolist()
                info["dist_shape"] = list(d.batch_shape) + list(d.event_shape)
        info["shape"] = list(b.shape)
        if b.numel() % len(elems) == 0 and b.numel():
            b = b.reshape(len(elems), -1)
        return b, ps, outs, info

    @staticmethod
    def _srswor_counts(case):
        """the form of the counts; anything but one vector per count needs what it says (normalised, so
        that a shrunk case stays well-formed)"""
        c = case.get("counts", "1d")
        el = case["elems"]
        if c in ("0dim", "int") and len(el) != 1:
            return "1d"
        if c == "bcast" and len({e["total"] for e in el}) != 1:
            return "1d"
        if c == "int" and case["via"] != "distribution":
            return "0dim"
        return c

    def _srswor_eff(self, case):
        """the vectors one call draws, in the order of the result's rows: sample shape [n] through the
        distribution = n rows per batch element (row k: the element's free draws rotated by k)"""
        n = case.get("sample_n") if case["via"] == "distribution" else None
        if n is None:
            return case["elems"]
        return [dict(e, bits=e["bits"][k % max(len(e["bits"]), 1):] + e["bits"][:k % max(len(e["bits"]), 1)])
                for k in range(n) for e in case["elems"]]

    def _srswor_shape(self, case):
        osz = case["out_size"] if case["out_size"] is not None else max(e["total"] for e in case["elems"])
        n = case.get("sample_n") if case["via"] == "distribution" else None
        batch = [] if self._srswor_counts(case) in ("0dim", "int") else [len(case["elems"])]
        return ([] if n is None else [n]) + batch + [osz], batch + [osz]

    def _impl_srswor(self, case):
        try:
            b, ps, outs, info = self._srswor_run(case)
        except RuntimeError as e:
            return {"error": "RuntimeError", "message": str(e)[:100]}
        except ValueError as e:
            return {"error": "ValueError", "message": str(e)[:100]}
        if b.dim() != 2:
            return {"b": None, "ps": [[fs(x) for x in r] for r in ps], **info}
        return {"b": [[fs(x) for x in r] for r in b.tolist()], "ps": [[fs(x) for x in r] for r in ps], **info}

    def _req_srswor(self, case):
        try:
            _, _, outs, _ = self._srswor_run(case)
        except Exception:
            outs = [[] for _ in self._srswor_eff(case)]
        if not any(outs):
            # nothing was drawn (error path): give the model as many outcomes as requested
            osz = case["out_size"] if case["out_size"] is not None else max(e["total"] for e in case["elems"])
            outs = [[0] * osz for _ in self._srswor_eff(case)]
        return {"op": "c19.srswor", "case": {"elems": [
            {"total": e["total"], "given": e["given"], "outcomes": [fs(x) for x in o]}
            for e, o in zip(self._srswor_eff(case), outs)]}}

    def _cmp_srswor(self, case, impl, model):
        merr = any("error" in m for m in model["elems"])
        if "error" in impl or merr:
            if ("error" in impl) != merr:
                return [f"error behaviour: impl={impl.get('error')} model_error={merr}"]
            return []
        out = []
        if impl["b"] is None:
            return [f"result of shape {impl['shape']}: not one row per vector drawn"]
        for i, m in enumerate(model["elems"]):
            if impl["b"][i] != m["bs"]:
                out.append(f"elem {i}: b impl={impl['b'][i]} model={m['bs']}")
            if [F(x) for x in impl["ps"][i]] != [F(x) for x in m["ps"]]:
                # p = ell / t is a float32 quotient: exact only when dyadic -> tolerance
                if not all(close(x, y, 1e-6) for x, y in zip(impl["ps"][i], m["ps"])):
                    out.append(f"elem {i}: probabilities impl={impl['ps'][i]} model={m['ps']}")
            if not m["consistent"]:
                out.append(f"elem {i}: model says the outcomes are not consistent with the probabilities")
        return out

    def _pred_srswor(self, case, impl, model):
        elems = self._srswor_eff(case)
        bad = any(e["given"] > e["total"] for e in elems) or (
            case["out_size"] is not None and case["out_size"] < max(e["total"] for e in elems))
        if bad:
            if "error" not in impl:
                return [("SRSWOR accepted given > total or out_size < total", None)]
            return []
        if "error" in impl:
            return [(f"SRSWOR raised {impl['error']} on admissible counts: {impl.get('message')}", None)]
        fails = []
        osz = case["out_size"] if case["out_size"] is not None else max(e["total"] for e in elems)
        want, dwant = self._srswor_shape(case)
        if impl["shape"] != want:
            fails.append((f"SRSWOR result shape {impl['shape']} != sample shape + broadcast shape of the counts + "
                          f"[out_size] = {want}", None))
        if "dist_shape" in impl and impl["dist_shape"] != dwant:
            fails.append((f"SRSWOR distribution batch_shape + event_shape {impl['dist_shape']} != {dwant}", None))
        if impl["b"] is None:
            return fails
        for i, e in enumerate(elems):
            row = [F(x) for x in impl["b"][i]]
            if any(x not in (0, 1) for x in row):
                fails.append((f"elem {i}: non-binary entries {row}", None))
            if sum(row[: e["total"]]) != e["given"]:
                fails.append((f"elem {i}: {sum(row[:e['total']])} ones inside total={e['total']}, "
                              f"requested {e['given']}", "C19.srswor.cardinality"))
            if any(x != 0 for x in row[e["total"]:]):
                fails.append((f"elem {i}: ones beyond total={e['total']}: {row}", "C19.srswor.outside_total"))
        if "in_support" in impl and not all(impl["in_support"]):
            fails.append(("SRSWOR sample not in the distribution's support", None))
        return fails

    # genuine seeds through the distribution object
    def _impl_srswor_dist(self, case):
        import torch
        from pydrobert.torch.distributions import SimpleRandomSamplingWithoutReplacement as S
        torch.manual_seed(case["seed"])
        d = S(case["given"], case["total"], case["out_size"])
        b = d.sample([8])
        out = {"ok": bool(d.support.check(b).all()), "sums": [int(x) for x in b[:, : case["total"]].sum(-1)],
               "tail": int(b[:, case["total"]:].abs().sum()),
               "binary": bool(((b == 0) | (b == 1)).all()), "shape": list(b.shape),
               "prob": fs(d.log_prob(b[0]).to(torch.float64).exp().item())}
        if case.get("enumerate", True):
            sup = d.enumerate_support()
            lp = d.log_prob(sup).to(torch.float64)
            out.update({"n_support": sup.shape[0], "psum": fs(lp.exp().sum().item())})
        return out

    def _req_srswor_dist(self, case):
        if not case.get("enumerate", True):
            return {"op": "c19.binom", "case": {"L": case["total"], "queries": [[case["total"], case["given"]]]}}
        return {"op": "c19.srswor_prob", "case": {"out_size": case["out_size"], "total": case["total"],
                                                  "given": case["given"]}}

    def _cmp_srswor_dist(self, case, impl, model):
        if not case.get("enumerate", True):
            # P = 1 / C(total, given) from float32 log-factorials: relative 1e-4 (sums of up to 257 logs)
            ex = Fr(1, model["binom"][0]) if model["binom"][0] else None
            if case["total"] <= 66 and ex is not None and not close(impl["prob"], ex, 1e-4):
                return [f"exp(log_prob) impl={float(F(impl['prob']))} model 1/binom={float(ex)}"]
            return []
        out = []
        if impl["n_support"] != model["n_support"] or impl["n_support"] != model["binom"]:
            out.append(f"|support| impl={impl['n_support']} model filter rows={model['n_support']} "
                       f"binom={model['binom']}")
        if not close(impl["prob"], model["prob"], 1e-5):
            out.append(f"exp(log_prob) impl={float(F(impl['prob']))} model={model['prob']}")
        if F(model["support_times_prob"]) != 1:
            out.append(f"model: |support| * P = {model['support_times_prob']}")
        return out

    def _pred_srswor_dist(self, case, impl, model):
        fails = []
        if (not impl["ok"] or impl["tail"] != 0 or not impl["binary"]
                or any(s != case["given"] for s in impl["sums"])):
            fails.append((f"SRSWOR sample (seed {case['seed']}) outside support: sums={impl['sums']} "
                          f"tail={impl['tail']} binary={impl['binary']}", None))
        if impl["shape"] != [8, case["out_size"]]:
            fails.append((f"SRSWOR sample shape {impl['shape']}", None))
        if not case.get("enumerate", True):
            return fails
        if impl["n_support"] != math.comb(case["total"], case["given"]):
            fails.append((f"|support| = {impl['n_support']} != C({case['total']},{case['given']})", None))
        if abs(float(F(impl["psum"])) - 1) > 1e-5:
            fails.append((f"SRSWOR probabilities over the support sum to {float(F(impl['psum']))}", None))
        if abs(impl["n_support"] * float(F(impl["prob"])) - 1) > 1e-5:
            fails.append((f"|support| * P(sample) = {impl['n_support'] * float(F(impl['prob']))}", None))
        return fails

    # operation sequences on one SRSWOR distribution object, derived objects (expand), batched counts
    def _sq_layout(self, case):
        """-> (batch shape at construction, final batch shape, out_size, total / given per entry of the
        final batch (python broadcasting: independent of torch))"""
        bsh = _bshape(case["tshape"], case["gshape"])
        final = list(case["expands"][-1]) if case.get("expands") else bsh
        n = self._prod(final)
        base = [_bindex(bsh, final, i) for i in range(n)]
        tot = [case["total"][_bindex(case["tshape"], bsh, j)] for j in base]
        giv = [case["given"][_bindex(case["gshape"], bsh, j)] for j in base]
        out = case["out_size"] if case["out_size"] is not None else max(case["total"])
        return bsh, final, out, tot, giv

    @staticmethod
    def _sq_valid(d):
        """a vector of the support of every batch element, from the object's own counts"""
        import torch
        out = d.event_shape[0]
        return (torch.arange(out) < d.given_count.unsqueeze(-1)).float()

    def _srswor_op(self, d, op):
        if op in ("log_partition", "mean", "variance", "stddev", "support", "has_enumerate_support",
                  "total_count", "given_count"):
            getattr(d, op)
        elif op == "shapes":
            d.batch_shape, d.event_shape
        elif op == "repr":
            repr(d)
        elif op in ("enumerate_support", "enumerate_support_noexpand"):
            try:
                d.enumerate_support(expand=op == "enumerate_support")
            except NotImplementedError:
                pass
        elif op == "sample":
            d.sample()
        elif op == "sample_n":
            d.sample([2])
        elif op == "log_prob":
            d.log_prob(self._sq_valid(d))
        elif op == "log_prob_n":
            d.log_prob(self._sq_valid(d).expand([2] + list(d.batch_shape) + list(d.event_shape)))
        else:
            raise ValueError(f"unknown operation {op}")

    def _sq_dist(self, case):
        import torch
        from pydrobert.torch.distributions import SimpleRandomSamplingWithoutReplacement as S
        total = torch.tensor(case["total"]).reshape(case["tshape"])
        given = torch.tensor(case["given"]).reshape(case["gshape"])
        if not case["tshape"] and case.get("validate"):
            total = int(total)            # the documented int form
        d = S(given, total, case["out_size"], validate_args=True if case.get("validate") else None)
        pending = [list(x) for x in case.get("expands") or []]
        torch.manual_seed(case["seed"])
        for op in case.get("history") or []:
            if op == "expand":
                d = d.expand(pending.pop(0) if pending else list(d.batch_shape))
            else:
                self._srswor_op(d, op)
        for shp in pending:
            d = d.expand(shp)
        return d

    def _impl_srswor_seq(self, case):
        import torch
        from pydrobert.torch.estimators import EnumerateEstimator
        d = self._sq_dist(case)
        out = d.event_shape[0]
        B = list(d.batch_shape)
        nB = self._prod(B)
        per = lambda t: t.reshape(nB, *t.shape[len(B):]) if len(t.shape) > len(B) else t.reshape(nB)
        f64 = lambda t: [fs(x) for x in t.to(torch.float64).reshape(-1).tolist()]
        res = {"batch_shape": B, "event_shape": list(d.event_shape),
               "total": [int(x) for x in d.total_count.reshape(-1).tolist()],
               "given": [int(x) for x in d.given_count.reshape(-1).tolist()],
               "has_enum": bool(d.has_enumerate_support)}
        valid = self._sq_valid(d)
        lp = d.log_prob(valid)
        res["lp_shape"] = list(lp.shape)
        res["prob"] = f64(lp.to(torch.float64).exp())
        sup_obj = d.support
        res["check_valid"] = [bool(x) for x in sup_obj.check(valid).reshape(-1).tolist()]
        flip = valid.clone()
        flip[..., 0] = 1 - flip[..., 0]
        res["check_flip"] = [bool(x) for x in sup_obj.check(flip).reshape(-1).tolist()]
        # the right number of ones, one of them at position `total` (beyond the element's length)
        tc = d.total_count.reshape(-1).tolist()
        gc = d.given_count.reshape(-1).tolist()
        bey = valid.clone().reshape(nB, out)
        can = []
        for i in range(nB):
            ok = gc[i] >= 1 and tc[i] < out
            can.append(ok)
            if ok:
                bey[i, gc[i] - 1] = 0
                bey[i, tc[i]] = 1
        chk = sup_obj.check(bey.reshape(B + [out])).reshape(-1).tolist()
        res["check_beyond"] = [bool(c) if ok else None for c, ok in zip(chk, can)]
        res["mean"] = [[fs(x) for x in r] for r in per(d.mean.to(torch.float64).expand(B + [out])).tolist()]
        torch.manual_seed(case["seed"] + 1)
        b = d.sample([3])
        res["sample_shape"] = list(b.shape)
        res["sample_ok"] = [bool(x) for x in sup_obj.check(b).all(0).reshape(-1).tolist()]
        rows = b.reshape(3, nB, out)
        res["sample_rows"] = [[[int(x) for x in rows[s, i].tolist()] for s in range(3)] for i in range(nB)]
        try:
            sup = d.enumerate_support()
            res["support"] = [[int(x) for x in r] for r in sup.reshape(sup.shape[0], nB, out)[:, 0].tolist()]
            res["support_shape"] = list(sup.shape)
            res["support_shape_noexpand"] = list(d.enumerate_support(expand=False).shape)
            res["support_rows_equal"] = bool((sup == sup.reshape(sup.shape[0], nB, out)[:, :1].reshape(
                [sup.shape[0]] + [1] * len(B) + [out])).all())
            res["sup_in_support"] = [bool(x) for x in sup_obj.check(sup).all(0).reshape(-1).tolist()]
            try:
                res["psum"] = f64(d.log_prob(sup).to(torch.float64).exp().sum(0).expand(B))
            except ValueError:          # validation: a row outside the support of some element
                res["psum"] = None
        except NotImplementedError:
            res["enum_error"] = "NotImplementedError"
        t = torch.tensor([float(F(x)) for x in case["f"]], dtype=torch.float64)
        w = torch.tensor([float(2 ** j) for j in range(out)])
        func = lambda bb: t[(bb * w).sum(-1).round().long()]
        try:
            est = EnumerateEstimator(d, func)
        except ValueError:
            res["est_error"] = "ValueError"
            return res
        try:
            v = est()
            res["est"] = f64(v)
            res["est_shape"] = list(v.shape)
        except ValueError:
            res["est"], res["est_shape"] = None, None
        return res

    def _req_srswor_seq(self, case):
        _, _, out, tot, giv = self._sq_layout(case)
        reqs = [{"op": "c19.srswor_prob", "case": {"out_size": out, "total": t, "given": g}}
                for t, g in zip(tot, giv)]
        if len(set(tot)) == 1 and len(set(giv)) == 1:
            reqs.append({"op": "c19.enum_card", "case": {"length": tot[0], "count": giv[0]}})
        oh = self._sq_model_hist(case)
        if oh is not None:
            bsh = _bshape(case["tshape"], case["gshape"])
            nb = self._prod(bsh)
            reqs.append({"op": "c19.srswor_obj", "case": {
                "shape": bsh, "out_size": out, "hist": oh,
                "total": [case["total"][_bindex(case["tshape"], bsh, j)] for j in range(nb)],
                "given": [case["given"][_bindex(case["gshape"], bsh, j)] for j in range(nb)]}})
        return {"op": "c19.multi", "case": {"reqs": reqs}}

    def _sq_model_hist(self, case):
        """the history for the Lean object model `SrsworObj` (reads of the lazy `log_partition`, expands
        by new LEADING axes); None when an expand of the case enlarges a size-1 axis (not in the model)"""
        cur = _bshape(case["tshape"], case["gshape"])
        pending = [list(x) for x in case.get("expands") or []]
        out = []

        def lead(target):
            nonlocal cur
            k = len(target) - len(cur)
            if k < 0 or target[k:] != cur:
                return False
            out.append(target[:k])
            cur = target
            return True
        for op in case.get("history") or []:
            if op == "expand":
                if not lead(pending.pop(0) if pending else list(cur)):
                    return None
            else:
                out += SRSWOR_READS.get(op, [])
        for t in pending:
            if not lead(t):
                return None
        return out

    def _cmp_srswor_seq(self, case, impl, model):
        _, _, out, tot, giv = self._sq_layout(case)
        reps = model["replies"]
        outl = []
        for i, (p, m) in enumerate(zip(impl["prob"], reps)):
            if not close(p, m["prob"], 1e-5):
                outl.append(f"element {i} (total={tot[i]}, given={giv[i]}): exp(log_prob) impl={float(F(p))} "
                            f"model={m['prob']}")
            if F(m["support_times_prob"]) != 1:
                outl.append(f"model: |support| * P = {m['support_times_prob']}")
        sup = [r for r in reps[len(tot):] if "support" in r]
        if sup and "support" in impl:
            exp = [r + [0] * (out - tot[0]) for r in sup[0]["support"]]
            if impl["support"] != exp:
                outl.append(f"enumerate_support impl={fam_short(impl['support'])} model={fam_short(exp)}")
        obj = [r for r in reps[len(tot):] if "cached" in r]
        if obj:
            # the object model after the same history: shapes, counts, exp(log_prob) per element
            o = obj[0]
            for nm in ("batch_shape", "total", "given"):
                if impl[nm] != o[nm]:
                    outl.append(f"object model: {nm} impl={impl[nm]} model={o[nm]}")
            if len(o["probs"]) != len(impl["prob"]) or not all(
                    close(a, b, 1e-5) for a, b in zip(impl["prob"], o["probs"])):
                outl.append(f"object model: exp(log_prob) impl={[float(F(x)) for x in impl['prob']]} "
                            f"model={o['probs']}")
        return outl[:6]

    def _pred_srswor_seq(self, case, impl, model):
        bsh, final, out, tot, giv = self._sq_layout(case)
        head = (f"SimpleRandomSamplingWithoutReplacement(given {case['given']} of shape {case['gshape']}, total "
                f"{case['total']} of shape {case['tshape']}, out_size={case['out_size']})"
                + (f" after the operations {case['history']}" if case.get("history") else "")
                + (f", expanded to {case['expands']}" if case.get("expands") else ""))
        fails = []
        if impl["batch_shape"] != final or impl["event_shape"] != [out]:
            fails.append((f"{head}: batch_shape {impl['batch_shape']}, event_shape {impl['event_shape']}; expected "
                          f"{final}, {[out]}", None))
            return fails
        if impl["total"] != tot or impl["given"] != giv:
            fails.append((f"{head}: total_count {impl['total']}, given_count {impl['given']}; the broadcast / "
                          f"expanded counts are {tot}, {giv}", None))
            return fails
        n = len(tot)
        enumerable = len(set(tot)) == 1 and len(set(giv)) == 1
        if impl["has_enum"] != enumerable:
            fails.append((f"{head}: has_enumerate_support is {impl['has_enum']} for total_count {tot}, given_count "
                          f"{giv} (the support can be enumerated only if all totals are equal and all given counts "
                          f"are equal)", None))
        if impl["lp_shape"] != final:
            fails.append((f"{head}: log_prob of a tensor of shape batch + event has shape {impl['lp_shape']}", None))
        for i in range(n):
            el = f"element {i} (total={tot[i]}, given={giv[i]}) of {head}"
            c = math.comb(tot[i], giv[i])
            if abs(c * float(F(impl["prob"][i])) - 1) > 1e-5:
                fails.append((f"{el}: exp(log_prob) = {float(F(impl['prob'][i]))!r}, |support| = C(total, given) = "
                              f"{c}: the probabilities over the support do not sum to one", None))
            if not impl["check_valid"][i] or impl["check_flip"][i] or impl["check_beyond"][i]:
                fails.append((f"{el}: support.check says {impl['check_valid'][i]} for a vector with `given` ones "
                              f"inside `total`, {impl['check_flip'][i]} for one with a different number of ones, "
                              f"{impl['check_beyond'][i]} for one with a one beyond `total`", None))
            want = [Fr(giv[i], max(tot[i], 1)) if j < tot[i] else Fr(0) for j in range(out)]
            if not all(close(x, y, 1e-6) for x, y in zip(impl["mean"][i], want)):
                fails.append((f"{el}: mean {[float(F(x)) for x in impl['mean'][i]]} != given / total inside "
                              f"total, 0 beyond", None))
            for r in impl["sample_rows"][i]:
                if any(x not in (0, 1) for x in r) or sum(r[: tot[i]]) != giv[i] or any(r[tot[i]:]):
                    fails.append((f"{el}: sample {r} is not a binary vector with {giv[i]} ones inside the first "
                                  f"{tot[i]} positions", None))
                    break
            if not impl["sample_ok"][i]:
                fails.append((f"{el}: a sample is outside the distribution's own support", None))
        if impl["sample_shape"] != [3] + final + [out]:
            fails.append((f"{head}: sample([3]) has shape {impl['sample_shape']}", None))
        table = lambda r: F(case["f"][sum(b << j for j, b in enumerate(r))])
        if "support" in impl:
            # whatever has_enumerate_support said: what enumerate_support returns must be the support of
            # EVERY batch element, and the estimator built on it the exact expectation per element
            for i in range(n):
                el = f"element {i} (total={tot[i]}, given={giv[i]}) of {head}"
                want = sorted(list(b) + [0] * (out - tot[i]) for b in itertools.product([0, 1], repeat=tot[i])
                              if sum(b) == giv[i])
                if sorted(impl["support"]) != want or not impl["support_rows_equal"]:
                    fails.append((f"{el}: enumerate_support returns {fam_short(impl['support'], 80)}, which is not "
                                  f"the set of vectors of this element's support", None))
                elif not impl["sup_in_support"][i]:
                    fails.append((f"{el}: enumerate_support yields a vector outside support", None))
                if impl["psum"] is None:
                    if not any("rejects the enumerated support" in w for w, _ in fails):
                        fails.append((f"{head}: log_prob rejects the enumerated support (ValueError)", None))
                elif abs(float(F(impl["psum"][i])) - 1) > 1e-5:
                    fails.append((f"{el}: the probabilities over the enumerated support sum to "
                                  f"{float(F(impl['psum'][i]))!r}", None))
                if impl.get("est") is not None and i < len(impl["est"]):
                    ex = sum(table(r) for r in want) / len(want)
                    if abs(F(impl["est"][i]) - ex) > Fr(1, 10 ** 5) * max(1, abs(ex)):
                        fails.append((f"{el}: EnumerateEstimator returns {float(F(impl['est'][i]))!r}, E f = "
                                      f"{float(ex)!r}", None))
                if len(fails) >= 6:
                    break
            nsup = len(impl["support"])
            if impl["support_shape"] != [nsup] + final + [out] or impl["support_shape_noexpand"] != (
                    [nsup] + [1] * len(final) + [out]):
                fails.append((f"{head}: enumerate_support has shape {impl['support_shape']} / "
                              f"{impl['support_shape_noexpand']} (expand=False)", None))
            if "est" in impl and impl["est_shape"] != final:
                fails.append((f"{head}: EnumerateEstimator returns shape {impl['est_shape']}"
                              + (" (ValueError inside the call)" if impl["est"] is None else ""), None))
        if enumerable and ("support" not in impl or "est" not in impl):
            fails.append((f"{head}: enumerate_support / EnumerateEstimator refuse ({impl.get('enum_error')}, "
                          f"{impl.get('est_error')}) although all counts are equal", None))
        if not enumerable and ("support" in impl or "est" in impl) and not fails:
            fails.append((f"{head}: the counts differ over the batch but enumerate_support / EnumerateEstimator "
                          f"do not refuse", None))
        return fails[:8]

    # ---------------------------------------------------------------- binomial / enumerate_*
    def _impl_binom(self, case):
        import torch
        from pydrobert.torch.functional import binomial_coefficient
        q = torch.tensor(case["queries"])
        return {"binom": binomial_coefficient(q[:, 0], q[:, 1]).tolist()}

    def _req_binom(self, case):
        return {"op": "c19.binom", "case": {"L": case["L"], "queries": case["queries"]}}

    def _cmp_binom(self, case, impl, model):
        bad = [(q, a, b) for q, a, b in zip(case["queries"], impl["binom"], model["binom"]) if a != b]
        return [f"binomial_coefficient{tuple(q)}: impl={a} model={b} ({model['branch']} branch)"
                for q, a, b in bad[:4]]

    def _pred_binom(self, case, impl, model):
        bad = [(q, a) for q, a in zip(case["queries"], impl["binom"]) if a != math.comb(q[0], q[1])]
        return [(f"binomial_coefficient({q[0]}, {q[1]}) = {a}, expected {math.comb(q[0], q[1])}", None)
                for q, a in bad[:4]]

    def _impl_enum_vocab(self, case):
        from pydrobert.torch.functional import enumerate_vocab_sequences, enumerate_binary_sequences
        s = enumerate_vocab_sequences(case["length"], case["V"])
        out = {"support": s.tolist(), "shape": list(s.shape)}
        if case["V"] == 2:
            out["binary_same"] = enumerate_binary_sequences(case["length"]).tolist() == out["support"]
        return out

    def _req_enum_vocab(self, case):
        return {"op": "c19.enum_vocab", "case": {"length": case["length"], "V": case["V"]}}

    def _cmp_enum_vocab(self, case, impl, model):
        return [] if impl["support"] == model["support"] else [
            f"enumerate_vocab_sequences impl={impl['support'][:6]}.. model={model['support'][:6]}.."]

    def _pred_enum_vocab(self, case, impl, model):
        want = sorted(list(t) for t in itertools.product(range(case["V"]), repeat=case["length"]))
        fails = []
        if sorted(impl["support"]) != want:
            fails.append(("enumerate_vocab_sequences does not list every sequence exactly once", None))
        if impl["shape"] != [case["V"] ** case["length"], case["length"]]:
            fails.append((f"shape {impl['shape']}", None))
        if impl.get("binary_same") is False:
            fails.append(("enumerate_binary_sequences != enumerate_vocab_sequences(., 2)", None))
        return fails

    def _impl_enum_card(self, case):
        from pydrobert.torch.functional import enumerate_binary_sequences_with_cardinality as e
        return {"support": e(case["length"], case["count"]).tolist()}

    def _req_enum_card(self, case):
        return {"op": "c19.enum_card", "case": {"length": case["length"], "count": case["count"]}}

    def _cmp_enum_card(self, case, impl, model):
        return [] if impl["support"] == model["support"] else [
            f"enumerate_binary_sequences_with_cardinality impl={impl['support']} model={model['support']}"]

    def _pred_enum_card(self, case, impl, model):
        want = sorted(list(t) for t in itertools.product([0, 1], repeat=case["length"])
                      if sum(t) == case["count"])
        fails = []
        if sorted(impl["support"]) != want:
            fails.append(("cardinality enumeration is not the set of sequences with that sum", None))
        if len(impl["support"]) != math.comb(case["length"], case["count"]):
            fails.append(("cardinality enumeration does not have C(length, count) rows", None))
        return fails

    def _impl_enum_card_tensor(self, case):
        import torch
        from pydrobert.torch.functional import enumerate_binary_sequences_with_cardinality as e
        q = torch.tensor(case["queries"])
        sup, binom = e(q[:, 0], q[:, 1])
        rows = []
        for i, (n, k) in enumerate(case["queries"]):
            rows.append(sup[i, : int(binom[i])].tolist())
        return {"supports": rows, "binom": binom.tolist(), "shape": list(sup.shape)}

    def _req_enum_card_tensor(self, case):
        return {"op": "c19.enum_card_tensor", "case": {"lmax": case["lmax"], "queries": case["queries"]}}

    def _cmp_enum_card_tensor(self, case, impl, model):
        out = []
        for q, a, b in zip(case["queries"], impl["supports"], model["supports"]):
            if a != b:
                out.append(f"query {q}: valid rows impl={a} model={b}")
        return out[:4]

    def _pred_enum_card_tensor(self, case, impl, model):
        fails = []
        lmax = case["lmax"]
        for (n, k), rows, bn in zip(case["queries"], impl["supports"], impl["binom"]):
            want = sorted(list(t) + [0] * (lmax - n) for t in itertools.product([0, 1], repeat=n) if sum(t) == k)
            if bn != math.comb(n, k) or sorted(rows) != want:
                fails.append((f"tensor cardinality enumeration wrong for (length={n}, count={k})", None))
        return fails[:4]

    # ---------------------------------------------------------------- relaxed Bernoulli
    @staticmethod
    def _tdtype(case):
        import torch
        return {"float64": torch.float64, "float32": torch.float32}[case.get("dtype", "float64")]

    # ---- operation sequences on one object (see RELAXED_OPS)
    def _relaxed_op(self, d, op, dt):
        """one operation of a history on a relaxed distribution object; the result is dropped.  Fixed
        arguments, so that each operation reads exactly the attributes its code reads (csample:
        `probs` only; log_prob / tlog_prob: `logits` only)."""
        import torch
        shp = list(d.batch_shape) + list(d.event_shape)
        if len(d.event_shape):
            V = d.event_shape[0]
            z0 = (torch.arange(V, dtype=dt).flip(-1) / 4).expand(shp).clone()
            b0 = torch.nn.functional.one_hot(torch.tensor(0), V).to(dt).expand(shp).clone()
            other = torch.roll(b0, 1, -1)
            wts = torch.arange(V, dtype=dt)
            f = lambda b: (b * wts).sum(-1)
            cv = lambda z: (torch.softmax(z, -1) * wts).sum(-1)
        else:
            z0 = torch.full(shp, 0.5, dtype=dt)
            b0 = torch.ones(shp, dtype=dt)
            other = 1 - b0
            f = lambda b: b
            cv = lambda z: torch.sigmoid(z)
        if op in ("probs", "logits", "mean", "variance", "stddev", "support"):
            getattr(d, op)
        elif op == "entropy":
            d.entropy()
        elif op == "shapes":
            d.batch_shape, d.event_shape, d.thresholded_support, d.has_rsample, d.has_enumerate_support
        elif op == "repr":
            repr(d)
        elif op == "rsample":
            d.rsample()
        elif op == "rsample_n":
            d.rsample([2])
        elif op == "sample":
            d.sample()
        elif op == "threshold":
            d.threshold(z0)
        elif op == "threshold_st":
            d.threshold(z0.clone().requires_grad_(True), True)
        elif op == "log_prob":
            d.log_prob(z0)
        elif op == "tlog_prob":
            d.tlog_prob(b0)
        elif op == "csample":
            d.csample(b0)
        elif op == "clog_prob":
            d.clog_prob(z0, b0)
        elif op == "clog_prob_other":
            d.clog_prob(z0, other)
        elif op == "enumerate_support":
            try:
                d.enumerate_support()
            except NotImplementedError:
                pass
        elif op == "relax":
            from pydrobert.torch.estimators import RelaxEstimator
            RelaxEstimator(d, f, 2, cv)()
        elif op == "st":
            from pydrobert.torch.estimators import StraightThroughEstimator
            StraightThroughEstimator(d, f, 2)()
        else:
            raise ValueError(f"unknown operation {op}")

    def _derive(self, d, case, event=0):
        """run case['history'] on the object `d` (results dropped), deriving new objects with `expand`
        where the history says so, then apply what is left of case['expand'] (leading axes, innermost
        first).  -> the object the case observes"""
        import torch
        hist = case.get("history") or []
        shape = list(case["shape"][: len(case["shape"]) - event])
        pending = list(case.get("expand") or [])
        done = []
        dt = self._tdtype(case)
        rand = lambda *a, **k: torch.full(tuple(a[0]) if a and not isinstance(a[0], int) else tuple(a), 0.375,
                                          dtype=k.get("dtype", dt))
        rand_like = lambda t, **k: torch.full_like(t, 0.625)
        with fam.torch_patched(rand=rand, rand_like=rand_like):
            for op in hist:
                if op == "expand":
                    if pending:
                        done.insert(0, pending.pop())
                    d = d.expand(done + shape)
                elif op == "edit":      # the tensor the FIRST object was constructed from is edited in place
                    with torch.no_grad():
                        self._edit_t.copy_(torch.tensor([fam.fl(x) for x in case["new_values"]], dtype=dt).reshape(
                            self._edit_t.shape))
                else:
                    self._relaxed_op(d, op, dt)
        if pending:
            d = d.expand(pending + done + shape)
        return d

    @staticmethod
    def _model_hist(case):
        """the history as the Lean object model reads it: reads of `probs` / `logits` and expands by
        new leading axes (same bookkeeping as `_derive`)"""
        pending = list(case.get("expand") or [])
        out = []
        for op in case.get("history") or []:
            if op == "expand":
                out.append([pending.pop()] if pending else [])
            else:
                out += RELAXED_READS.get(op, [])
        if pending:
            out.append(pending)
        return out

    def _fresh_twin(self, case, cls, event=0):
        """a freshly constructed distribution of the EXPANDED parameter (no history, no expand call):
        what `C19_params_lb_expand` / `C19_params_cat_expand` say the derived object must be"""
        import torch
        dt = self._tdtype(case)
        t = torch.tensor([fam.fl(x) for x in case["values"]], dtype=dt).reshape(case["shape"])
        t = t.expand(list(case.get("expand") or []) + list(case["shape"])).clone()
        return cls(**{case["param"]: t}, validate_args=True if case.get("validate") else None)

    def _pred_fresh(self, head, impl, dtn, vec=False):
        """the derived object against the fresh twin: every observed quantity, entry by entry (discrete
        outcomes only where the relaxed samples they are taken of are bit-equal)"""
        fr = impl.get("fresh")
        if fr is None:
            return []
        tol = (TOL_G if vec else TOL_D)[dtn]
        fails = []
        for nm in ("batch_shape", "event_shape", "shapes"):
            if impl[nm] != fr[nm]:
                fails.append((f"{head}: {nm} {impl[nm]}, a freshly constructed distribution of the expanded "
                              f"parameter has {fr[nm]}", None))
        flo = lambda x: [flo(y) for y in x] if isinstance(x, list) else (
            float(F(x)) if isinstance(x, str) and x not in SPECIALS and x[:5] != "float" else x)
        for nm, key in (("probs", "dprobs"), ("logits", "dlogits")):
            bad = [i for i, (a, b) in enumerate(zip(impl[key], fr[key])) if not self._fclose(a, b, tol)]
            if bad or len(impl[key]) != len(fr[key]):
                i = bad[0] if bad else 0
                fails.append((f"{head}: `{nm}` of the derived object is {fam_short(flo(impl[key]), 80)}, of a "
                              f"freshly constructed distribution of the expanded parameter "
                              f"{fam_short(flo(fr[key]), 80)} (entry {i})", None))
        def eq(k, x, y):
            if isinstance(x, list):
                return isinstance(y, list) and len(x) == len(y) and all(eq(k, p, q) for p, q in zip(x, y))
            if isinstance(x, bool) or isinstance(y, bool) or k.endswith("out_dtype"):
                return x == y
            return self._fclose(x, y, tol)
        # discrete outcomes (and what is computed from them) are compared only where the relaxed sample
        # they are taken of is bit-equal on both objects
        dep = {"b": "z", "b_st": "z", "tlog": "z", "clog": "z", "c0.thr": "c0.zc", "c0.clog": "c0.zc",
               "c0.clog_other": "c0.zc", "c1.thr": "c1.zc", "c1.clog": "c1.zc", "c1.clog_other": "c1.zc",
               "thr_zc": "zc", "clog_zc": "zc", "clog_other": "zc", "in_support": "z"}
        flat = lambda e: {**{k: v for k, v in e.items() if not isinstance(v, dict)},
                          **{f"{c}.{k}": v for c in ("c0", "c1") if c in e for k, v in e[c].items()}}
        seen = set()
        for n, (a, b) in enumerate(zip(impl["elems"], fr["elems"])):
            a, b = flat(a), flat(b)
            for k in a:
                if k in seen or k not in b or (k in dep and a[dep[k]] != b[dep[k]]):
                    continue
                if not eq(k, a[k], b[k]):
                    seen.add(k)
                    fails.append((f"{'row' if vec else 'entry'} {n} of {head}: `{k}` is {fam_short(flo(a[k]), 60)} "
                                  f"on the derived object and {fam_short(flo(b[k]), 60)} on a freshly constructed "
                                  f"distribution of the expanded parameter (same draws)", None))
        return fails[:6]

    def _bern_dist(self, case):
        import torch
        from pydrobert.torch.distributions import LogisticBernoulli
        dt = self._tdtype(case)
        if "value" not in case:         # cases written before the parameter was given directly
            lg = torch.tensor([float(F(case["logit"]))], dtype=dt)
            return LogisticBernoulli(logits=lg) if case["param"] == "logits" else LogisticBernoulli(
                probs=torch.sigmoid(lg))
        val = torch.tensor([float(F(case["value"]))], dtype=dt)
        va = True if case.get("validate") else None
        if case["param"] == "logits":
            return LogisticBernoulli(logits=val, validate_args=va)
        if case["param"] == "sigmoid":
            return LogisticBernoulli(probs=torch.sigmoid(val), validate_args=va)
        return LogisticBernoulli(probs=val, validate_args=va)

    @staticmethod
    def _rnd(x, dtn):
        """python float as the dtype holds it"""
        import struct
        x = fam.fl(x)
        return struct.unpack("f", struct.pack("f", x))[0] if dtn == "float32" else x

    def _lb_observe(self, d, dtn, U, Vv, sample, pexp):
        """everything the check looks at, for a LogisticBernoulli of any batch shape: U, Vv (shape
        sample + batch) replace torch.rand / torch.rand_like; pexp: per entry (flat, sample + batch)
        the probability the distribution is MEANT to have (oracle, float).  -> list of per-entry
        observations + tensor-level facts."""
        import torch
        dt = U.dtype
        asked = []

        def rand(*a, **k):
            asked.append(list(a[0]) if a and not isinstance(a[0], int) else list(a))
            return U.clone()
        fl = lambda t: [fs(x) for x in t.reshape(-1).tolist()]
        eps = Fr(EPS[dtn])
        margin = Fr(1, 1 << 30) if dtn == "float64" else Fr(1, 1 << 10)
        vflat = [Fr(x) for x in Vv.reshape(-1).tolist()]
        # the reparametrisation identity (C19_csample_reparam): csample(b, v) is the relaxed sample at
        # the uniform point u_b(v) of the region of b, u_1 = 1 - p + p v, u_0 = (1 - p)(1 - v).
        # Evaluated where no clamp is active and u_b(v) is clear of 0 and 1 (conditioning of z(u)).
        ub = {0: [], 1: []}
        for pe, v in zip(pexp, vflat):
            pq = Fr(pe)
            ok = eps <= pq <= 1 - eps and eps <= v <= 1 - eps
            for bb, u in ((1, 1 - pq + pq * v), (0, (1 - pq) * (1 - v))):
                ub[bb].append(u if ok and min(u, 1 - u) >= margin else None)
        with fam.torch_patched(rand=rand, rand_like=lambda *a, **k: Vv.clone()):
            z = d.rsample(sample)
            b = d.threshold(z)
            cols = {"z": fl(z), "b": fl(b), "b_st": fl(d.threshold(z, True)), "logprob": fl(d.log_prob(z)),
                    "tlog": fl(d.tlog_prob(b)), "clog": fl(d.clog_prob(z, b))}
            shapes = {"z": list(z.shape), "b": list(b.shape), "tlog": list(d.tlog_prob(b).shape),
                      "logprob": list(d.log_prob(z).shape), "rand": asked[0] if asked else None}
            batch = list(d.batch_shape)
            bc = lambda t: fl(t.expand(z.shape))
            cols["logit"], cols["p"] = bc(d.logits), bc(d.probs)
            in_sup = bool(d.support.check(z).all())
            cc = {}
            for bb in (0, 1):
                bt = torch.full_like(z, float(bb))
                zc = d.csample(bt)
                shapes[f"zc{bb}"] = list(zc.shape)
                cc[bb] = {"zc": fl(zc), "thr": fl(d.threshold(zc)), "clog": fl(d.clog_prob(zc, bt)),
                          "tlog": fl(d.tlog_prob(bt)), "logprob_zc": fl(d.log_prob(zc)),
                          "clog_other": fl(d.clog_prob(zc, 1 - bt)),
                          "in_support": [bool(x) for x in d.support.check(zc).reshape(-1).tolist()],
                          "out_dtype": str(zc.dtype)[6:]}
        for bb in (0, 1):
            Ub = torch.tensor([0.5 if u is None else float(u) for u in ub[bb]], dtype=dt).reshape(U.shape)
            with fam.torch_patched(rand=lambda *a, **k: Ub.clone()):
                zu = fl(d.rsample(sample))
            cc[bb]["z_ub"] = [None if u is None else x for u, x in zip(ub[bb], zu)]
        elems = []
        for n in range(len(cols["z"])):
            e = {k: v[n] for k, v in cols.items()}
            e["in_support"] = in_sup
            e["out_dtype"] = str(z.dtype)[6:]
            for bb in (0, 1):
                e[f"c{bb}"] = {k: (v[n] if isinstance(v, list) else v) for k, v in cc[bb].items()}
            elems.append(e)
        return elems, {"shapes": shapes, "batch_shape": batch, "event_shape": list(d.event_shape)}

    def _impl_bern(self, case):
        import torch
        d = self._bern_dist(case)
        dt = self._tdtype(case)
        dtn = case.get("dtype", "float64")
        u = torch.tensor([float(F(case["u"]))], dtype=dt)
        v = torch.tensor([float(F(case["v"]))], dtype=dt)
        elems, _ = self._lb_observe(d, dtn, u, v, (), [self._lb_expected(case)[0]])
        return elems[0]

    def _lb_expected(self, case):
        """(probs, logits) a one-variable `bern` case is meant to have"""
        dtn = case.get("dtype", "float64")
        if "value" not in case:
            lg = self._rnd(case["logit"], dtn)
            return _sigmoid(lg), lg
        val = self._rnd(case["value"], dtn)
        if case["param"] == "sigmoid":
            import torch
            val = torch.sigmoid(torch.tensor([val], dtype=self._tdtype(case))).item()
        return expected_lb("logits" if case["param"] == "logits" else "probs", val, dtn)

    def _req_bern(self, case):
        # the parameters and draws go to the model RAW (as the dtype holds them); clamp_probs is part
        # of the model (lbRsampleC / lbCsampleC)
        import torch
        d = self._bern_dist(case)
        dt = self._tdtype(case)
        rnd = lambda x: torch.tensor([float(F(x))], dtype=dt).item()
        return {"op": "c19.bern", "case": {
            "logit": fs(d.logits.item()), "p": fs(d.probs.item()),
            "u": fs(rnd(case["u"])), "v": fs(rnd(case["v"])), "eps": fs(EPS[case.get("dtype", "float64")])}}

    @staticmethod
    def _fclose(a, b, tol=1e-9):
        if a in ("inf", "-inf", "nan") or b in ("inf", "-inf", "nan") or a is None or b is None:
            a = {None: "-inf"}.get(a, a)
            b = {None: "-inf"}.get(b, b)
            return a == b
        return close(a, b, tol)

    @staticmethod
    def _finite(x):
        return x is not None and x not in SPECIALS

    def _st_same(self, b_st, b, z, tol):
        """threshold(z, True) = (b + z) - z.detach() is b up to the rounding of b + z"""
        if not (self._finite(b_st) and self._finite(b) and self._finite(z)):
            return b_st == b
        return abs(F(b_st) - F(b)) <= Fr(tol) * max(1, abs(F(z)))

    def _lb_overflow(self, case, impl, zkey):
        """the specific float32 defect (finding C19.logistic_bernoulli.float32_exp_overflow): log_prob /
        clog_prob compute log(1 + exp(x)) as x.exp().log1p(), and exp overflows binary32 for
        x = logits or x = logits - z above 88.72 although the log-density itself is of moderate size."""
        if case.get("dtype", "float64") != "float32":
            return False
        l = float(F(impl["logit"]))
        zs = impl[zkey]["zc"] if zkey in ("c0", "c1") else impl["z"]
        if not self._finite(zs):
            return False
        return l > F32_EXP_MAX or l - float(F(zs)) > F32_EXP_MAX

    def _cmp_bern(self, case, impl, model):
        out = []
        tol = TOL_D[case.get("dtype", "float64")]
        ovf = self._lb_overflow(case, impl, "z")
        keys = ["z"] + ([] if ovf else ["logprob"])
        # the discrete outcome b = H(z), and what depends on it, only when z is clear of 0 by more
        # than the tolerance (margin rule)
        if self._finite(model["z"]) and abs(F(model["z"])) > 10 * Fr(tol):
            keys += ["b", "tlog"] + ([] if ovf else ["clog"])
        for k in keys:
            if not self._fclose(impl[k], model[k], tol):
                out.append(f"{k}: impl={impl[k]} model={model[k]}")
        for c in ("c0", "c1"):
            ovf = self._lb_overflow(case, impl, c)
            for k in ["zc", "thr", "tlog"] + ([] if ovf else ["clog", "logprob_zc"]):
                if not self._fclose(impl[c][k], model[c][k], tol):
                    out.append(f"{c}.{k}: impl={impl[c][k]} model={model[c][k]}")
        return out[:6]

    def _factor_fail(self, tol, lp, tl, cl):
        """log p(z) = log P(b) + log p(z | b), all three finite: None if it holds, else a description"""
        if not (self._finite(lp) and self._finite(tl) and self._finite(cl)):
            return f"not finite: log_prob = {lp}, tlog_prob = {tl}, clog_prob = {cl}"
        d = abs(F(tl) + F(cl) - F(lp))
        if d > Fr(tol) * max(1, abs(F(lp))):
            return f"log_prob = {float(F(lp))!r} != tlog_prob + clog_prob = {float(F(tl))!r} + {float(F(cl))!r}"
        return None

    def _pred_bern(self, case, impl, model):
        fails = []
        dtn = case.get("dtype", "float64")
        tol = TOL_D[dtn]
        head = f"LogisticBernoulli({case['param']}={case.get('value', case.get('logit'))}, {dtn})"
        osig = "C19.logistic_bernoulli.float32_exp_overflow"
        if impl["out_dtype"] != dtn:
            fails.append((f"{head}: rsample returns {impl['out_dtype']}", None))
        # what `probs` and `logits` mean, whichever the distribution was constructed with:
        # probs = sigmoid(logits) of ONE variable (python oracle from the case's own parameter)
        pe, le = self._lb_expected(case)
        params_ok = True
        for nm, got, want in (("probs", impl["p"], pe), ("logits", impl["logit"], le)):
            if not pclose(got, want, dtn, nm):
                params_ok = False
                fails.append((f"{head}: the distribution's `{nm}` is {float(F(got)) if self._finite(got) else got!r}"
                              f", but this construction denotes {nm} = {want!r} (probs = sigmoid(logits) "
                              f"entry by entry)", None))
        if not self._finite(impl["z"]) or not impl["in_support"]:
            fails.append((f"{head}: rsample(u={case['u']}) = {impl['z']} is outside the support (the reals)", None))
        for bb in (0, 1):
            c = impl[f"c{bb}"]
            if not self._finite(c["zc"]) or not c["in_support"]:
                fails.append((f"{head}: csample(b={bb}, v={case['v']}) = {c['zc']} is outside the support "
                              f"(the reals)", None))
                continue
            if F(c["thr"]) != bb:
                fails.append((f"{head}: threshold(csample(b={bb})) = {c['thr']} (zcond={c['zc']})", None))
            if model is not None and not self._fclose(c["zc"], model[f"c{bb}"]["zc_spec"], TOL_SPEC[dtn]):
                # the specific known behaviour: a logits-parametrised distribution whose sigmoid(logits)
                # lies outside [eps, 1 - eps]; csample then follows the CLAMPED probability (= the model)
                # (the clamp is active for |logits| > log((1 - eps) / eps): 36.04 / 15.94; `probs` itself
                # must be what the construction denotes, otherwise it is a different defect)
                lim = math.log((1 - EPS[dtn]) / EPS[dtn])
                known = (case["param"] == "logits" and abs(le) > lim and params_ok
                         and self._fclose(c["zc"], model[f"c{bb}"]["zc"], tol))
                fails.append((f"{head}: csample(b={bb}, v={case['v']}) = {float(F(c['zc']))!r} is not the relaxed "
                              f"sample at the uniform point of the region of b, "
                              f"{float(F(model[f'c{bb}']['zc_spec']))!r} (it is drawn from the distribution with probs "
                              f"clamped to [eps, 1-eps])", SIG_CLAMP if known else None))
            # the LAW of the conditional sample, on the implementation alone: csample(b, v) must be the
            # relaxed sample rsample draws at the uniform point u_b(v) of the region of b
            zu = c.get("z_ub")
            if zu is not None:
                want = F(zu) + (Fr(EPS[dtn]) if bb == 1 else 0) if self._finite(zu) else None
                if want is None or abs(F(c["zc"]) - want) > Fr(TOL_SPEC[dtn]) * max(1, abs(want)):
                    fails.append((f"{head}: csample(b={bb}, v={case['v']}) = {float(F(c['zc']))!r} but rsample at the "
                                  f"uniform point u_b(v) of the region of b gives {zu if want is None else float(want)!r}"
                                  f": the conditional sample does not have the law of the relaxed sample given "
                                  f"H(z) = b", None))
            why = self._factor_fail(tol, c["logprob_zc"], c["tlog"], c["clog"])
            if why:
                sig = osig if self._lb_overflow(case, impl, f"c{bb}") and "not finite" in why else None
                fails.append((f"{head}: factorisation at zcond = csample(b={bb}, v={case['v']}): {why}", sig))
            if c["clog_other"] != "-inf":
                sig = osig if self._lb_overflow(case, impl, f"c{bb}") and not self._finite(c["clog_other"]) else None
                fails.append((f"{head}: clog_prob(zcond, 1-b) = {c['clog_other']}, expected -inf", sig))
        if "b_st" in impl and not self._st_same(impl["b_st"], impl["b"], impl["z"], tol):
            fails.append((f"{head}: threshold(z, straight_through=True) = {impl['b_st']} differs in value from "
                          f"threshold(z) = {impl['b']}", None))
        if self._finite(impl["z"]):
            why = self._factor_fail(tol, impl["logprob"], impl["tlog"], impl["clog"])
            if why:
                sig = osig if self._lb_overflow(case, impl, "z") and "not finite" in why else None
                fails.append((f"{head}: factorisation at z = rsample(u={case['u']}), b = H(z): {why}", sig))
        return fails

    # ---------------------------------------------------------------- relaxed Bernoulli as a tensor
    @staticmethod
    def _prod(l):
        n = 1
        for x in l:
            n *= x
        return n

    def _nd_layout(self, case, event=0):
        """-> (batch shape after expand, number of parameter entries/rows, entries/rows of the batch,
        entries/rows of a sample): a tensor of shape sample + batch [+ event] meets, at flat entry/row n,
        the constructor's entry/row (n % nB) % nb (expand adds LEADING axes)."""
        shape = case["shape"][: len(case["shape"]) - event]
        batch = list(case.get("expand") or []) + list(shape)
        nb, nB = self._prod(shape), self._prod(batch)
        return batch, nb, nB, nB * self._prod(case.get("sample") or [])

    def _bern_nd_dist(self, case):
        import torch
        from pydrobert.torch.distributions import LogisticBernoulli
        dt = self._tdtype(case)
        t = torch.tensor([fam.fl(x) for x in case["values"]], dtype=dt).reshape(case["shape"])
        d = LogisticBernoulli(**{case["param"]: t}, validate_args=True if case.get("validate") else None)
        return self._derive(d, case)

    def _bern_nd_elem(self, case, n):
        """the one-variable case entry n of the tensors is an instance of"""
        _, nb, nB, _ = self._nd_layout(case)
        return {"kind": "bern", "param": case["param"], "value": case["values"][(n % nB) % nb],
                "dtype": case["dtype"], "u": case["us"][n], "v": case["vs"][n], "validate": case.get("validate")}

    def _impl_bern_nd(self, case):
        import torch
        d = self._bern_nd_dist(case)
        dt = self._tdtype(case)
        batch, nb, nB, n = self._nd_layout(case)
        full = list(case.get("sample") or []) + batch
        U = torch.tensor([float(F(x)) for x in case["us"]], dtype=dt).reshape(full)
        Vv = torch.tensor([float(F(x)) for x in case["vs"]], dtype=dt).reshape(full)
        pexp = [self._lb_expected(self._bern_nd_elem(case, i))[0] for i in range(n)]
        elems, info = self._lb_observe(d, case["dtype"], U, Vv, tuple(case.get("sample") or []), pexp)
        fl = lambda t: [fs(x) for x in t.reshape(-1).tolist()]
        out = {"elems": elems, **info, "dprobs": fl(d.probs), "dlogits": fl(d.logits)}
        if case.get("history") or case.get("expand"):
            from pydrobert.torch.distributions import LogisticBernoulli
            d2 = self._fresh_twin(case, LogisticBernoulli)
            e2, i2 = self._lb_observe(d2, case["dtype"], U, Vv, tuple(case.get("sample") or []), pexp)
            out["fresh"] = {"elems": e2, **i2, "dprobs": fl(d2.probs), "dlogits": fl(d2.logits)}
        return out

    def _req_bern_nd(self, case):
        d = self._bern_nd_dist(case)
        dtn = case["dtype"]
        fl = lambda t: [fs(x) for x in t.reshape(-1).tolist()]
        return {"op": "c19.bern_nd", "case": {
            "ctor": case["param"], "shape": case["shape"], "expand": case.get("expand") or [],
            "hist": self._model_hist(case),
            "data": [fs(self._rnd(x, dtn)) for x in case["values"]], "eps": fs(EPS[dtn]),
            "logits": fl(d.logits), "probs": fl(d.probs),
            "us": [fs(self._rnd(x, dtn)) for x in case["us"]], "vs": [fs(self._rnd(x, dtn)) for x in case["vs"]]}}

    def _cmp_params(self, impl, model, dtn):
        """the model's construction (`lbParams` / `gParams`, then `expand`) against the object"""
        out = []
        mp = model["params"]
        for nm in ("batch_shape", "event_shape"):
            if impl[nm] != mp[nm]:
                out.append(f"{nm}: impl={impl[nm]} model={mp[nm]}")
        for nm, key in (("probs", "dprobs"), ("logits", "dlogits")):
            if len(impl[key]) != len(mp[nm]):
                out.append(f"{nm}: {len(impl[key])} entries, model {len(mp[nm])}")
                continue
            for i, (a, b) in enumerate(zip(impl[key], mp[nm])):
                if not pclose(a, fam.fl(b), dtn, nm):
                    out.append(f"{nm}[{i}]: impl={a} model={b}")
                    break
        return out

    def _cmp_bern_nd(self, case, impl, model):
        dtn = case["dtype"]
        out = self._cmp_params(impl, model, dtn)
        if len(impl["elems"]) != len(model["elems"]):
            return out + [f"{len(impl['elems'])} entries, model {len(model['elems'])}"]
        for n, (a, b) in enumerate(zip(impl["elems"], model["elems"])):
            out += [f"entry {n}: {m}" for m in self._cmp_bern(self._bern_nd_elem(case, n), a, b)]
        # the tensor-level functions of the model (parameter picked by `paramAt`)
        tol = TOL_D[dtn]
        for key, got in (("zT", [e["z"] for e in impl["elems"]]), ("zc1T", [e["c1"]["zc"] for e in impl["elems"]]),
                         ("tlog1T", [e["c1"]["tlog"] for e in impl["elems"]])):
            bad = [i for i, (a, b) in enumerate(zip(got, model[key])) if not self._fclose(a, b, tol)]
            if bad or len(got) != len(model[key]):
                out.append(f"{key}: entries {bad[:4]} differ (impl {got[:4]}.. model {model[key][:4]}..)")
        return out[:6]

    def _pred_shapes(self, head, case, impl, event):
        """batch / event shape and the shapes of what the methods return"""
        fails = []
        batch, _, _, _ = self._nd_layout(case, len(event))
        full = list(case.get("sample") or []) + batch
        if impl["batch_shape"] != batch or impl["event_shape"] != event:
            fails.append((f"{head}: batch_shape {impl['batch_shape']}, event_shape {impl['event_shape']}; expected "
                          f"{batch}, {event}", None))
        want = {"z": full + event, "b": full + event, "tlog": full, "logprob": full, "rand": full + event,
                "zc0": full + event, "zc1": full + event, "zc": full + event}
        for k, v in impl["shapes"].items():
            if v != want[k]:
                fails.append((f"{head}: shape of {k} is {v}, expected {want[k]} (sample_shape + batch_shape"
                              f"{' + event_shape' if len(want[k]) > len(full) else ''})", None))
        return fails

    def _pred_bern_nd(self, case, impl, model):
        head = (f"LogisticBernoulli({case['param']}= tensor of shape {case['shape']}"
                f"{', expand ' + str(case['expand']) if case.get('expand') else ''}, {case['dtype']})"
                + (f" after the operations {case['history']}" if case.get("history") else ""))
        fails = self._pred_shapes(head, case, impl, []) + self._pred_fresh(head, impl, case["dtype"])
        seen = set()
        for n, e in enumerate(impl["elems"]):
            m = model["elems"][n] if model is not None and n < len(model.get("elems", [])) else None
            for what, sig in self._pred_bern(self._bern_nd_elem(case, n), e, m):
                key = (what.split("):", 1)[-1][:40], sig)
                if key in seen:
                    continue          # one report per kind of failure
                seen.add(key)
                fails.append((f"entry {n} of {head}: {what}", sig))
        return fails

    # ---------------------------------------------------------------- relaxed categorical
    def _gumbel_dist(self, case):
        import torch
        from pydrobert.torch.distributions import GumbelOneHotCategorical
        dt = self._tdtype(case)
        if "theta" not in case:          # cases written before `probs` was exercised
            return GumbelOneHotCategorical(logits=torch.tensor([float(F(x)) for x in case["logits"]], dtype=dt))
        th = torch.tensor([fam.fl(x) for x in case["theta"]], dtype=dt)
        return GumbelOneHotCategorical(**{case["param"]: th}, validate_args=True if case.get("validate") else None)

    @staticmethod
    def _gV(case):
        return len(case["theta"] if "theta" in case else case["logits"])

    def _g_observe(self, d, dtn, U, Vv, sample, ks):
        """everything the check looks at, for a GumbelOneHotCategorical of any batch shape: U, Vv of
        shape sample + batch + [V]; ks: conditioning class per row.  -> per-row observations + shapes"""
        import torch
        dt = U.dtype
        V = U.shape[-1]
        rows = U.numel() // V
        full = list(U.shape[:-1])
        asked = []

        def rand(*a, **k):
            asked.append(list(a[0]) if a and not isinstance(a[0], int) else list(a))
            return U.clone()
        fr = lambda t: [[fs(x) for x in r] for r in t.reshape(rows, V).tolist()]      # per row: vector
        fl = lambda t: [fs(x) for x in t.reshape(-1).tolist()]                        # per row: number
        bk = torch.nn.functional.one_hot(torch.tensor(ks), V).to(dt).reshape(U.shape)
        with fam.torch_patched(rand=rand, rand_like=lambda *a, **k: Vv.clone()):
            z = d.rsample(sample)
            b = d.threshold(z)
            zc = d.csample(bk)
            other = torch.roll(bk, 1, -1)
            ex = lambda t: t.expand(full + [V])
            cols = {"z": fr(z), "b": fr(b), "b_st": fr(d.threshold(z, True)),
                    "logprob": fl(d.log_prob(z)), "tlog": fl(d.tlog_prob(b)),
                    "clog": fl(d.clog_prob(z, b)), "zc": fr(zc), "thr_zc": fr(d.threshold(zc)),
                    "clog_zc": fl(d.clog_prob(zc, bk)), "tlog_k": fl(d.tlog_prob(bk)),
                    "logprob_zc": fl(d.log_prob(zc)), "clog_other": fl(d.clog_prob(zc, other)),
                    "psum": fl(ex(d.logits).to(torch.float64).exp().sum(-1)),
                    "probs_sum": fl(ex(d.probs).to(torch.float64).sum(-1)),
                    "in_support": [bool(x) for x in (d.support.check(z) & d.support.check(zc)).reshape(-1).tolist()],
                    "dlogits": fr(ex(d.logits)), "dprobs": fr(ex(d.probs))}
            # the threshold probabilities over the whole one-hot support
            tl = [d.tlog_prob(torch.nn.functional.one_hot(torch.tensor(j), V).to(dt).expand(full + [V]))
                  for j in range(V)]
            cols["tlog_all"] = [[fs(x) for x in r] for r in torch.stack([t.reshape(-1) for t in tl], -1).tolist()]
            shapes = {"z": list(z.shape), "b": list(b.shape), "tlog": list(d.tlog_prob(b).shape),
                      "logprob": list(d.log_prob(z).shape), "zc": list(zc.shape),
                      "rand": asked[0] if asked else None}
        elems = []
        for n in range(rows):
            e = {k: v[n] for k, v in cols.items()}
            e["out_dtype"] = str(zc.dtype)[6:]
            elems.append(e)
        return elems, {"shapes": shapes, "batch_shape": list(d.batch_shape), "event_shape": list(d.event_shape)}

    def _impl_gumbel(self, case):
        import torch
        d = self._gumbel_dist(case)
        dt = self._tdtype(case)
        u = torch.tensor([float(F(x)) for x in case["us"]], dtype=dt)
        v = torch.tensor([float(F(x)) for x in case["vs"]], dtype=dt)
        elems, _ = self._g_observe(d, case.get("dtype", "float64"), u, v, (), [case["k"]])
        return elems[0]

    def _req_gumbel(self, case):
        import torch
        d = self._gumbel_dist(case)
        dt = self._tdtype(case)
        rnd = lambda x: torch.tensor([float(F(x))], dtype=dt).item()
        return {"op": "c19.gumbel", "case": {
            "logits": [fs(x) for x in d.logits.tolist()],
            "probs": [fs(x) for x in d.probs.tolist()],
            "us": [fs(rnd(x)) for x in case["us"]], "vs": [fs(rnd(x)) for x in case["vs"]],
            "k": case["k"], "eps": fs(EPS[case.get("dtype", "float64")])}}

    def _g_absorbed(self, case, impl):
        """the specific defect of the pinned csample (finding C19.gumbel.csample_guard_absorbed): the
        margin `zcond_match_k - eps` is absolute, floating point absorbs it once |z_k| >= 2, so an
        unconditioned coordinate can come out EQUAL to the conditioned one (and argmax takes the first)."""
        zc = impl["zc"]
        k = case["k"]
        if not all(self._finite(x) for x in zc):
            return False
        zk = F(zc[k])
        return abs(zk) >= 2 and any(j != k and F(zc[j]) == zk for j in range(len(zc)))

    def _cmp_gumbel(self, case, impl, model):
        out = []
        tol = TOL_G[case.get("dtype", "float64")]
        # discrete outcomes only when the deciding gap is clear of the tolerance
        fin = all(self._finite(x) for x in model["z"])
        zs = sorted((F(x) for x in model["z"]), reverse=True) if fin else []
        tie = len(zs) > 1 and abs(zs[0] - zs[1]) < 10 * Fr(tol) * max(1, abs(zs[0]))
        for k in ("z", "zc"):
            if not all(self._fclose(a, b, tol) for a, b in zip(impl[k], model[k])):
                out.append(f"{k}: impl={impl[k]} model={model[k]}")
        if not tie:
            if impl["b"] != model["b"]:
                out.append(f"b: impl={impl['b']} model={model['b']}")
            for k in ("logprob", "tlog", "clog"):
                if not self._fclose(impl[k], model[k], tol):
                    out.append(f"{k}: impl={impl[k]} model={model[k]}")
        absorbed = self._g_absorbed(case, impl)
        if not absorbed:
            if impl["thr_zc"] != model["thr_zc"]:
                out.append(f"thr_zc: impl={impl['thr_zc']} model={model['thr_zc']}")
        for k in ("tlog_k", "logprob_zc") + (() if absorbed else ("clog_zc",)):
            if not self._fclose(impl[k], model[k], tol):
                out.append(f"{k}: impl={impl[k]} model={model[k]}")
        if "tlog_all" in impl and "tlog_all" in model and not all(
                self._fclose(a, b, tol) for a, b in zip(impl["tlog_all"], model["tlog_all"])):
            out.append(f"tlog_prob over the one-hot support: impl={impl['tlog_all']} model={model['tlog_all']}")
        return out[:6]

    def _g_expected(self, case):
        """(probs, logits) the row of a `gumbel` case is meant to have"""
        dtn = case.get("dtype", "float64")
        par = case.get("param", "logits")
        return expected_g(par, [self._rnd(x, dtn) for x in case.get("theta", case.get("logits"))], dtn)

    def _pred_gumbel(self, case, impl, model):
        fails = []
        dtn = case.get("dtype", "float64")
        tol = TOL_G[dtn]
        V = self._gV(case)
        par = case.get("param", "logits")
        theta = case.get("theta", case.get("logits"))
        head = f"GumbelOneHotCategorical({par}={theta}, {dtn})"
        k = case["k"]
        bk = [fs(1 if j == k else 0) for j in range(V)]
        asig = "C19.gumbel.csample_guard_absorbed" if self._g_absorbed(case, impl) else None
        # classes that are impossible because their logit is -inf (zero probability handed over through
        # `logits=`): the relaxed variable of such a class is -inf almost surely, so the relaxed
        # distribution has no density; what remains promised there: the threshold probabilities
        # (tlog_prob, exactly -inf for the impossible classes, summing to one), finite conditional samples
        # that threshold to b, and finite estimator values
        zero = [par == "logits" and fam.is_ninf(x) for x in theta]
        if impl["out_dtype"] != dtn:
            fails.append((f"{head}: csample returns {impl['out_dtype']}", None))
        # what `probs` and `logits` mean, whichever was given: softmax(logits) = probs / sum(probs) along
        # the LAST axis (python oracle from the case's own parameter row)
        params_ok = True
        if "dprobs" in impl:
            pe, le = self._g_expected(case)
            for nm, got, want in (("probs", impl["dprobs"], pe), ("logits", impl["dlogits"], le)):
                if not all(pclose(a, b, dtn, nm) for a, b in zip(got, want)):
                    params_ok = False
                    fails.append((f"{head}: the distribution's `{nm}` is "
                                  f"{[float(F(x)) if self._finite(x) else x for x in got]}, but this construction "
                                  f"denotes {nm} = {want} (softmax(logits) = probs / sum(probs) along the last "
                                  f"axis)", None))
        z_ok = all((x == "-inf") if zr else self._finite(x) for x, zr in zip(impl["z"], zero))
        if not z_ok or not all(self._finite(x) for x in impl["zc"]) or not impl["in_support"]:
            fails.append((f"{head}: relaxed sample outside the support (real vectors; -inf exactly for a class "
                          f"whose logit is -inf): z = {impl['z']}, zcond = {impl['zc']}", None))
            return fails
        if abs(float(F(impl["psum"])) - 1) > 1e-5 or abs(float(F(impl["probs_sum"])) - 1) > 1e-5:
            fails.append((f"{head}: probabilities sum to {float(F(impl['probs_sum']))}, exp(logits) to "
                          f"{float(F(impl['psum']))}", None))
        if "tlog_all" in impl:
            ta = impl["tlog_all"]
            bad = [j for j in range(V) if ta[j] in ("nan", "inf") or (ta[j] == "-inf") != zero[j]]
            if bad:
                fails.append((f"{head}: tlog_prob over the one-hot support is {ta}: classes {bad} must have a "
                              f"finite log-probability (-inf exactly for a class whose logit is -inf)", None))
            else:
                tot = sum(math.exp(float(F(x))) for x in ta if x != "-inf")
                if abs(tot - 1) > (1e-5 if dtn == "float32" else 1e-9) * V:
                    fails.append((f"{head}: the threshold probabilities exp(tlog_prob(e_j)) over the one-hot "
                                  f"support sum to {tot!r}", None))
        if impl["thr_zc"] != bk:
            fails.append((f"{head}: threshold(csample(b)) = {impl['thr_zc']} != b = {bk} "
                          f"(zcond = {[float(F(x)) for x in impl['zc']]}, v = {case['vs']})", asig))
        if model is not None and asig is None and not all(
                self._fclose(a, b, TOL_SPEC[dtn]) for a, b in zip(impl["zc"], model["zc_spec"])):
            # known only where a class log-probability (python oracle) really lies below log eps and the
            # distribution's own `probs` are what the construction denotes
            _, le = self._g_expected(case)
            known = (par == "logits" and any(x < math.log(EPS[dtn]) for x in le) and params_ok
                     and all(self._fclose(a, b, tol) for a, b in zip(impl["zc"], model["zc"])))
            fails.append((f"{head}: csample(b = e_{k}, v = {case['vs']}) = "
                          f"{[float(F(x)) for x in impl['zc']]} is not the conditional relaxed sample of this "
                          f"distribution, {[float(F(x)) if self._finite(x) else x for x in model['zc_spec']]} "
                          f"(class probabilities clamped to [eps, 1-eps])",
                          SIG_CLAMP if known else None))
        if any(zero):
            # no density: at zcond (finite in the impossible coordinates only because csample clamps the
            # probabilities) the factorisation reads 0 = P(b) * 0 in the extended reals
            if zero[k]:
                if impl["tlog_k"] != "-inf":
                    fails.append((f"{head}: tlog_prob of the impossible class e_{k} is {impl['tlog_k']}", None))
            elif not (self._finite(impl["tlog_k"]) and impl["logprob_zc"] == "-inf" and impl["clog_zc"] == "-inf"):
                fails.append((f"{head}: at zcond = csample(b = e_{k}) (finite in a coordinate of probability "
                              f"zero): log_prob = {impl['logprob_zc']}, tlog_prob = {impl['tlog_k']}, clog_prob = "
                              f"{impl['clog_zc']}; expected -inf = finite + -inf", None))
            if not self._finite(impl["tlog"]):
                fails.append((f"{head}: tlog_prob(H(z)) = {impl['tlog']} for a drawn class", None))
        else:
            why = self._factor_fail(tol, impl["logprob_zc"], impl["tlog_k"], impl["clog_zc"])
            if why:
                fails.append((f"{head}: factorisation at zcond = csample(b = e_{k}): {why}", asig))
            why = self._factor_fail(tol, impl["logprob"], impl["tlog"], impl["clog"])
            if why:
                fails.append((f"{head}: factorisation at z = rsample(u), b = H(z): {why}", None))
        if impl["clog_other"] != "-inf":
            fails.append((f"{head}: clog_prob(zcond, other) = {impl['clog_other']} is not -inf", asig))
        if "b_st" in impl and not all(self._st_same(y, x, zz, tol)
                                      for x, y, zz in zip(impl["b"], impl["b_st"], impl["z"])):
            # the specific defect: b + z - z.detach() is NaN exactly where z = -inf (class with logit -inf)
            known = all((y == "nan" and zr) or self._st_same(y, x, zz, tol)
                        for x, y, zz, zr in zip(impl["b"], impl["b_st"], impl["z"], zero))
            fails.append((f"{head}: threshold(z, straight_through=True) = {impl['b_st']} differs in value from "
                          f"threshold(z) = {impl['b']} (z = {impl['z']})", SIG_STNAN if known else None))
        if sum(F(x) for x in impl["b"]) != 1 or any(F(x) not in (0, 1) for x in impl["b"]):
            fails.append((f"{head}: threshold is not one-hot", None))
        elif any(zr and F(x) == 1 for x, zr in zip(impl["b"], zero)):
            fails.append((f"{head}: threshold(rsample) = {impl['b']} selects a class of probability zero", None))
        return fails

    # ---------------------------------------------------------------- relaxed categorical as a tensor
    def _gumbel_nd_dist(self, case):
        import torch
        from pydrobert.torch.distributions import GumbelOneHotCategorical
        dt = self._tdtype(case)
        t = torch.tensor([fam.fl(x) for x in case["values"]], dtype=dt).reshape(case["shape"])
        d = GumbelOneHotCategorical(**{case["param"]: t}, validate_args=True if case.get("validate") else None)
        return self._derive(d, case, 1)

    def _gumbel_nd_elem(self, case, n):
        """the one-row case that row n of the tensors is an instance of"""
        _, nb, nB, _ = self._nd_layout(case, 1)
        V = case["shape"][-1]
        r = (n % nB) % nb
        return {"kind": "gumbel", "param": case["param"], "theta": case["values"][r * V: (r + 1) * V],
                "dtype": case["dtype"], "us": case["us"][n], "vs": case["vs"][n], "k": case["ks"][n],
                "validate": case.get("validate")}

    def _impl_gumbel_nd(self, case):
        import torch
        d = self._gumbel_nd_dist(case)
        dt = self._tdtype(case)
        batch, nb, nB, n = self._nd_layout(case, 1)
        V = case["shape"][-1]
        full = list(case.get("sample") or []) + batch + [V]
        U = torch.tensor([[float(F(x)) for x in r] for r in case["us"]], dtype=dt).reshape(full)
        Vv = torch.tensor([[float(F(x)) for x in r] for r in case["vs"]], dtype=dt).reshape(full)
        elems, info = self._g_observe(d, case["dtype"], U, Vv, tuple(case.get("sample") or []), case["ks"])
        fl = lambda t: [fs(x) for x in t.reshape(-1).tolist()]
        out = {"elems": elems, **info, "dprobs": fl(d.probs), "dlogits": fl(d.logits)}
        if case.get("history") or case.get("expand"):
            from pydrobert.torch.distributions import GumbelOneHotCategorical
            d2 = self._fresh_twin(case, GumbelOneHotCategorical, 1)
            e2, i2 = self._g_observe(d2, case["dtype"], U, Vv, tuple(case.get("sample") or []), case["ks"])
            out["fresh"] = {"elems": e2, **i2, "dprobs": fl(d2.probs), "dlogits": fl(d2.logits)}
        return out

    def _req_gumbel_nd(self, case):
        d = self._gumbel_nd_dist(case)
        dtn = case["dtype"]
        fl = lambda t: [fs(x) for x in t.reshape(-1).tolist()]
        rr = lambda rows: [[fs(self._rnd(x, dtn)) for x in r] for r in rows]
        return {"op": "c19.gumbel_nd", "case": {
            "ctor": case["param"], "shape": case["shape"], "expand": case.get("expand") or [],
            "hist": self._model_hist(case),
            "data": [fs(self._rnd(x, dtn)) for x in case["values"]], "eps": fs(EPS[dtn]),
            "logits": fl(d.logits), "probs": fl(d.probs), "us": rr(case["us"]), "vs": rr(case["vs"]),
            "ks": case["ks"]}}

    def _cmp_gumbel_nd(self, case, impl, model):
        dtn = case["dtype"]
        out = self._cmp_params(impl, model, dtn)
        if len(impl["elems"]) != len(model["elems"]):
            return out + [f"{len(impl['elems'])} rows, model {len(model['elems'])}"]
        for n, (a, b) in enumerate(zip(impl["elems"], model["elems"])):
            out += [f"row {n}: {m}" for m in self._cmp_gumbel(self._gumbel_nd_elem(case, n), a, b)]
        tol = TOL_G[dtn]
        for key, got in (("zT", [e["z"] for e in impl["elems"]]), ("zcT", [e["zc"] for e in impl["elems"]])):
            bad = [i for i, (a, b) in enumerate(zip(got, model[key]))
                   if not all(self._fclose(x, y, tol) for x, y in zip(a, b))]
            if bad or len(got) != len(model[key]):
                out.append(f"{key}: rows {bad[:4]} differ")
        got = [e["tlog_k"] for e in impl["elems"]]
        if not all(self._fclose(a, b, tol) for a, b in zip(got, model["tlogT"])):
            out.append(f"tlogT: impl={got[:4]}.. model={model['tlogT'][:4]}..")
        return out[:6]

    def _pred_gumbel_nd(self, case, impl, model):
        V = case["shape"][-1]
        head = (f"GumbelOneHotCategorical({case['param']}= tensor of shape {case['shape']}"
                f"{', expand ' + str(case['expand']) if case.get('expand') else ''}, {case['dtype']})"
                + (f" after the operations {case['history']}" if case.get("history") else ""))
        fails = self._pred_shapes(head, case, impl, [V]) + self._pred_fresh(head, impl, case["dtype"], True)
        seen = set()
        for n, e in enumerate(impl["elems"]):
            m = model["elems"][n] if model is not None and n < len(model.get("elems", [])) else None
            for what, sig in self._pred_gumbel(self._gumbel_nd_elem(case, n), e, m):
                key = (what.split("):", 1)[-1][:40], sig)
                if key in seen:
                    continue          # one report per kind of failure
                seen.add(key)
                fails.append((f"row {n} of {head}: {what}", sig))
        return fails

    # ---------------------------------------------------------------- relaxation-based estimators
    @staticmethod
    def _cvfun(coef):
        import torch
        a, b, tau = [float(F(x)) for x in coef]
        return lambda z: a * torch.sigmoid(z / tau) + b * torch.tanh(z / 4)

    def _impl_st_value(self, case):
        """u runs over the midpoint grid (j + 1/2)/16 per variable: since p = k/16 the fraction of
        grid points with threshold 1 is exactly p, so the grid mean must be the exact expectation."""
        import torch
        from pydrobert.torch.distributions import LogisticBernoulli
        from pydrobert.torch.estimators import StraightThroughEstimator
        ks = case["ks"]
        n = len(ks)
        probs = torch.tensor([k / 16 for k in ks], dtype=torch.float64)
        if case.get("param", "probs") == "logits":      # ks in 1..15
            d = LogisticBernoulli(logits=torch.tensor([math.log(k / (16 - k)) for k in ks], dtype=torch.float64))
        else:
            d = LogisticBernoulli(probs=probs)
        # operation sequences / derived objects: the proposal handed to the estimator is what is left
        # after the history and `expand` (new leading axes; every copy meets the same grid)
        ex = list(case.get("expand") or [])
        d = self._derive(d, dict(case, shape=[n]))
        g = [(j + 0.5) / 16 for j in range(16)]
        U = torch.tensor(list(itertools.product(g, repeat=n)), dtype=torch.float64)
        U = U.reshape([U.shape[0]] + [1] * len(ex) + [n]).expand([U.shape[0]] + ex + [n]).clone()
        t = torch.tensor([float(F(x)) for x in case["f"]], dtype=torch.float64)
        w = torch.tensor([1.0, 2.0][:n], dtype=torch.float64)
        func = lambda b: t[(b.detach() * w).sum(-1).round().long()].unsqueeze(-1).expand(b.shape)
        logs = {"f": []}

        lf0 = case.get("life")

        def run(twin, lf=lf0):
            f = func if case.get("fp") is None else self._callback(case, None, "f", twin, logs["f"])
            asked = []

            def rand(*a, **k):
                asked.append([int(x) for x in (a[0] if len(a) == 1 and not isinstance(a[0], int) else a)])
                return U.clone()
            final = {"proposal": d, "func": f, "mc_samples": U.shape[0], "is_log": False}
            alt = {"proposal": LogisticBernoulli(probs=torch.full(tuple(d.batch_shape), 0.375, dtype=torch.float64)),
                   "func": life_.affine(f, -2.0, 3.0), "is_log": True,
                   "mc_samples": self._alt_n(U.shape[0], ((lf or {}).get("alt") or {}).get("mc_samples"))}
            with fam.torch_patched(rand=rand):
                est = life_.build(StraightThroughEstimator, ["proposal", "func", "mc_samples", "is_log"], final,
                                  alt, lf)
                for _ in range(2 if lf and lf.get("reuse") else 1):
                    del asked[:]
                    v = est()
            return [fs(x) for x in v.reshape(-1).tolist()], list(v.shape), asked
        (v, shp, asked), tw = run(False), (run(True) if self._has_twin(case) else None)
        return {"v": v, "shape": shp, "twin": tw and tw[0], "aliased": self._alias_obs(case, logs),
                "asked": asked, "want_asked": [list(U.shape)], "fresh": run(False, None)[0] if lf0 else None}

    def _st_exact(self, case):
        ks = case["ks"]
        n = len(ks)
        ex = Fr(0)
        for i in range(2 ** n):
            w = Fr(1)
            for j in range(n):
                pj = Fr(ks[j], 16)
                w *= pj if (i >> j) & 1 else 1 - pj
            ex += w * F(case["f"][i])
        return ex

    def _req_st_value(self, case):
        return None

    def _cmp_st_value(self, case, impl, model):
        return []

    def _pred_st_value(self, case, impl, model):
        fails = self._pred_twin("StraightThroughEstimator", case, impl["v"], impl.get("twin"))
        fails += self._pred_life("StraightThroughEstimator", case, impl["v"], impl.get("fresh"), impl.get("asked"),
                                 impl.get("want_asked"))
        rep = self._prod(case.get("expand") or [])
        if case.get("fp") is not None:
            # an elementwise integrand x -> a x + c written as the spelling says: entry j estimates a p_j + c
            exs = [alias.value(case["fp"], Fr(k, 16)) for k in case["ks"]] * rep
        else:
            exs = [self._st_exact(case)] * len(impl["v"])
        head = "StraightThroughEstimator" + self._hist_head(case)
        want = list(case.get("expand") or []) + [len(case["ks"])]
        if impl.get("shape", want) != want:
            fails.append((f"{head}: returns shape {impl['shape']}, batch shape of the proposal {want}", None))
        return fails + [(f"{head}: grid mean {x} != E f = {float(ex)}", None)
                        for x, ex in zip(impl["v"], exs) if not close(x, ex)]

    @staticmethod
    def _rv_norm(case):
        """-> (param, shape, ks, f per entry): cases written before the tensor form carry one `k`"""
        if "ks" in case:
            return case.get("param", "probs"), case["shape"], case["ks"], case["f"]
        return "probs", [1], [case["k"]], [case["f"]]

    def _impl_relax_value(self, case):
        """u on the 16-point midpoint grid; for each u every v of a grid matched to b = H(z(u)) (so that
        csample(b, v) runs over exactly the u-grid points of the region of b): the mean over all (u, v)
        of the returned value must be E f, for every entry of a parameter tensor of any shape, whichever
        construction was used, and for any control variate of the relaxed sample."""
        import torch
        from pydrobert.torch.distributions import LogisticBernoulli
        from pydrobert.torch.estimators import RelaxEstimator
        par, shape, ks, fs_ = self._rv_norm(case)
        n = len(ks)
        if par == "logits":
            t = torch.tensor([math.log(k / (16 - k)) for k in ks], dtype=torch.float64)
        else:
            t = torch.tensor([k / 16 for k in ks], dtype=torch.float64)
        d = LogisticBernoulli(**{par: t.reshape(shape).requires_grad_(True)})
        # operation sequences / derived objects (see st_value): entry i of the expanded proposal is entry
        # i % n of the parameter
        ex = list(case.get("expand") or [])
        d = self._derive(d, dict(case, shape=list(shape)))
        ks, n, shape = list(ks) * self._prod(ex), n * self._prod(ex), ex + list(shape)
        # p = 0 / p = 1: only one region, 16 conditional draws each
        R = 1
        for k in ks:
            R = math.lcm(R, max(k, 1) * max(16 - k, 1))
        us, vs = [], []
        for j in range(16):
            u = (j + 0.5) / 16
            ms = [(k if j >= 16 - k else 16 - k) for k in ks]
            for r in range(R):
                us.append([u] * n)
                vs.append([((r % m) + 0.5) / m for m in ms])
        full = [len(us)] + list(shape)
        U = torch.tensor(us, dtype=torch.float64).reshape(full)
        Vv = torch.tensor(vs, dtype=torch.float64).reshape(full)
        rp = self._prod(ex)
        f0 = torch.tensor([float(F(x[0])) for x in fs_] * rp, dtype=torch.float64).reshape(shape)
        f1 = torch.tensor([float(F(x[1])) for x in fs_] * rp, dtype=torch.float64).reshape(shape)
        wv = (torch.arange(1, n + 1, dtype=torch.float64) / n).reshape(shape)
        logs = {"f": [], "c": []}

        lf0 = case.get("life")

        def run(twin, lf=lf0):
            edit = None
            # affine integrand: also accepts relaxed values (REBAR); or the spelling `fp` (elementwise
            # x -> a x + c returning its argument / a view / a modified copy / a fresh tensor)
            func = lambda b: f0 + (f1 - f0) * b
            if case.get("fp") is not None:
                func = self._callback(case, None, "f", twin, logs["f"])
            if case.get("cp") is not None:      # control variate of the relaxed sample, same spellings
                cv = self._callback(case, None, "c", twin, logs["c"])
            elif case.get("cvkind") == "rebar":
                from pydrobert.torch.modules import LogisticBernoulliRebarControlVariate
                a, _, tau = [float(F(x)) for x in case["cv"]]
                cv, edit = life_.rebar(LogisticBernoulliRebarControlVariate, func, tau, a, lf)
            else:
                base = self._cvfun(case["cv"])
                cv = lambda z: base(z) * wv
            asked = []

            def rand(*a, **k):
                asked.append([int(x) for x in (a[0] if len(a) == 1 and not isinstance(a[0], int) else a)])
                return U.clone()
            final = {"proposal": d, "func": func, "mc_samples": U.shape[0], "cv": cv, "is_log": False}
            alt = {"proposal": LogisticBernoulli(probs=torch.full(tuple(d.batch_shape), 0.375, dtype=torch.float64)),
                   "func": life_.affine(func, -2.0, 3.0), "cv": life_.affine(cv, 1.5, 0.25), "is_log": True,
                   "mc_samples": self._alt_n(U.shape[0], ((lf or {}).get("alt") or {}).get("mc_samples"))}
            with fam.torch_patched(rand=rand, rand_like=lambda *a, **kk: Vv.clone()):
                est = life_.build(RelaxEstimator, ["proposal", "func", "mc_samples", "cv", "is_log"], final, alt, lf,
                                  edit)
                for _ in range(2 if lf and lf.get("reuse") else 1):
                    del asked[:]
                    v = est()
            return [[fs(x) for x in v.reshape(-1).tolist()], list(v.shape), asked]
        (v, shp, asked), tw = run(False), (run(True) if self._has_twin(case) else None)
        return {"v": v, "shape": shp, "samples": U.shape[0], "twin": tw and tw[0],
                "aliased": self._alias_obs(case, logs), "asked": asked, "want_asked": [list(U.shape)],
                "fresh": run(False, None)[0] if lf0 else None}

    def _req_relax_value(self, case):
        return None

    def _cmp_relax_value(self, case, impl, model):
        return []

    def _pred_relax_value(self, case, impl, model):
        par, shape, ks, fs_ = self._rv_norm(case)
        fails = self._pred_twin("RelaxEstimator", case, impl["v"], impl.get("twin"))
        fails += self._pred_life("RelaxEstimator", case, impl["v"], impl.get("fresh"), impl.get("asked"),
                                 impl.get("want_asked"))
        if case.get("fp") is not None:
            fs_ = [[fs(alias.value(case["fp"], 0)), fs(alias.value(case["fp"], 1))] for _ in ks]
        hh = self._hist_head(case)
        rp = self._prod(case.get("expand") or [])
        if impl["shape"] != list(case.get("expand") or []) + list(shape):
            fails.append((f"RelaxEstimator over LogisticBernoulli({par}= tensor of shape {shape}){hh} returns shape "
                          f"{impl['shape']}", None))
            return fails
        for i, (k, f, v) in enumerate(zip(list(ks) * rp, list(fs_) * rp, impl["v"])):
            p = Fr(k, 16)
            ex = (1 - p) * F(f[0]) + p * F(f[1])
            if not close(v, ex, 1e-8):
                fails.append((f"RelaxEstimator over LogisticBernoulli({par}=.., shape {shape}){hh}, entry {i} "
                              f"(p = {k}/16), {case.get('cvkind', 'smooth')} control variate: mean value over the "
                              f"(u, v) grid {float(F(v)) if v not in SPECIALS else v} != E f = {float(ex)}", None))
        return fails

    def _rc_ftable(self, case):
        """table of the integrand of a relax_comb case: per class (categorical) / at 0 and 1 (Bernoulli)"""
        fn = case.get("fp")
        if fn is None:
            return [F(x) for x in case["f"]]
        if case.get("dist") == "gumbel":
            return [alias.value(fn, 1 if k == fn["coord"] else 0) for k in range(len(case["theta"]))]
        return [alias.value(fn, 0), alias.value(fn, 1)]

    def _relax_pieces(self, case, twin=False, logs=None, lf=None):
        """the per-sample quantities RelaxEstimator combines, each with d/dparameter, obtained from the
        distribution's own methods under the same draws.  lf: the life of the estimator object (the
        library's REBAR control variate may then be constructed with other coefficients: `self._cv_edit`)"""
        import torch
        self._cv_edit = None
        logs = logs if logs is not None else {"f": [], "c": []}
        from pydrobert.torch.distributions import LogisticBernoulli, GumbelOneHotCategorical
        N = case["N"]
        par = case.get("param", "logits")
        if case.get("dist") == "gumbel":
            V = len(case["theta"])
            th = torch.tensor([fam.fl(x) for x in case["theta"]], dtype=torch.float64, requires_grad=True)
            d = GumbelOneHotCategorical(**{par: th})
            U = torch.tensor([[float(F(x)) for x in r] for r in case["us"]], dtype=torch.float64)
            Vv = torch.tensor([[float(F(x)) for x in r] for r in case["vs"]], dtype=torch.float64)
            t = torch.tensor([float(F(x)) for x in case["f"]], dtype=torch.float64)
            func = lambda b: t[b.detach().argmax(-1)]
            a, bb, tau = [float(F(x)) for x in case["cv"]]
            wv = torch.arange(1, V + 1, dtype=torch.float64) / V
            cv = lambda z: (a * torch.sigmoid(z / tau) * wv).sum(-1) + bb * torch.tanh(z / 4).sum(-1)
            if case.get("cvkind") == "rebar":       # the library's own control variate: eta f(softmax(z / temp))
                from pydrobert.torch.modules import GumbelOneHotCategoricalRebarControlVariate
                cv, self._cv_edit = life_.rebar(GumbelOneHotCategoricalRebarControlVariate,
                                                lambda x: (x * t).sum(-1), tau, a, lf)
            if case.get("fp") is not None:
                func = self._callback(case, None, "f", twin, logs["f"])
            if case.get("cp") is not None:
                cv = self._callback(case, None, "c", twin, logs["c"])
            return th, d, U, Vv, func, cv
        lg = torch.tensor([float(F(case["value"] if "value" in case else case["logit"]))],
                          dtype=torch.float64, requires_grad=True)
        d = LogisticBernoulli(**{par: lg})
        U = torch.tensor([float(F(x)) for x in case["us"]], dtype=torch.float64).unsqueeze(-1)
        Vv = torch.tensor([float(F(x)) for x in case["vs"]], dtype=torch.float64).unsqueeze(-1)
        t = torch.tensor([float(F(x)) for x in case["f"]], dtype=torch.float64)
        func = lambda b: t[b.detach().round().long()]
        cv = self._cvfun(case["cv"])
        if case.get("cvkind") == "rebar":       # the library's own control variate: eta g(sigmoid(z / temp))
            from pydrobert.torch.modules import LogisticBernoulliRebarControlVariate
            a, _, tau = [float(F(x)) for x in case["cv"]]
            cv, self._cv_edit = life_.rebar(LogisticBernoulliRebarControlVariate,
                                            lambda x: t[0] + (t[1] - t[0]) * x, tau, a, lf)
        if case.get("fp") is not None:
            func = self._callback(case, None, "f", twin, logs["f"])
        if case.get("cp") is not None:
            cv = self._callback(case, None, "c", twin, logs["c"])
        return lg, d, U, Vv, func, cv

    def _impl_relax_comb(self, case):
        import torch
        from pydrobert.torch.estimators import RelaxEstimator, StraightThroughEstimator
        logs = {"f": [], "c": []}

        lf0 = case.get("life")

        def run(twin, lf=lf0):
            lg, d, U, Vv, func, cv = self._relax_pieces(case, twin, logs, lf)
            edit = self._cv_edit
            N = case["N"]
            final = {"proposal": d, "func": func, "mc_samples": N, "cv": cv, "is_log": False}
            if lf:
                from pydrobert.torch.distributions import LogisticBernoulli, GumbelOneHotCategorical
                even = torch.full_like(lg.detach(), 1.0 / lg.numel() if case.get("dist") == "gumbel" else 0.375)
                alt = {"proposal": (GumbelOneHotCategorical if case.get("dist") == "gumbel" else LogisticBernoulli)(
                           probs=even),
                       "func": life_.affine(func, -2.0, 3.0), "cv": life_.affine(cv, 1.5, 0.25), "is_log": True,
                       "mc_samples": self._alt_n(N, (lf.get("alt") or {}).get("mc_samples"))}
            else:
                alt = {}
            lst = lf and dict(lf, set=[a for a in lf["set"] if a != "cv"])
            with fam.torch_patched(rand=lambda *a, **kk: U.clone(), rand_like=lambda *a, **kk: Vv.clone()):
                e1 = life_.build(RelaxEstimator, ["proposal", "func", "mc_samples", "cv", "is_log"], final, alt, lf,
                                 edit)
                e2 = life_.build(StraightThroughEstimator, ["proposal", "func", "mc_samples", "is_log"],
                                 {k: x for k, x in final.items() if k != "cv"}, alt, lst)
                if lf and lf.get("reuse"):
                    e1(), e2()
                v = e1()
                g, = torch.autograd.grad(v.sum(), [lg], allow_unused=True)
                g = torch.zeros(()) if g is None else g.reshape(-1)[case.get("coord", 0)]
                v2 = e2()
                z = d.rsample([case["N"]])
                zc = d.csample(d.threshold(z))
            return {"relax": [fs(v.sum().item()), fs(g.item())], "st": fs(v2.sum().item()),
                    "z": [fs(x) for x in z.reshape(-1).tolist()], "zc": [fs(x) for x in zc.reshape(-1).tolist()]}
        out = run(False)
        out["twin"] = run(True) if self._has_twin(case) else None
        out["fresh"] = run(False, None) if lf0 else None
        out["aliased"] = self._alias_obs(case, logs)
        return out

    def _relax_samples(self, case):
        import torch
        lg, d, U, Vv, func, cv = self._relax_pieces(case)
        samples = []
        with fam.torch_patched(rand=lambda *a, **kk: U.clone(), rand_like=lambda *a, **kk: Vv.clone()):
            z = d.rsample([case["N"]])
            b = d.threshold(z)
            zc = d.csample(b)
            lp = d.tlog_prob(b)
            cz, czc, fb = cv(z), cv(zc), func(b)

        def dual(x, n):
            g = None
            if x.requires_grad:       # (a control variate spelled with .detach() carries no gradient)
                g, = torch.autograd.grad(x[n].sum(), [lg], retain_graph=True, allow_unused=True)
            return [fs(x[n].sum().item()), fs(0.0 if g is None else g.reshape(-1)[case.get("coord", 0)].item())]
        for n in range(case["N"]):
            samples.append({"f": [fs(fb[n].sum().item())], "cvz": dual(cz, n), "cvzcond": dual(czc, n),
                            "logp": dual(lp, n)})
        return samples

    def _req_relax_comb(self, case):
        samples = self._relax_samples(case)
        if any(x in SPECIALS for sm in samples for v in sm.values() for x in v):
            return None          # a non-finite piece: nothing to combine; the predicate reports it
        return {"op": "c19.relax", "case": {"samples": samples}}

    def _st_nan_known(self, case, impl):
        """the specific defect behind finding C19.straight_through.nan_at_neg_inf_logit: with a class of
        logit -inf, threshold(z, straight_through=True) is NaN in that coordinate, so a table integrand
        (argmax) reads the first such class for every sample and a smooth one returns NaN"""
        if case.get("dist") != "gumbel" or case.get("param") != "logits":
            return False
        zero = [fam.is_ninf(x) for x in case["theta"]]
        return any(zero) and (impl["st"] == "nan" or close(impl["st"], self._rc_ftable(case)[zero.index(True)]))

    def _cmp_relax_comb(self, case, impl, model):
        out = []
        for j, nm in enumerate(("value", "gradient")):
            if not close(impl["relax"][j], model["relax"][j], 1e-8):
                out.append(f"RelaxEstimator {nm}: impl={impl['relax'][j]} model={model['relax'][j]}")
        if not close(impl["st"], model["st"][0]) and not self._st_nan_known(case, impl):
            out.append(f"StraightThroughEstimator value: impl={impl['st']} model={model['st'][0]}")
        return out

    def _pred_relax_comb(self, case, impl, model):
        tw = impl.get("twin")
        fails = self._pred_twin("RelaxEstimator / StraightThroughEstimator", case,
                                [impl["relax"], impl["st"]], tw and [tw["relax"], tw["st"]])
        fr = impl.get("fresh")
        fails += self._pred_life("RelaxEstimator / StraightThroughEstimator", case, [impl["relax"], impl["st"]],
                                 fr and [fr["relax"], fr["st"]])
        head = (f"{'GumbelOneHotCategorical' if case.get('dist') == 'gumbel' else 'LogisticBernoulli'}"
                f"({case.get('param', 'logits')}={case.get('theta', case.get('value', case.get('logit')))})")
        # (a class whose logit is -inf has the relaxed value -inf; every other coordinate is real)
        zero = [False]
        if case.get("dist") == "gumbel":
            zero = [case.get("param") == "logits" and fam.is_ninf(x) for x in case["theta"]]
        z_ok = all((x == "-inf") if zero[j % len(zero)] else self._finite(x) for j, x in enumerate(impl["z"]))
        if not z_ok or not all(self._finite(x) for x in impl["zc"]):
            fails.append((f"{head}: relaxed samples inside RelaxEstimator are not real: z = {impl['z']}, "
                          f"zcond = {impl['zc']}", None))
        if not all(self._finite(x) for x in impl["relax"]):
            fails.append((f"{head}: RelaxEstimator (value, gradient) = {impl['relax']}: not finite", None))
        # StraightThroughEstimator returns the sample mean of f(H(z)) (C19_st_value), computed here from
        # the relaxed samples; a sample whose threshold is decided by less than 1e-9 is skipped
        ft = self._rc_ftable(case)
        if z_ok:
            V = len(zero) if case.get("dist") == "gumbel" else 1
            zs = [[fam.fl(x) for x in impl["z"][i: i + V]] for i in range(0, len(impl["z"]), V)]
            clear = True
            tot = Fr(0)
            for row in zs:
                if V == 1:
                    clear = clear and abs(row[0]) > 1e-9
                    tot += ft[1 if row[0] >= 0 else 0]
                else:
                    srt = sorted(row, reverse=True)
                    clear = clear and srt[0] - srt[1] > 1e-9 * max(1.0, abs(srt[0]))
                    tot += ft[row.index(srt[0])]
            want = tot / len(zs)
            if clear and not close(impl["st"], want):
                # the specific defect: threshold(z, True) carries NaN in a class of logit -inf, and
                # argmax takes the first NaN
                known = self._st_nan_known(case, impl)
                fails.append((f"{head}: StraightThroughEstimator = {impl['st']} is not the sample mean of f(H(z)) = "
                              f"{float(want)!r} (z = {impl['z']})", SIG_STNAN if known else None))
        return fails

    # ---------------------------------------------------------------- parameters edited in place
    # A distribution object is kept, the tensor it was constructed from is edited in place (an optimiser step
    # on the logits), and the object is used again.  The library's distributions cache derived attributes the
    # way torch.distributions does (`lazy_property`).  Whatever the object does with the edit - follow it
    # (the constructor kept the caller's tensor) or ignore it (it kept a normalised copy) - it must remain ONE
    # distribution: every observable that of a freshly constructed distribution of the new values, or every
    # observable that of the old values.
    def _pe_objects(self, case):
        """-> (the object with the history, fresh(new values), fresh(old values), the object the torch
        convention produces: fresh(new) whose lazily derived attribute is the one cached before the edit)"""
        import torch
        import pydrobert.torch.distributions as D
        dt = self._tdtype(case)
        cls = D.LogisticBernoulli if case["cls"] == "lb" else D.GumbelOneHotCategorical
        event = 0 if case["cls"] == "lb" else 1
        t = torch.tensor([fam.fl(x) for x in case["values"]], dtype=dt).reshape(case["shape"])
        self._edit_t = t
        obj = self._derive(cls(**{case["param"]: t}), case, event)
        new = self._fresh_twin(dict(case, values=case["new_values"]), cls, event)
        old = self._fresh_twin(case, cls, event)
        conv = self._fresh_twin(dict(case, values=case["new_values"]), cls, event)
        cross = "logits" if case["param"] == "probs" else "probs"
        cut = case["history"].index("edit")
        cached = any(cross in RELAXED_READS.get(op, []) for op in case["history"][:cut])
        if cached:
            conv.__dict__[cross] = getattr(old, cross)
        return obj, new, old, conv, cached

    def _impl_param_edit(self, case):
        import torch
        if case["cls"] == "srswor":
            return self._impl_param_edit_srswor(case)
        dt = self._tdtype(case)
        event = 0 if case["cls"] == "lb" else 1
        batch, nb, nB, n = self._nd_layout(case, event)
        sample = tuple(case.get("sample") or [])
        fl = lambda t: [fs(x) for x in t.reshape(-1).tolist()]
        if event:
            V = case["shape"][-1]
            full = list(sample) + batch + [V]
            U = torch.tensor([[float(F(x)) for x in r] for r in case["us"]], dtype=dt).reshape(full)
            Vv = torch.tensor([[float(F(x)) for x in r] for r in case["vs"]], dtype=dt).reshape(full)
            obs = lambda d: self._g_observe(d, case["dtype"], U, Vv, sample, case["ks"])
        else:
            full = list(sample) + batch
            U = torch.tensor([float(F(x)) for x in case["us"]], dtype=dt).reshape(full)
            Vv = torch.tensor([float(F(x)) for x in case["vs"]], dtype=dt).reshape(full)
            pexp = [0.5] * n        # (only places the auxiliary draws of `z_ub`; the same for every object)
            obs = lambda d: self._lb_observe(d, case["dtype"], U, Vv, sample, pexp)
        obj, new, old, conv, cached = self._pe_objects(case)
        out = {"cached": cached}
        for nm, d in (("obj", obj), ("new", new), ("old", old), ("conv", conv)):
            e, info = obs(d)
            out[nm] = {"elems": e, **info, "dprobs": fl(d.probs), "dlogits": fl(d.logits)}
        return out

    def _impl_param_edit_srswor(self, case):
        import torch
        from pydrobert.torch.distributions import SimpleRandomSamplingWithoutReplacement as S

        def counts(total, given):
            return torch.tensor(given).reshape(case["shape"]), torch.tensor(total).reshape(case["shape"])
        nt, ng = case.get("new_total", case["total"]), case.get("new_given", case["given"])
        giv, tot = counts(case["total"], case["given"])
        obj = S(giv, tot, case["out_size"], validate_args=False)
        torch.manual_seed(case["seed"])
        cut = case["history"].index("edit")
        for op in case["history"]:
            if op == "edit":        # the caller's count tensors, edited in place
                giv.copy_(counts(nt, ng)[0])
                tot.copy_(counts(nt, ng)[1])
            elif op == "expand":
                obj = obj.expand([2] + list(obj.batch_shape))
            else:
                self._srswor_op(obj, op)
        new, old, conv = [S(*counts(t, g), case["out_size"], validate_args=False)
                          for t, g in ((nt, ng), (case["total"], case["given"]), (nt, ng))]
        cached = any("partition" in SRSWOR_READS.get(op, []) for op in case["history"][:cut])
        if cached:
            conv.__dict__["log_partition"] = old.log_partition
        reps = 2 ** sum(1 for op in case["history"] if op == "expand")

        def observe(d, rep):
            # (log_prob does not look at its argument beyond validation, which is off)
            x = torch.zeros(list(d.batch_shape) + list(d.event_shape))
            return {"total": [int(v) for v in d.total_count.reshape(-1).tolist()] * rep,
                    "given": [int(v) for v in d.given_count.reshape(-1).tolist()] * rep,
                    "prob": [fs(v) for v in d.log_prob(x).to(torch.float64).exp().reshape(-1).tolist()] * rep,
                    "mean": [[fs(v) for v in r] for r in d.mean.reshape(-1, d.mean.shape[-1]).tolist()] * rep}
        return {"cached": cached, "obj": observe(obj, 1), "new": observe(new, reps), "old": observe(old, reps),
                "conv": observe(conv, reps)}

    def _req_param_edit(self, case):
        return None

    def _cmp_param_edit(self, case, impl, model):
        return []

    def _pe_diff(self, case, a, b):
        """names of the observables in which two objects differ"""
        if case["cls"] == "srswor":
            return [k for k in a if a[k] != b[k] and not (k == "prob" and len(a[k]) == len(b[k]) and all(
                self._fclose(x, y, 1e-5) for x, y in zip(a[k], b[k])))]
        fails = self._pred_fresh("", dict(a, fresh=b), case["dtype"], vec=case["cls"] == "gumbel")
        out = []
        for what, _ in fails:
            out.append(what.split("`")[1] if "`" in what else what[:40])
        return out

    def _pred_param_edit(self, case, impl, model):
        name = {"lb": "LogisticBernoulli", "gumbel": "GumbelOneHotCategorical",
                "srswor": "SimpleRandomSamplingWithoutReplacement"}[case["cls"]]
        d_new = self._pe_diff(case, impl["obj"], impl["new"])
        d_old = self._pe_diff(case, impl["obj"], impl["old"])
        if not d_new or not d_old:
            return []
        # the specific known behaviour (torch's lazy_property convention): everything is the distribution of
        # the new values except the derived attribute that was cached before the edit, and what reads it
        known = impl["cached"] and not self._pe_diff(case, impl["obj"], impl["conv"])
        if known:
            # torch.distributions' own lazy_property convention, on an input (a parameter tensor edited in place
            # after construction) that C19 does not quantify over: an OBSERVATION, not a failure of C19
            # (design_notes/C19.md, DESIGN 11.3b) - only other mixtures of old and new are reported
            return []
        what = case.get("param", case.get("edit"))
        return [(f"{name}({what}= a tensor of shape {case['shape']}) after the operations {case['history']} (`edit`: the "
                 f"tensor it was constructed from is edited in place) is neither the distribution of the new values "
                 f"(differs in {d_new[:6]}) nor the one of the old values (differs in {d_old[:6]}): its parts "
                 f"describe different distributions", SIG_STALE if known else None)]

    # ---------------------------------------------------------------- malformed constructions
    def _impl_relaxed_ctor(self, case):
        import torch
        import pydrobert.torch.distributions as D
        cls = getattr(D, case["cls"])
        p = torch.tensor([0.25, 0.75])
        kw = {"neither": {}, "both": {"probs": p, "logits": p.log()},
              "scalar": {"probs": torch.tensor(0.5)}}[case["how"]]
        try:
            cls(**kw)
        except ValueError:
            return {"raised": "ValueError"}
        except Exception as e:          # noqa: BLE001
            return {"raised": type(e).__name__}
        return {"raised": None}

    def _req_relaxed_ctor(self, case):
        return None

    def _cmp_relaxed_ctor(self, case, impl, model):
        return []

    def _pred_relaxed_ctor(self, case, impl, model):
        if impl["raised"] == "ValueError":
            return []
        return [(f"{case['cls']} constructed with {case['how']} of probs / logits: raised {impl['raised']}, "
                 f"documented ValueError", None)]

    # ================================================================ bookkeeping
    def nontrivial(self, case, impl):
        k = case["kind"]
        if k in ("direct", "enumerate"):
            return fam.n_points(case["dist"]) ** case.get("N", 1) >= 4
        if k == "is":
            return fam.n_points(case["proposal"]) ** case["N"] >= 4
        if k == "imh":
            return case["N"] >= 2
        if k == "imh_support":
            return any(case["p"][d] is None for d in case["draws"])
        if k == "srswor":
            return any(0 < e["given"] < e["total"] for e in case["elems"])
        if k in ("binom",):
            return case["L"] >= 2
        if k in ("enum_vocab", "enum_card"):
            return case["length"] >= 2
        if k == "srswor_seq":
            return len(case["total"]) * len(case["given"]) >= 2 or bool(case.get("expands"))
        return True

    def tags(self, case, impl):
        k = case["kind"]
        t = ["kind=" + k]
        if k == "direct":
            has_cv = case.get("c") is not None or case.get("cp") is not None
            t += [f"direct:{case['dist']['fam']}/{case['dist']['param']}/N={case['N']}/"
                  f"{'cv' if has_cv else 'nocv'}{'-detached' if case['cv_mean_detached'] else ''}"]
        elif k == "is":
            t += [f"is:{case['proposal']['fam']}/N={case['N']}/{'same' if case['density'] == 'same' else 'other'}"]
        elif k == "imh_support":
            out = [i for i, d in enumerate(case["draws"]) if case["p"][d] is None]
            t += ["imh_support:" + ("no proposal outside the support" if not out else
                                    f"first outside proposal at step {min(out[0], 3)}{'+' if out[0] >= 3 else ''}"
                                    + ("/before the kept steps" if out[0] < case["burn_in"] else ""))]
        elif k == "imh":
            t += [f"imh:{'same' if case['density'] == 'same' else 'other'}/"
                  f"{'supplied' if case['init'] is not None else 'drawn'}"
                  + ("/re-pointed object (constructed over another distribution)" if case.get("repointed") else ""),
                  f"imh:kept={min(case['N'] - case['burn_in'], 4)}{'+' if case['N'] - case['burn_in'] >= 4 else ''}"]
            if case.get("sample_owned"):
                t += ["imh:proposal keeps its samples"]
            if case["init"] is not None and "init_lead" in case:
                t += [f"imh:initial_sample shape={'(1,)+sample' if case['init_lead'] else 'sample'}"]
        elif k == "binom":
            t += ["binom:" + ("rec" if case["L"] > 20 else "fact")]
        elif k == "srswor":
            t += [f"srswor:{case['via']}/B={len(case['elems'])}"]
            osz, mt = case["out_size"], max(e["total"] for e in case["elems"])
            t += [f"srswor:counts={self._srswor_counts(case)}/sample_shape="
                  f"{'[n]' if case.get('sample_n') is not None and case['via'] == 'distribution' else '()'}/out_size "
                  + ("omitted" if case.get("out_omitted") else "None" if osz is None else "equal" if osz == mt
                     else "larger" if osz > mt else "smaller")]
        elif k == "bern":
            v = case.get("value")
            cls = "interior"
            if v is not None and case["param"] == "probs":
                x = F(v)
                cls = "p=0" if x == 0 else "p=1" if x == 1 else "near-boundary" if min(x, 1 - x) < Fr(1, 1000) \
                    else "interior"
            elif v is not None and case["param"] == "logits":
                cls = "saturated" if abs(F(v)) >= 17 else "interior"
            t += [f"bern:{case['param']}/{cls}/{case.get('dtype', 'float64')}"]
            for nm in ("u", "v"):
                x = F(case[nm])
                if x in (0, 1):
                    t += [f"bern:{nm}={x}"]
        elif k == "gumbel":
            th = case.get("theta", case.get("logits"))
            par = case.get("param", "logits")
            if par == "probs":
                tot = sum(F(x) for x in th)
                cls = "one-hot" if any(F(x) == tot for x in th) else "has-zero" if any(F(x) == 0 for x in th) \
                    else "near-boundary" if any(F(x) / tot < Fr(1, 1000) for x in th) else "interior"
            elif any(fam.is_ninf(x) for x in th):
                cls = "logit=-inf"
            else:
                sp = max(F(x) for x in th) - min(F(x) for x in th)
                cls = "saturated" if sp >= 17 else "interior"
            t += [f"gumbel:{par}/{cls}/{case.get('dtype', 'float64')}"]
        elif k in ("relax_value", "st_value"):
            ks = case["ks"] if "ks" in case else [case["k"]]
            t += [f"{k}:{'boundary' if any(x in (0, 16) for x in ks) else 'interior'}",
                  f"{k}:{case.get('param', 'probs')}/shape={case.get('shape', [len(ks)])}"]
            if k == "relax_value":
                t += [f"relax_value:cv={case.get('cvkind', 'smooth')}"]
            if "history" in case:
                t += [f"{k}:expand={case.get('expand')}"] + self._hist_tags(k, case, bool(case.get("expand")))
        elif k in ("bern_nd", "gumbel_nd"):
            t += [f"{k}:{case['param']}/shape={case['shape']}", f"{k}:expand={case.get('expand')}",
                  f"{k}:sample={case.get('sample')}", f"{k}:{case['dtype']}"]
            if any(fam.is_ninf(x) for x in case["values"]):
                t += [f"{k}:logit=-inf"]
            t += self._hist_tags(k, case, bool(case.get("expand")))
        elif k == "srswor_seq":
            _, final, out, tot, giv = self._sq_layout(case)
            t += [f"srswor_seq:tshape={case['tshape']}/gshape={case['gshape']}",
                  f"srswor_seq:totals {'equal' if len(set(tot)) == 1 else 'differ'}/given "
                  f"{'equal' if len(set(giv)) == 1 else 'differ'}",
                  f"srswor_seq:expands={case.get('expands')}",
                  f"srswor_seq:out_size={'default' if case['out_size'] is None else 'max' if out == max(tot) else 'beyond'}"]
            t += self._hist_tags(k, case, bool(case.get("expands")))
        elif k == "param_edit":
            cut = case["history"].index("edit")
            what = case.get("param", case.get("edit"))
            t += [f"param_edit:{case['cls']}/{what}",
                  f"param_edit:{case['cls']}/derived attribute cached before the edit="
                  f"{impl.get('cached') if isinstance(impl, dict) else None}",
                  f"param_edit:expand {'before' if 'expand' in case['history'][:cut] else 'not before'} the edit"]
            t += [f"param_edit:before the edit: {op}" for op in sorted(set(case["history"][:cut]))]
        elif k == "relax_comb" and case.get("dist") == "gumbel":
            t += [f"relax_comb:gumbel/{case['param']}"]
            if any(fam.is_ninf(x) for x in case["theta"]):
                t += ["relax_comb:gumbel/logit=-inf"]
        elif k == "relax_comb":
            par = case.get("param", "logits")
            x = F(case.get("value", case.get("logit", "0")))
            edge = (par == "probs" and min(x, 1 - x) < Fr(1, 1000)) or (par == "logits" and abs(x) >= 17)
            t += [f"relax_comb:{par}/{'boundary' if edge else 'interior'}"]
        # how the callbacks are written, and whether a view spelling really shared storage with its argument
        for key, nm in (("fp", "f"), ("cp", "cv")):
            if case.get(key) is not None:
                fn = case[key]
                al = (impl.get("aliased") or {}).get(key[0]) if isinstance(impl, dict) else None
                t += [f"callback:{k}/{nm}={fn['how']}", f"callback:{nm} spelling={fn['how']}"
                      + ("" if al is None else "/shares-storage" if al else "/fresh")]
        if case.get("f_kept"):
            t += [f"callback:{k}/f=view of a table the integrand keeps"]
        if case.get("life"):
            t += life_.tags({"st_value": "st", "relax_value": "relax", "relax_comb": "relax"}.get(k, k), case["life"])
        if case.get("is_log"):
            t += [f"{k}:is_log=True"]
        if case.get("self_normalize"):
            t += [f"{k}:self_normalize=True"]
        if k in ("direct", "is", "imh", "enumerate"):
            if case.get("layout") == "batch":
                t += [f"{k}:layout=batch/n={len(case['dist' if k in ('direct', 'enumerate') else 'proposal']['theta'])}"
                      + ("" if case.get("fp") else "/tables")]
        if k in ("direct", "enumerate") and fam.has_ninf(case["dist"]):
            t += [f"{k}:logit=-inf"]
        if k in ("is", "imh") and fam.has_ninf(case["proposal"]):
            t += [f"{k}:logit=-inf proposal"]
        if k == "direct" and _is_edge(case["dist"]):
            t += ["direct:near-boundary/" + case["dist"]["param"]]
        if k == "is" and _is_edge(case["proposal"]):
            t += ["is:near-boundary proposal"]
        if k == "enumerate" and _is_edge(case["dist"]):
            t += ["enumerate:near-boundary"]
        return t

    @staticmethod
    def _hist_head(case):
        return ((f", expand {case['expand']}" if case.get("expand") else "")
                + (f", after the operations {case['history']}" if case.get("history") else ""))

    @staticmethod
    def _hist_tags(k, case, expands):
        """which operations ran on the object before a derived object was made of it"""
        h = case.get("history") or []
        t = [f"{k}:history length={len(h)}"]
        last = max([i for i, op in enumerate(h) if op == "expand"], default=None)
        before = h[:last] if last is not None else (h if expands else [])
        t += [f"{k}:before a derived object: {op}" for op in sorted(set(before) - {"expand"})]
        if not expands and last is not None:
            t += [f"{k}:expand to the same shape"]
        if last is not None and last + 1 < len(h):
            t += [f"{k}:operations on the derived object"]
        return t

    def shrink(self, case):
        k = case["kind"]
        if case.get("history"):
            h = case["history"]
            yield dict(case, history=[])
            for i in range(len(h)):
                yield dict(case, history=h[:i] + h[i + 1:])
        if case.get("life"):
            for lf in life_.shrink(case["life"]):
                yield dict(case, life=lf)
        if k == "srswor_seq" and case.get("expands"):
            yield dict(case, expands=case["expands"][:-1])
        if k in ("direct", "is") and case["N"] > 1:
            yield dict(case, N=1)
        if k == "direct" and (case.get("c") is not None or case.get("cp") is not None):
            yield dict({kk: v for kk, v in case.items() if kk != "cp"}, c=None, cv_mean_detached=False)
        if k == "imh" and case.get("init_lead"):
            yield dict(case, init_lead=False)
        if case.get("is_log"):
            yield dict(case, is_log=False)
        if case.get("self_normalize"):
            yield dict(case, self_normalize=False)
        if k in ("direct", "is", "imh") and case.get("sample_owned"):
            yield dict(case, sample_owned=False)
        if k == "imh" and self._batch(case) and len(case["proposal"]["theta"]) > 1:
            for sub in self._imh_elem_cases(case):      # one element of the batch, still in batch layout
                keep = {kk: case[kk] for kk in ("layout", "fp") if kk in case}
                yield dict(sub, us=[[x] for x in sub["us"]], f=None if "fp" in keep else [sub["f"]], **keep)
        if k == "imh":
            if case["N"] > 1:
                N = case["N"] - 1
                yield dict(case, N=N, burn_in=min(case["burn_in"], N - 1), draws=case["draws"][: N + 1],
                           us=case["us"][:N])
            if case["burn_in"] > 0:
                yield dict(case, burn_in=0)
        if k == "binom" and len(case["queries"]) > 1:
            import torch  # noqa: F401  (only to fail early if unavailable)
            keep = [q for q in case["queries"] if q[0] == case["L"]][:1]
            for q in case["queries"]:
                yield dict(case, queries=[q] + ([] if q[0] == case["L"] else keep))
        if k in ("bern", "gumbel", "bern_nd", "gumbel_nd") and case.get("dtype") == "float32":
            yield dict(case, dtype="float64")
        if k in ("bern_nd", "gumbel_nd"):
            if case.get("sample"):
                n = self._nd_layout(case, 0 if k == "bern_nd" else 1)[2]
                yield dict(case, sample=[], us=case["us"][:n], vs=case["vs"][:n],
                           **({"ks": case["ks"][:n]} if k == "gumbel_nd" else {}))
            elif case.get("expand"):
                n = self._prod(case["shape"] if k == "bern_nd" else case["shape"][:-1])
                yield dict(case, expand=None, us=case["us"][:n], vs=case["vs"][:n],
                           **({"ks": case["ks"][:n]} if k == "gumbel_nd" else {}))
        if k == "bern":
            for nm in ("u", "v"):
                if case[nm] != "1/2":
                    yield dict(case, **{nm: "1/2"})
        if k == "relax_comb" and case["N"] > 1:
            for n in range(case["N"]):
                yield dict(case, N=1, us=[case["us"][n]], vs=[case["vs"][n]])
        if k == "srswor":
            if case.get("sample_n") is not None:
                yield dict(case, sample_n=None)
            if case.get("counts", "1d") != "1d":
                yield dict(case, counts="1d")
            if case.get("out_omitted"):
                yield dict(case, out_omitted=False)
        if k == "srswor" and len(case["elems"]) > 1:
            for e in case["elems"]:
                yield dict(case, elems=[e], out_size=None if case["out_size"] is None else max(
                    case["out_size"], e["total"]))


CHECK = C19()
