"""C01 — edit distance is the weighted Levenshtein distance, per pair and per prefix.

Correspondence: the real `edit_distance` / `prefix_edit_distances` (functional and module
entry points, both layouts) are run on whole batches; the Lean driver runs the per-column
model of `_string_matching` (Model/StringMatch.lean) on every column with the shared padded
sizes and evaluates the oracle `lev` on the cut sequences. All inputs are float32-exact
(dyadic costs, small sizes), so un-normalised results are compared as equal rationals and
normalised ones against the correctly rounded float32 quotient.

A case is one batch, stored column-wise:
  {"kind": "batch", "mode": "scalar"|"prefix", "entry": "functional"|"module",
   "R", "H", "ref": [[R ints] * N], "hyp": [[H ints] * N], "eos": int|None,
   "include_eos", "norm", "batch_first", "exclude_last": bool, "padding": int,
   "ins", "del", "sub": "n/d"}
or a malformed call {"kind": "malformed", "what": ...} (documented error class only).
"""
import itertools
import warnings
from fractions import Fraction

from common.framework import PropertyCheck, frac_str

COSTS = ["1/4", "1/2", "1", "3/2", "2", "3", "4"]
SIG_LENS = "C01.lens_from_eos.empty_dim"
SIG_EXCL = "C01.prefix.exclude_last_empty_hyp"


# ------------------------------------------------------------------ exact float32 rounding
def f32round(fr):
    """Round a Fraction to the nearest float32 (ties to even), exactly; normal range only."""
    fr = Fraction(fr)
    if fr == 0:
        return fr
    sign = -1 if fr < 0 else 1
    a = abs(fr)
    e = a.numerator.bit_length() - a.denominator.bit_length()
    while Fraction(2) ** e > a:
        e -= 1
    while Fraction(2) ** (e + 1) <= a:
        e += 1
    scale = Fraction(2) ** (e - 23)
    q = a / scale
    n = q.numerator // q.denominator
    rem = q - n
    if rem > Fraction(1, 2) or (rem == Fraction(1, 2) and n % 2 == 1):
        n += 1
    return sign * n * scale


def fs(x):
    return frac_str(Fraction(x))


# ------------------------------------------------------------------ python-side helpers
def seq_len(col, eos, include_eos):
    if eos is None:
        return len(col)
    for i, t in enumerate(col):
        if t == eos:
            return i + 1 if include_eos else i
    return len(col)


def n_rows(case):
    return case["H"] + (0 if case["exclude_last"] else 1)


def call_impl(case, ref_cols, hyp_cols, R, H):
    """Run the real code on the given columns; return the result in column-major canonical
    form: scalar -> [v_n], prefix -> [[v_{k,n} for k] for n] plus the raw shape."""
    import torch
    import pydrobert.torch.functional as F
    import pydrobert.torch.modules as M

    N = len(ref_cols)
    ref = torch.tensor(ref_cols, dtype=torch.long).reshape(N, R)
    hyp = torch.tensor(hyp_cols, dtype=torch.long).reshape(N, H)
    bf = case["batch_first"]
    if not bf:
        ref, hyp = ref.t().contiguous(), hyp.t().contiguous()
    ins, dl, sb = (float(Fraction(case[k])) for k in ("ins", "del", "sub"))
    with warnings.catch_warnings():
        warnings.simplefilter("ignore")
        if case["mode"] == "scalar":
            if case["entry"] == "module":
                out = M.EditDistance(case["eos"], case["include_eos"], case["norm"], bf, ins, dl, sb,
                                     False)(ref, hyp)
            else:
                out = F.edit_distance(ref, hyp, case["eos"], case["include_eos"], case["norm"], bf,
                                      ins, dl, sb, False)
        else:
            if case["entry"] == "module":
                out = M.PrefixEditDistances(case["eos"], case["include_eos"], case["norm"], bf, ins, dl,
                                            sb, case["padding"], case["exclude_last"], False)(ref, hyp)
            else:
                out = F.prefix_edit_distances(ref, hyp, case["eos"], case["include_eos"], case["norm"],
                                              bf, ins, dl, sb, case["padding"], case["exclude_last"],
                                              False)
    shape = list(out.shape)
    if case["mode"] == "scalar":
        vals = [frac_str(v) for v in out.tolist()]
    else:
        o = out if bf else out.t()
        vals = [[frac_str(v) for v in row] for row in o.tolist()]
        if N > 0 and len(vals) == 0:
            vals = [[] for _ in range(N)]
    return {"shape": shape, "dtype": str(out.dtype), "vals": vals}


def repad(col, eos, filler, extra):
    """The same sequence under another padding: cut after the first eos (kept) and append
    `extra` other filler tokens. None when the column has no eos (nothing to re-pad)."""
    if eos is None or eos not in col:
        return None
    i = col.index(eos)
    return col[: i + 1] + [filler] * extra


class C01(PropertyCheck):
    pid = "C01"
    title = "Edit distance is the weighted Levenshtein distance, per pair and per prefix"
    rule = ("a case is one batch (N columns sharing padded sizes R, H) with one option cell "
            "(mode x entry x eos kind x include_eos x norm x batch_first x exclude_last x cost triple). "
            "Streams: exhaustive (all padded columns over {0,1,eos=2}, lengths <= 3 (quick: see "
            "`exhaustive_note`)), eos-position sweeps, random (N<=4, R,H<=6 quick / <=10 thorough, alphabet<=4, "
            "eos unset / in alphabet / absent, random filler after eos, costs from {1/4,1/2,1,3/2,2,3,4}^3), "
            "zero-size dimensions, malformed calls. A column is non-trivial when both cut sequences are "
            "non-empty, the distance is > 0 and not all tokens are equal; distinct by "
            "(ref', hyp', costs, option cell) — counted per column in `distinct_nontrivial_pairs`, "
            "per batch in `distinct_nontrivial`.")
    assumptions = [
        "float32 arithmetic of the implementation is exact on the generated domain (dyadic costs, sizes <= 10); "
        "normalised results are compared with the correctly rounded float32 quotient of the exact value",
        "the model is per column; that a column's result is untouched by the rest of the batch is checked by the "
        "correspondence (whole batches vs per-column model) and by re-running every column alone / re-padded",
        "norm with an empty reference (0/1 convention) is compared model-vs-implementation but is not part of the "
        "property predicate (the property text is silent; C02 covers the convention)",
    ]
    exhaustive = {"quick": False, "thorough": True}
    quick_budget_s = 60
    thorough_budget_s = 650

    def __init__(self):
        self._pairs = set()
        self._oracle_kinds = {}

    # ------------------------------------------------------------------ generators
    def _opt_cells(self):
        """(mode, norm, exclude_last) cells."""
        return [("scalar", False, False), ("scalar", True, False),
                ("prefix", False, False), ("prefix", True, False),
                ("prefix", False, True), ("prefix", True, True)]

    def _mk(self, mode, entry, ref, hyp, R, H, eos, inc, norm, bf, excl, costs, padding=-100):
        return {"kind": "batch", "mode": mode, "entry": entry, "R": R, "H": H, "ref": ref, "hyp": hyp,
                "eos": eos, "include_eos": inc, "norm": norm, "batch_first": bf, "exclude_last": excl,
                "padding": padding, "ins": costs[0], "del": costs[1], "sub": costs[2]}

    def exhaustive_cases(self, rng, maxlen, triples):
        """All padded columns over {0,1,2} (2 = eos) with lengths <= maxlen: for every (R, H) and
        every reference column one batch holding all 3^H hypothesis columns."""
        flip = 0
        for R in range(maxlen + 1):
            for H in range(maxlen + 1):
                hyps = [list(t) for t in itertools.product((0, 1, 2), repeat=H)]
                for r in itertools.product((0, 1, 2), repeat=R):
                    refs = [list(r)] * len(hyps)
                    for inc in (False, True):
                        for (mode, norm, excl) in self._opt_cells():
                            for costs in triples:
                                flip += 1
                                yield self._mk(mode, "module" if flip % 3 == 0 else "functional",
                                               refs, hyps, R, H, 2, inc, norm, flip % 2 == 0, excl, costs)

    def sweep_cases(self, rng, L):
        """eos at every position (0..L, L = absent) of ref x hyp, random filler after it."""
        for _ in range(2):
            A = rng.choice([2, 3, 4])
            eos = A - 1
            body = list(range(A - 1))
            refs, hyps = [], []
            for pr in range(L + 1):
                for ph in range(L + 1):
                    def col(p):
                        c = [rng.choice(body) for _ in range(min(p, L))]
                        if p < L:
                            c.append(eos)
                            c += [rng.randrange(A) for _ in range(L - p - 1)]
                        return c
                    refs.append(col(pr))
                    hyps.append(col(ph))
            for inc in (False, True):
                for (mode, norm, excl) in self._opt_cells():
                    costs = self._costs(rng)
                    yield self._mk(mode, rng.choice(["functional", "module"]), refs, hyps, L, L, eos, inc,
                                   norm, rng.random() < 0.5, excl, costs)

    def _costs(self, rng):
        u = rng.random()
        if u < 0.25:
            c = rng.choice(COSTS)
            return [c, c, c]
        if u < 0.35:
            return ["1", "1", "1"]
        return [rng.choice(COSTS) for _ in range(3)]

    def random_case(self, rng, maxlen, zero_bias=0.12):
        N = rng.choice([1, 1, 2, 3, 4])
        R = 0 if rng.random() < zero_bias else rng.randint(0, maxlen)
        H = 0 if rng.random() < zero_bias else rng.randint(0, maxlen)
        A = rng.randint(1, 4)
        base = rng.choice([0, 0, 0, 1, -2, 1000])
        alphabet = [base + i for i in range(A)]
        kind = rng.choice(["unset", "in", "in", "in", "absent"])
        if kind == "unset":
            eos = None
        elif kind == "in":
            eos = rng.choice(alphabet)
        else:
            eos = base + A + rng.randint(0, 2)
        body = [a for a in alphabet if a != eos] or alphabet

        def col(L):
            style = rng.random()
            if kind != "in" or style < 0.3:
                return [rng.choice(alphabet) for _ in range(L)]
            p = rng.randint(0, L)  # position of the first eos; L = none
            c = [rng.choice(body) for _ in range(p)]
            if body is alphabet and eos in c:
                return c + [rng.choice(alphabet) for _ in range(L - p)]
            if p < L:
                c.append(eos)
                c += [rng.choice(alphabet) for _ in range(L - p - 1)]
            return c

        refs = [col(R) for _ in range(N)]
        hyps = []
        for n in range(N):
            if rng.random() < 0.3 and R and H:
                # a mutated copy of the reference: small distances, ties between edit kinds
                h = list(refs[n])
                for _ in range(rng.randint(0, 2)):
                    if h and rng.random() < 0.5:
                        h[rng.randrange(len(h))] = rng.choice(alphabet)
                    elif h:
                        del h[rng.randrange(len(h))]
                h = (h + [rng.choice(alphabet) for _ in range(H)])[:H]
                hyps.append(h)
            else:
                hyps.append(col(H))
        mode = rng.choice(["scalar", "prefix"])
        return self._mk(mode, rng.choice(["functional", "module"]), refs, hyps, R, H, eos,
                        rng.random() < 0.5, rng.random() < 0.5, rng.random() < 0.5,
                        mode == "prefix" and rng.random() < 0.5, self._costs(rng),
                        padding=rng.choice([-100, -100, -1, 0, 7]))

    def zero_cases(self, rng):
        """Zero-size dimensions in every option cell (the design-phase defect lives here)."""
        for (R, H) in ((0, 0), (0, 2), (2, 0), (0, 1), (1, 0)):
            for eos in (None, 1):
                for inc in (False, True):
                    for (mode, norm, excl) in self._opt_cells():
                        N = rng.choice([1, 2])
                        refs = [[rng.choice([0, 1]) for _ in range(R)] for _ in range(N)]
                        hyps = [[rng.choice([0, 1]) for _ in range(H)] for _ in range(N)]
                        yield self._mk(mode, rng.choice(["functional", "module"]), refs, hyps, R, H, eos,
                                       inc, norm, rng.random() < 0.5, excl, self._costs(rng))
        # an empty batch (outside N >= 1; only has to agree with the model: nothing to report)
        yield self._mk("scalar", "functional", [], [], 2, 3, 1, False, False, False, False, ["1", "1", "1"])
        yield self._mk("prefix", "functional", [], [], 2, 3, None, True, False, True, False, ["1", "2", "3"])

    def malformed_cases(self):
        for what in ("ref_1d", "hyp_3d", "batch_mismatch", "batch_mismatch_bf"):
            for mode in ("scalar", "prefix"):
                yield {"kind": "malformed", "what": what, "mode": mode}

    def cases(self, rng, tier):
        if tier == "quick":
            triples = [["1", "1", "1"], ["1/2", "1", "3/2"]]
            n_random, maxlen, exh_len = 700, 6, 2
        elif tier == "thorough":
            triples = [["1", "1", "1"], ["2", "2", "2"], ["1/2", "1", "3/2"], ["3", "1/4", "2"]]
            n_random, maxlen, exh_len = 20000, 10, 3
        else:  # search
            triples = [["1", "1", "1"], ["2", "2", "2"], ["1/2", "1", "3/2"], ["3", "1/4", "2"], ["1", "4", "1/2"]]
            n_random, maxlen, exh_len = 30000, 10, 3
        yield from self.malformed_cases()
        yield from self.zero_cases(rng)
        yield from self.sweep_cases(rng, 4 if tier == "quick" else 6)
        # interleave so that a time budget cuts both streams evenly
        exh = self.exhaustive_cases(rng, exh_len, triples)
        if tier == "quick":
            # quick: lengths <= 2 in every cell, plus lengths == 3 for one rotating option cell per (ref, R, H)
            exh = itertools.chain(exh, self._quick_len3(rng))
        k = 0
        for c in exh:
            yield c
            k += 1
            if k % 2 == 0 and n_random > 0:
                n_random -= 1
                yield self.random_case(rng, maxlen)
        for _ in range(n_random):
            yield self.random_case(rng, maxlen)

    def _quick_len3(self, rng):
        cells = self._opt_cells()
        flip = rng.randrange(1000)
        for R, H in ((3, 3), (3, 2), (2, 3), (3, 0), (0, 3), (3, 1), (1, 3)):
            hyps = [list(t) for t in itertools.product((0, 1, 2), repeat=H)]
            for r in itertools.product((0, 1, 2), repeat=R):
                flip += 1
                mode, norm, excl = cells[flip % len(cells)]
                costs = [["1", "1", "1"], ["1/2", "1", "3/2"], ["3", "1/4", "2"]][flip % 3]
                yield self._mk(mode, "module" if flip % 4 == 0 else "functional", [list(r)] * len(hyps), hyps,
                               R, H, 2, flip % 2 == 0, norm, flip % 5 < 2, excl, costs)

    # ------------------------------------------------------------------ implementation
    def run_impl(self, case):
        if case["kind"] == "malformed":
            return self._run_malformed(case)
        R, H = case["R"], case["H"]
        out = call_impl(case, case["ref"], case["hyp"], R, H)
        # batch independence: every column alone, and alone under another padding
        alone, repadded = [], []
        eos = case["eos"]
        if len(case["ref"]) > 1 or eos is not None:
            for r, h in zip(case["ref"], case["hyp"]):
                alone.append(call_impl(case, [r], [h], R, H)["vals"][0])
                toks = r + h + ([eos] if eos is not None else [])
                filler = max(toks, default=0) + 1
                r2, h2 = repad(r, eos, filler, 2), repad(h, eos, eos if eos is not None else 0, 1)
                if r2 is None and h2 is None:
                    repadded.append(None)
                else:
                    r2 = r if r2 is None else r2
                    h2 = h if h2 is None else h2
                    repadded.append({"H": len(h2),
                                     "vals": call_impl(case, [r2], [h2], len(r2), len(h2))["vals"][0]})
        out["alone"] = alone
        out["repadded"] = repadded
        return out

    def _run_malformed(self, case):
        import torch
        import pydrobert.torch.functional as F
        f = F.edit_distance if case["mode"] == "scalar" else F.prefix_edit_distances
        z = lambda *s: torch.zeros(s, dtype=torch.long)
        w = case["what"]
        with warnings.catch_warnings():
            warnings.simplefilter("ignore")
            if w == "ref_1d":
                f(z(3), z(3, 1))
            elif w == "hyp_3d":
                f(z(3, 1), z(3, 1, 1))
            elif w == "batch_mismatch":
                f(z(3, 2), z(3, 3))
            else:
                f(z(2, 3), z(3, 3), batch_first=True)
        return {"returned": True}

    def model_request(self, case):
        if case["kind"] == "malformed":
            return None
        return {"op": "c01.batch", "case": {
            "cols": [{"ref": r, "hyp": h} for r, h in zip(case["ref"], case["hyp"])],
            "eos": case["eos"], "include_eos": case["include_eos"], "norm": case["norm"],
            "exclude_last": case["exclude_last"], "padding": case["padding"],
            "ins": case["ins"], "del": case["del"], "sub": case["sub"], "mode": case["mode"]}}

    # ------------------------------------------------------------------ comparison
    def _expected_shape(self, case):
        N = len(case["ref"])
        if case["mode"] == "scalar":
            return [N]
        return [N, n_rows(case)] if case["batch_first"] else [n_rows(case), N]

    def compare(self, case, impl, model):
        if case["kind"] == "malformed":
            return []
        if "error" in impl:
            return [f"implementation raised {impl['error']}: {impl.get('message')}"]
        out = []
        if impl["shape"] != self._expected_shape(case):
            out.append(f"shape impl={impl['shape']} expected={self._expected_shape(case)}")
        if impl["dtype"] != "torch.float32":
            out.append(f"dtype {impl['dtype']}")
        for n, (iv, mc) in enumerate(zip(impl["vals"], model["cols"])):
            mv = mc["model"]
            if case["mode"] == "scalar":
                want = fs(f32round(Fraction(mv)))
                if iv != want:
                    out.append(f"col {n}: impl={iv} model={mv} (float32: {want})")
            else:
                want = [fs(f32round(Fraction(v))) for v in mv]
                if iv != want:
                    out.append(f"col {n}: impl={iv} model={mv} (float32: {want})")
        if len(impl["vals"]) != len(model["cols"]):
            out.append("number of columns differs")
        return out

    def _expect_col(self, case, spec):
        """What the property demands for one column, from the Lean oracle. None = not specified."""
        rl, hl = len(spec["ref_cut"]), len(spec["hyp_cut"])
        if case["norm"] and rl == 0:
            return None  # division by zero: the property text is silent
        nrm = (lambda x: f32round(x / rl)) if case["norm"] else (lambda x: x)
        if case["mode"] == "scalar":
            return fs(nrm(Fraction(spec["lev"])))
        valid = hl + (0 if case["exclude_last"] else 1)
        return [fs(nrm(Fraction(spec["prefix_lev"][k]))) if k < valid else fs(case["padding"])
                for k in range(n_rows(case))]

    def predicate(self, case, impl, model):
        if case["kind"] == "malformed":
            if impl.get("error") != "RuntimeError":
                return [(f"malformed call ({case['what']}) did not raise RuntimeError: {impl}", None)]
            return []
        if "error" in impl:
            sig = None
            if impl["error"] == "RuntimeError" and case["eos"] is not None and 0 in (case["R"], case["H"]):
                sig = SIG_LENS
            elif (impl["error"] == "IndexError" and case["mode"] == "prefix" and case["exclude_last"]
                  and case["H"] == 0):
                sig = SIG_EXCL
            return [(f"{case['entry']} {case['mode']} raised {impl['error']} on an in-domain batch "
                     f"(R={case['R']}, H={case['H']}, eos={case['eos']}): {impl.get('message')}", sig)]
        fails = []
        if impl["shape"] != self._expected_shape(case):
            fails.append((f"result shape {impl['shape']}, expected {self._expected_shape(case)}", None))
        if model is None:
            return fails
        for n, (iv, mc) in enumerate(zip(impl["vals"], model["cols"])):
            spec = mc["spec"]
            want = self._expect_col(case, spec)
            if want is not None and iv != want:
                fails.append((f"column {n}: ref'={spec['ref_cut']} hyp'={spec['hyp_cut']} costs="
                              f"({case['ins']},{case['del']},{case['sub']}): reported {iv}, weighted Levenshtein "
                              f"{'per prefix ' if case['mode'] == 'prefix' else ''}says {want}", None))
            # batch / padding independence
            if impl["alone"]:
                if impl["alone"][n] != iv:
                    fails.append((f"column {n}: value inside the batch {iv} differs from the same pair alone "
                                  f"{impl['alone'][n]}", None))
                rp = impl["repadded"][n]
                if rp is not None:
                    if case["mode"] == "scalar":
                        same = rp["vals"] == iv
                    else:
                        valid = len(spec["hyp_cut"]) + (0 if case["exclude_last"] else 1)
                        pad = fs(case["padding"])
                        a, b = rp["vals"], iv
                        m = min(valid, len(a), len(b))
                        same = (a[:m] == b[:m] and all(x == pad for x in a[valid:])
                                and all(x == pad for x in b[valid:])
                                and len(a) == rp["H"] + (0 if case["exclude_last"] else 1))
                    if not same:
                        fails.append((f"column {n}: value {iv} changes to {rp['vals']} when only the padding after "
                                      f"the end-of-sequence token changes", None))
        return fails

    # ------------------------------------------------------------------ evidence
    def _cols_info(self, case):
        for r, h in zip(case["ref"], case["hyp"]):
            rc = r[: seq_len(r, case["eos"], case["include_eos"])]
            hc = h[: seq_len(h, case["eos"], case["include_eos"])]
            yield rc, hc

    def nontrivial(self, case, impl):
        if case["kind"] != "batch":
            return False
        return any(rc and hc and rc != hc and len(set(rc + hc)) > 1 for rc, hc in self._cols_info(case))

    def key(self, case):
        cell = (case["mode"], case["entry"], case["eos"] is None, case["include_eos"], case["norm"],
                case["batch_first"], case["exclude_last"], case["ins"], case["del"], case["sub"])
        cols = [(tuple(rc), tuple(hc)) for rc, hc in self._cols_info(case)]
        return repr((cell, cols))

    def tags(self, case, impl):
        if case["kind"] == "malformed":
            return ["malformed:" + case["what"]]
        t = [f"mode={case['mode']}", f"entry={case['entry']}", f"include_eos={case['include_eos']}",
             f"norm={case['norm']}", f"batch_first={case['batch_first']}",
             f"exclude_last={case['exclude_last']}", f"N={min(len(case['ref']), 5)}{'+' if len(case['ref']) > 5 else ''}"]
        eos = case["eos"]
        toks = [x for c in case["ref"] + case["hyp"] for x in c]
        t.append("eos=" + ("unset" if eos is None else ("in_data" if eos in toks else "absent")))
        uni = case["ins"] == case["del"] == case["sub"]
        t.append("costs=" + ("unit" if uni and case["ins"] == "1" else "uniform_shortcut" if uni else "nonuniform"))
        if case["R"] == 0:
            t.append("R=0")
        if case["H"] == 0:
            t.append("H=0")
        if eos is not None and any(c and c[0] == eos for c in case["ref"] + case["hyp"]):
            t.append("eos_at_position_0")
        if eos is not None and any(c.count(eos) > 1 or (eos in c and c.index(eos) < len(c) - 1)
                                   for c in case["ref"] + case["hyp"]):
            t.append("filler_after_eos")
        lens = {(len(rc), len(hc)) for rc, hc in self._cols_info(case)}
        if len(lens) > 1:
            t.append("ragged_batch")
        if any(not rc for rc, _ in self._cols_info(case)):
            t.append("empty_ref'")
        if any(not hc for _, hc in self._cols_info(case)):
            t.append("empty_hyp'")
        cell = (case["mode"], case["include_eos"], case["norm"], case["exclude_last"], case["ins"], case["del"],
                case["sub"])
        for rc, hc in self._cols_info(case):
            if rc and hc and rc != hc and len(set(rc + hc)) > 1:
                self._pairs.add((tuple(rc), tuple(hc), cell))
        return t

    def extra_checks(self, rng, tier, report):
        report["extra"]["distinct_nontrivial_pairs"] = len(self._pairs)
        report["extra"]["exhaustive_note"] = (
            "exhaustive stream: every padded column pair over {0,1,eos=2} with lengths <= "
            + ("2 in all 12 option cells x 2 cost triples, lengths 3 in one rotating cell per reference column"
               if tier == "quick" else "3 in all 12 option cells x 4 cost triples")
            + "; complete iff generator_exhausted is true")

    # ------------------------------------------------------------------ shrinking
    def shrink(self, case):
        if case["kind"] != "batch":
            return
        N = len(case["ref"])
        if N > 1:
            for n in range(N):
                c = dict(case)
                c["ref"] = [case["ref"][n]]
                c["hyp"] = [case["hyp"][n]]
                yield c
        for dim, key in (("R", "ref"), ("H", "hyp")):
            if case[dim] > 0:
                for pos in (case[dim] - 1, 0):
                    c = dict(case)
                    c[dim] = case[dim] - 1
                    c[key] = [col[:pos] + col[pos + 1:] for col in case[key]]
                    yield c
        for k in ("batch_first", "norm", "include_eos", "exclude_last"):
            if case[k]:
                c = dict(case)
                c[k] = False
                yield c
        if case["entry"] == "module":
            yield dict(case, entry="functional")
        if case["mode"] == "prefix" and not case["exclude_last"]:
            yield dict(case, mode="scalar")
        for k in ("ins", "del", "sub"):
            if case[k] != "1":
                yield dict(case, **{k: "1"})
        if case["padding"] != -100:
            yield dict(case, padding=-100)
        toks = sorted({x for col in case["ref"] + case["hyp"] for x in col})
        for key in ("ref", "hyp"):
            for n, col in enumerate(case[key]):
                for i, x in enumerate(col):
                    if x != 0 and x != case["eos"]:
                        c = dict(case)
                        cols = [list(cc) for cc in case[key]]
                        cols[n][i] = 0
                        c[key] = cols
                        yield c


CHECK = C01()
