"""C01 — edit distance is the weighted Levenshtein distance, per pair and per prefix.

Correspondence: the real `edit_distance` / `prefix_edit_distances` (functional and module
entry points, both layouts) are run on whole batches; the Lean driver runs the per-column
model of `_string_matching` (Model/StringMatch.lean) on every column with the shared padded
sizes, the tensor-level model (Model/StringMatchBatch.lean) on the whole batch in the layout
of the call, and evaluates the oracle `lev` on the cut sequences. All inputs are float32-exact
(dyadic costs, small sizes), so un-normalised results are compared as equal rationals and
normalised ones against the correctly rounded float32 quotient.

A case is one batch, stored column-wise:
  {"kind": "batch", "mode": "scalar"|"prefix", "entry": "functional"|"module",
   "R", "H", "ref": [[R ints] * N], "hyp": [[H ints] * N], "eos": int|None,
   "include_eos", "norm", "batch_first", "exclude_last": bool, "padding": int,
   "ins", "del", "sub": "n/d"}
or a malformed call {"kind": "malformed", "what": ...} (documented error class only),
or a LARGE batch that is not stored but regenerated from a seed:
  {"kind": "big", "family": which size measure it pushes, "N", "R", "H", "gen": {"seed", "alphabet", "noise"},
   + the option cell and presentation keys of a batch; optional "n_sample"}
(see `expand_big`, `sample_indices`: all pairs are checked model-free - permuted batch, split batch - and a
sample of pairs is re-run alone and sent to the Lean oracle, op `c01.sample`).

Optional keys (how the SAME batch is handed to the library; absent = the plain form):
  "warn": bool, "call"/"ctor": "positional"|"keyword"|"minimal"|"mixed" (functional call / module
  constructor: all positional, all keywords in another order, documented defaults omitted, a mix),
  "cost_type": "float"|"int"|"numpy", "tok_dtype": [ref dtype, hyp dtype],
  "layout": [ref layout, hyp layout] from "contig"|"tview"|"strided"|"expand",
  "alias": bool (hyp IS the ref tensor), "default_dtype": "float64"|None.
  "tok_dtype" may name two DIFFERENT dtypes: ref holds only values of the first, hyp only values of the second, the
  eos may lie outside either ("alias_bits": the modulus under which `alias_tokens` made different tokens congruent;
  informational). Big cases: gen["alias"] = {"bits", "side", "k", "p", optional "eos_out"} (see `expand_big`).
  "life" (module entry only): {"init": {attribute: value the module is CONSTRUCTED with; it is reassigned
  to the case's value before the observed call}, "warm": "none"|"same"|"other" (a call between construction
  and reassignment, on this batch / on one of another shape), "post": bool (one more call afterwards, another
  shape), "hand": "deepcopy"|"copy"|"pickle" (the observed call is made on such a copy of the re-tuned object),
  "train": bool (train() / eval() before the call)}. Judged as a fresh module with the case's values.
None of these may change a single reported number; the model never sees them (the Lean driver replays
"life" on its record model of the module and checks that the re-tuned record is the fresh one).
"""
import copy
import itertools
import pickle
import warnings
from fractions import Fraction

from common.framework import PropertyCheck, frac_str

COSTS = ["1/4", "1/2", "1", "3/2", "2", "3", "4"]
COST_SCALES = [-100, -20, 20, 40, 100]
# the 2-D malformed calls (batch sizes differ): shapes of (ref, hyp) as handed to the library
MALFORMED_2D = {"batch_mismatch": ([3, 2], [3, 3]), "batch_mismatch_bf": ([2, 3], [3, 3]),
                "batch_mismatch_empty": ([0, 2], [0, 3])}
STYLES = ["positional", "keyword", "minimal", "mixed"]
PADDINGS = [-100, -100, -1, 0, 1, 7, -2 ** 24, 2 ** 31 + 5]
# token values for relabelling: around the places where a narrower or a floating representation
# would merge neighbours (2^24 float32, 2^53 float64, int32 / int64 limits), the library's own
# INDEX_PAD_VALUE (-100), zero and negatives
TOKEN_POOL = [0, 1, -1, 2, -2, 7, -100, -99, 255, 256, -32768, 32767, 2 ** 24, 2 ** 24 + 1, 2 ** 31 - 1,
              -2 ** 31, 2 ** 31, 2 ** 53, 2 ** 53 + 1, 2 ** 63 - 1, 2 ** 63 - 2, -2 ** 63, -2 ** 63 + 1]
TOKEN_BASES = [2 ** 24 - 1, 2 ** 31 - 2, 2 ** 53 - 1, -2 ** 63, -2 ** 31 - 1, -101, -1, 250, 2 ** 62]
SIG_LENS = "C01.lens_from_eos.empty_dim"
SIG_EXCL = "C01.prefix.exclude_last_empty_hyp"


# ------------------------------------------------------------------ exact float32 rounding
def f32round(fr):
    """Round a Fraction to the nearest float32 (ties to even), exactly; normal range only."""
    fr = Fraction(fr)
    if fr == 0:
        return fr
    sign = -1 if fr < 0 else 1
    a = abs(fr)
    e = a.numerator.bit_length() - a.denominator.bit_length()
    while Fraction(2) ** e > a:
        e -= 1
    while Fraction(2) ** (e + 1) <= a:
        e += 1
    scale = Fraction(2) ** (e - 23)
    q = a / scale
    n = q.numerator // q.denominator
    rem = q - n
    if rem > Fraction(1, 2) or (rem == Fraction(1, 2) and n % 2 == 1):
        n += 1
    return sign * n * scale


def fs(x):
    return frac_str(Fraction(x))


# ------------------------------------------------------------------ python-side helpers
def seq_len(col, eos, include_eos):
    if eos is None:
        return len(col)
    for i, t in enumerate(col):
        if t == eos:
            return i + 1 if include_eos else i
    return len(col)


def n_rows(case):
    return case["H"] + (0 if case["exclude_last"] else 1)


# ------------------------------------------------------------------ how a batch is handed over
# Signatures as documented at the pinned tree (names, order, defaults). A call style that omits
# an argument relies on the default written here, so a changed default / reordered parameter in
# the library shows up as a wrong number.
ORDER = {
    "scalar": ["eos", "include_eos", "norm", "batch_first", "ins_cost", "del_cost", "sub_cost", "warn"],
    "prefix": ["eos", "include_eos", "norm", "batch_first", "ins_cost", "del_cost", "sub_cost", "padding",
               "exclude_last", "warn"],
}
DOC_DEFAULTS = {
    "scalar": {"eos": None, "include_eos": False, "norm": False, "batch_first": False, "ins_cost": 1.0,
               "del_cost": 1.0, "sub_cost": 1.0, "warn": True},
    "prefix": {"eos": None, "include_eos": True, "norm": False, "batch_first": False, "ins_cost": 1.0,
               "del_cost": 1.0, "sub_cost": 1.0, "padding": -100, "exclude_last": False, "warn": True},
}
DTYPE_RANGE = {"int64": (-2 ** 63, 2 ** 63 - 1), "int32": (-2 ** 31, 2 ** 31 - 1),
               "int16": (-2 ** 15, 2 ** 15 - 1), "int8": (-128, 127), "uint8": (0, 255)}
WARN_KINDS = (("in ref did not", "no_eos_ref"), ("in hyp did not", "no_eos_hyp"),
              ("ref contains empty transcripts", "empty_ref"))
DTYPES = ["uint8", "int8", "int16", "int32", "int64"]
DT_BITS = {"int64": 64, "int32": 32, "int16": 16, "int8": 8, "uint8": 8}
SIG_EOSWRAP = "C01.eos_outside_token_dtype"


def wrap_to(x, dtype_name):
    """x reduced into the range of an integer dtype modulo 2^bits (what a cast does)."""
    lo, hi = DTYPE_RANGE[dtype_name]
    return (x - lo) % (hi - lo + 1) + lo


def alias_combos():
    """(ref dtype, hyp dtype, b): every ORDERED pair of integer dtypes together with every modulus 2^b,
    b in {8, 16, 32}, under which two different integers that the two tensors can hold are congruent
    (some side is wider than b bits, or the pair is uint8 / int8: 200 and -56)."""
    out = []
    for dr in DTYPES:
        for dh in DTYPES:
            for b in (8, 16, 32):
                if b < max(DT_BITS[dr], DT_BITS[dh]) or (b == 8 and {dr, dh} == {"uint8", "int8"}):
                    out.append((dr, dh, b))
    return out


def congruent(r, M, lo, hi, rng, used=(), nonzero_from=None):
    """Some values r + k*M inside [lo, hi] that are not in `used` (k at both ends of what fits, around 0,
    and one at random); with `nonzero_from` = v: other values than v."""
    kmin = -((r - lo) // M)
    kmax = (hi - r) // M
    if kmin > kmax:
        return []
    ks = {kmin, kmax, rng.randint(kmin, kmax)} | {k for k in (0, 1, -1, 2, -2, 3) if kmin <= k <= kmax}
    return sorted(v for v in (r + k * M for k in ks) if v not in used and v != nonzero_from)


def py_prefix_levs(rc, hc, ins, dl, sb):
    """Weighted Levenshtein distance between rc and every prefix of hc (plain two-row DP on Fractions): only
    used to recognise the SPECIFIC wrong numbers of a listed finding, never as the oracle."""
    row = [j * dl for j in range(len(rc) + 1)]
    out = [row[-1]]
    for h in hc:
        new = [row[0] + ins]
        for j in range(1, len(rc) + 1):
            new.append(min(row[j] + ins, new[j - 1] + dl, row[j - 1] + (0 if rc[j - 1] == h else sb)))
        row = new
        out.append(row[-1])
    return out


def _is_default(v, d):
    if d is None or v is None or isinstance(d, bool) or isinstance(v, bool):
        return v is d
    return type(v) in (int, float) and v == d


def split_args(values, order, defaults, style):
    """(positional list, keyword dict) for one call style."""
    if style == "keyword":
        return [], {k: values[k] for k in reversed(order)}
    if style == "minimal":
        return [], {k: values[k] for k in order if not _is_default(values[k], defaults[k])}
    if style == "mixed":
        return ([values[k] for k in order[:3]],
                {k: values[k] for k in reversed(order[3:]) if not _is_default(values[k], defaults[k])})
    return [values[k] for k in order], {}


def option_values(case):
    import numpy as np
    costs = [Fraction(case[k]) for k in ("ins", "del", "sub")]
    ct = case.get("cost_type", "float")
    if ct == "int" and all(c.denominator == 1 and c < 2 ** 31 for c in costs):
        cv = [int(c) for c in costs]
    elif ct == "numpy" and case["entry"] == "module":
        cv = [np.float32(float(costs[0])), np.float64(float(costs[1])), float(costs[2])]
    else:
        cv = [float(c) for c in costs]
    eos = case["eos"]
    if ct == "numpy" and case["entry"] == "module" and eos is not None:
        eos = np.int64(eos)
    v = {"eos": eos, "include_eos": case["include_eos"], "norm": case["norm"],
         "batch_first": case["batch_first"], "ins_cost": cv[0], "del_cost": cv[1], "sub_cost": cv[2],
         "warn": case.get("warn", False)}
    if case["mode"] == "prefix":
        v["padding"] = case["padding"]
        v["exclude_last"] = case["exclude_last"]
    return v


def garbage_tokens(case):
    if case["kind"] == "big":
        return list(range(case["gen"]["alphabet"] + 2))
    toks = sorted({x for c in case["ref"] + case["hyp"] for x in c} | ({case["eos"]} if case["eos"] is not None else set()))
    return toks or [0]


def make_tensor(cols, L, bf, dtype_name, layout, garbage):
    """The logical N x L batch as a tensor of shape (N, L) / (L, N) in the requested memory layout.
    Returns (tensor handed to the library, backing storage tensor that must stay untouched)."""
    import torch
    dtype = getattr(torch, dtype_name)
    N = len(cols)
    lo, hi = DTYPE_RANGE[dtype_name]
    garbage = [g for g in garbage if lo <= g <= hi] or [0]
    if torch.is_tensor(cols):  # a generated (N, L) int64 batch (the large-problem stream)
        m64 = cols.reshape(N, L)
        same = N >= 1 and bool((m64 == m64[:1]).all())
    else:
        m64 = torch.tensor(cols, dtype=torch.int64).reshape(N, L)
        same = N >= 1 and all(c == cols[0] for c in cols)
    if m64.numel() and not (int(m64.min()) >= lo and int(m64.max()) <= hi):
        # (a cast would wrap silently: the harness never hands the library a token the tensor cannot hold)
        raise AssertionError(f"harness: token outside the range of {dtype_name}")
    m = m64.to(dtype)
    t = m if bf else m.t()
    if layout == "expand" and same:
        col = m[0].clone().reshape(L)
        base = col
        view = col.unsqueeze(0).expand(N, L) if bf else col.unsqueeze(1).expand(L, N)
        return view, base
    if layout == "tview":
        base = t.t().contiguous()
        return base.t(), base
    if layout == "strided":
        S0, S1 = t.shape
        g = torch.tensor(garbage, dtype=dtype)
        n_el = (2 * S0 + 1) * (2 * S1 + 3)
        base = g[torch.arange(n_el) % len(garbage)].reshape(2 * S0 + 1, 2 * S1 + 3).clone()
        view = base[1::2, 2::2][:S0, :S1]
        view.copy_(t)
        return view, base
    base = t.contiguous()
    return base, base


class _DefaultDtype:
    def __init__(self, name):
        self.name = name

    def __enter__(self):
        import torch
        self.old = torch.get_default_dtype()
        if self.name:
            torch.set_default_dtype(getattr(torch, self.name))

    def __exit__(self, *a):
        import torch
        torch.set_default_dtype(self.old)


# ------------------------------------------------------------------ the life cycle of a module object
# Every documented public attribute of EditDistance / PrefixEditDistances (= the constructor parameters, listed in
# ORDER) may be REASSIGNED after construction; what the module computes afterwards is judged as a freshly
# constructed module with the current values (case["life"], see `make_life`). Values are stored JSON-able
# (costs as "n/d") and turned into the documented python types here.
def life_init_values(case, values):
    """The constructor values of a module with a life: the case's option cell except for the attributes that
    are reassigned later (life["init"] holds what THEY are constructed with)."""
    life = case.get("life")
    v = dict(values)
    if not life:
        return v
    for k, x in life["init"].items():
        if k not in v:
            continue
        v[k] = float(Fraction(x)) if k.endswith("_cost") else x
    return v


def assigned_value(k, want):
    """What is assigned to attribute k: the documented python type (float / int / None / bool)."""
    if k.endswith("_cost"):
        return float(want)
    if k in ("eos", "padding"):
        return None if want is None else int(want)
    return bool(want)


def attr_problems(mod, mode, values, how):
    bad = []
    rep = mod.extra_repr()
    for k in ORDER[mode]:
        got = getattr(mod, k, "<missing>")
        want = values[k]
        if k.endswith("_cost"):
            ok = type(got) is float and got == float(want)
        elif k in ("eos", "padding"):
            ok = (got is None and want is None) or (type(got) is int and want is not None
                                                    and got == int(want))
        else:
            ok = got is want or (type(got) is bool and type(want) is bool and got == want)
        if not ok:
            bad.append(f"{k}: attribute {got!r}, {how} {want!r}")
        elif f"{k}={got}" not in rep.split(", "):
            bad.append(f"{k}={got} not in extra_repr() {rep!r}")
    return bad


def other_batch(ref_cols, hyp_cols, R, H, filler):
    """A small batch of ANOTHER shape made from the first columns of this one (N, R and H all differ):
    (ref (N', R+1), hyp (N', H-1 | H+1)) as int64 tensors."""
    import torch
    as_t = lambda c, L: (c if torch.is_tensor(c) else torch.tensor(c, dtype=torch.int64).reshape(len(c), L))
    r, h = as_t(ref_cols, R)[:3], as_t(hyp_cols, H)[:3]
    N = len(ref_cols)
    n = r.shape[0]
    if n == 0:
        r = torch.full((1, R), filler, dtype=torch.int64)
        h = torch.full((1, H), filler, dtype=torch.int64)
        n = 1
    if n == N or N == 0:  # (the batch size must differ as well)
        r, h = torch.cat([r, r[:1]], 0), torch.cat([h, h[:1]], 0)
    r = torch.cat([r, r[:, :1] if R else torch.full((r.shape[0], 1), filler, dtype=torch.int64)], 1)
    h = h[:, : H - 1] if H >= 2 else torch.cat([h, torch.full((h.shape[0], 1), filler, dtype=torch.int64)], 1)
    return r.contiguous(), h.contiguous(), r.shape[1], h.shape[1]


def module_vs_functional(mod, mode, values, case, ref_cols, hyp_cols, R, H):
    """Call the module object on a batch and the functional with `values` (what the module's attributes are
    at this moment) on the same tensors: None when bit-identical, else a description."""
    import torch
    import pydrobert.torch.functional as F
    dts = case.get("tok_dtype") or ["int64", "int64"]
    lay = case.get("layout") or ["contig", "contig"]
    garbage = garbage_tokens(case)
    bf = values["batch_first"]
    ref, _ = make_tensor(ref_cols, R, bf, dts[0], lay[0], garbage)
    hyp, _ = make_tensor(hyp_cols, H, bf, dts[1], lay[1], garbage)
    got = mod(ref, hyp)
    f = F.edit_distance if mode == "scalar" else F.prefix_edit_distances
    want = f(ref, hyp, **{k: values[k] for k in ORDER[mode]})
    if got.shape == want.shape and got.dtype == want.dtype and torch.equal(got, want):
        return None
    show = lambda t: t.tolist() if t.numel() <= 24 else f"<shape {list(t.shape)}>"
    return (f"shapes ref {list(ref.shape)} hyp {list(hyp.shape)}: module {show(got)}, functional with the "
            f"module's current attribute values {show(want)}")


def call_impl(case, ref_cols, hyp_cols, R, H, light=False, tensor_out=False):
    """Run the real code on the given columns (lists of columns, or (N, L) int64 tensors); return the
    result in column-major canonical form: scalar -> [v_n], prefix -> [[v_{k,n} for k] for n] plus the
    raw shape. Unless `light`, also: the library warnings raised, whether the inputs were written to,
    module attributes, and (module entry) the result of a second call on the same object.
    `tensor_out`: return (the tensor as returned by the library, the extra observations) instead.
    Module entry with case["life"]: the module is constructed with OTHER values for some attributes
    (optionally called once on the same / another batch), the attributes are then reassigned to the case's
    option cell, and only then comes the call that is observed."""
    import torch
    import pydrobert.torch.functional as F
    import pydrobert.torch.modules as M

    N = len(ref_cols)
    bf = case["batch_first"]
    dts = case.get("tok_dtype") or ["int64", "int64"]
    lay = case.get("layout") or ["contig", "contig"]
    garbage = garbage_tokens(case)
    g_lo = max(DTYPE_RANGE[d][0] for d in dts)
    g_hi = min(DTYPE_RANGE[d][1] for d in dts)
    fill_other = next((g for g in garbage if g_lo <= g <= g_hi), 0)  # (fits both tensors)
    ref, ref_base = make_tensor(ref_cols, R, bf, dts[0], lay[0], garbage)
    if case.get("alias") and R == H and not torch.is_tensor(ref_cols) and ref_cols == hyp_cols:
        hyp, hyp_base = ref, ref_base
    else:
        hyp, hyp_base = make_tensor(hyp_cols, H, bf, dts[1], lay[1], garbage)
    keep = None if light else (ref_base.clone(), hyp_base.clone())
    mode = case["mode"]
    values = option_values(case)
    extra = {}
    mod = None
    life = case.get("life") if case["entry"] == "module" else None
    if case["entry"] == "module":
        # construction (+ the part of the object's life that lies before the observed call)
        cls = M.EditDistance if mode == "scalar" else M.PrefixEditDistances
        init = life_init_values(case, values)
        pos, kw = split_args(init, ORDER[mode], DOC_DEFAULTS[mode], case.get("ctor", "positional"))
        with _DefaultDtype(case.get("default_dtype")), warnings.catch_warnings():
            warnings.simplefilter("ignore")
            mod = cls(*pos, **kw)
            if life:
                if not light:
                    extra["module_attrs"] = attr_problems(mod, mode, init, "constructed with")
                    plain_init = {k: (assigned_value(k, init[k])) for k in ORDER[mode]}
                    bad = None
                    if life.get("warm") == "same":
                        bad = module_vs_functional(mod, mode, plain_init, case, ref_cols, hyp_cols, R, H)
                    elif life.get("warm") == "other":
                        bad = module_vs_functional(mod, mode, plain_init, case,
                                                   *other_batch(ref_cols, hyp_cols, R, H, fill_other))
                    if bad:
                        extra.setdefault("life_calls", []).append("call before the reassignment, " + bad)
                for k in life["init"]:
                    if k in values:
                        setattr(mod, k, assigned_value(k, values[k]))
                # the re-tuned object may reach the observed call as a copy of itself, and in either mode
                hand = life.get("hand", "same")
                if hand == "deepcopy":
                    mod = copy.deepcopy(mod)
                elif hand == "copy":
                    mod = copy.copy(mod)
                elif hand == "pickle":
                    mod = pickle.loads(pickle.dumps(mod))
                if life.get("train") is not None:
                    mod.train(bool(life["train"]))
    with _DefaultDtype(case.get("default_dtype")), warnings.catch_warnings(record=True) as wlist:
        warnings.simplefilter("always")
        if case["entry"] == "module":
            out = mod(ref, hyp)
            if not light:
                extra["module_attrs"] = (extra.get("module_attrs") or []) + attr_problems(
                    mod, mode, values, "assigned" if life else "constructed with")
                out2 = mod.forward(ref, hyp)  # (the documented method itself, not through __call__)
                extra["second_call_same"] = bool(out2.shape == out.shape and out2.dtype == out.dtype
                                                 and torch.equal(out2, out))
        else:
            f = F.edit_distance if mode == "scalar" else F.prefix_edit_distances
            pos, kw = split_args(values, ORDER[mode], DOC_DEFAULTS[mode], case.get("call", "positional"))
            out = f(ref, hyp, *pos, **kw)
    if life and not light and life.get("post"):
        # the same object once more, on a batch of another shape
        with _DefaultDtype(case.get("default_dtype")), warnings.catch_warnings():
            warnings.simplefilter("ignore")
            plain = {k: assigned_value(k, values[k]) for k in ORDER[mode]}
            bad = module_vs_functional(mod, mode, plain, case, *other_batch(ref_cols, hyp_cols, R, H, fill_other))
            if bad:
                extra.setdefault("life_calls", []).append("call after the observed one, " + bad)
    if not light:
        kinds = set()
        for w in wlist:
            msg = str(w.message)
            for needle, kind in WARN_KINDS:
                if needle in msg:
                    kinds.add(kind)
        extra["warned"] = sorted(kinds)
        extra["inputs_untouched"] = bool(torch.equal(ref_base, keep[0]) and torch.equal(hyp_base, keep[1]))
    if tensor_out:
        return out, extra
    shape = list(out.shape)
    if mode == "scalar":
        vals = [frac_str(v) for v in out.tolist()]
    else:
        o = out if bf else out.t()
        vals = [[frac_str(v) for v in row] for row in o.tolist()]
        if N > 0 and len(vals) == 0:
            vals = [[] for _ in range(N)]
    res = {"shape": shape, "dtype": str(out.dtype), "vals": vals}
    if not light and mode == "prefix":
        res["raw"] = [[frac_str(v) for v in row] for row in out.tolist()]  # the table as returned (native layout)
    res.update(extra)
    return res


# ------------------------------------------------------------------ the large-problem stream
# A "big" case does not store its batch: it stores the sizes and a generator seed, and the batch is
# rebuilt from them (numpy PCG64, stable) whenever it is needed. Only a sample of the pairs goes to Lean.
BIG_CAP = 12          # pairs of a large batch that are re-run alone and sent to the Lean oracle
_BIG_CACHE = {}


def coprime_up(n):
    """The next n that is not a multiple of 2, 3, 5 or 7 (a batch size that no round chunk size divides)."""
    while n % 2 == 0 or n % 3 == 0 or n % 5 == 0 or n % 7 == 0:
        n += 1
    return n


def expand_big(case):
    """The batch of a big case as two int64 tensors (N, R), (N, H). Body tokens 0..A-1; an eos that occurs
    in the data is the value A (gen["alias"]["eos_out"]: A + k * 2^bits on one side, see below), placed at a per-column length with random filler (further eos included)
    after it. The hypothesis is a noisy, shifted window of the reference (so the cheapest script mixes
    deletions on both sides with substitutions / insertions). The first 4 and the LAST 16 columns always
    hold long sequences, the very last one full-length ones."""
    import numpy as np
    import torch
    g = case["gen"]
    N, R, H, eos = case["N"], case["R"], case["H"], case["eos"]
    al = g.get("alias")
    pe = g.get("eos_pad")
    ck = (g["seed"], g["alphabet"], g["noise"], N, R, H, eos, bool(g.get("mix")), repr(sorted(al.items())) if al else None,
          repr(pe))
    if ck in _BIG_CACHE:
        return _BIG_CACHE[ck]
    A = g["alphabet"]
    eos_in = eos is not None and (eos == A or bool(al and al.get("eos_out")))
    rs = np.random.default_rng([g["seed"], N, R, H])
    ref = rs.integers(0, A, (N, R), dtype=np.int64)
    lo = max(R - H, 0) if R > H else min(R, 2)
    shift = rs.integers(0, lo + 1, (N, 1), dtype=np.int64)
    idx = np.arange(H, dtype=np.int64)[None, :] + shift
    fresh = rs.integers(0, A, (N, H), dtype=np.int64)
    if R > 0:
        hyp = np.where(idx < R, np.take_along_axis(ref, np.minimum(idx, R - 1), 1), fresh)
    else:
        hyp = fresh
    hyp = np.where(rs.random((N, H)) < g["noise"], rs.integers(0, A, (N, H), dtype=np.int64), hyp)
    if eos_in:
        for arr, L in ((ref, R), (hyp, H)):
            ln = rs.integers(0, L + 1, N, dtype=np.int64)
            u = rs.random(N)
            ln = np.where(u < 0.15, L, np.where(u < 0.2, 0, ln))
            edge = np.ones(N, dtype=bool)
            edge[4:max(4, N - 16)] = False
            ln = np.where(edge, rs.integers(max(1, (L + 1) // 2) if L else 0, L + 1, N, dtype=np.int64), ln)
            if g.get("mix"):
                # a small batch that MIXES empty / very short sequences with full-length ones (the padded size is
                # then decided by another pair than the one being scored)
                ln[0] = L
                if N > 2:
                    ln[1] = min(L, int(rs.integers(0, 3)))
                if N > 3:
                    ln[2] = int(rs.integers(0, L + 1))
            ln[N - 1] = L  # the very last pair fills the padded sizes (no eos at all)
            pos = np.arange(L, dtype=np.int64)[None, :]
            garb = rs.integers(0, A + 1, (N, L), dtype=np.int64)
            arr[...] = np.where(pos > ln[:, None], garb, arr)
            arr[pos == ln[:, None]] = A
            if pe and L >= 8:
                # SHORT transcripts (0..5 tokens) in a batch whose padded size is hundreds of positions longer: every
                # column but the first and the last ends early and is followed by a padding that holds a GIVEN NUMBER
                # of end-of-sequence tokens (the first one included; clipped to the room there is) - all of them right
                # after the end, all of them at the very end of the row, or scattered - and other (non-eos) filler
                off = 0 if arr is ref else 3
                for n in range(1, N - 1):
                    l0 = int(rs.integers(0, min(5, L - 1) + 1))
                    want = pe["counts"][(n - 1 + off) % len(pe["counts"])]
                    room = L - l0 - 1
                    k = max(0, min(want - 1, room))
                    tail = rs.integers(0, A, room, dtype=np.int64)
                    style = int(rs.integers(0, 3))
                    if style == 0:
                        tail[:k] = A
                    elif style == 1:
                        tail[room - k:] = A
                    else:
                        tail[rs.permutation(room)[:k]] = A
                    body = arr[n, :l0]
                    arr[n, :l0] = np.where(body == A, rs.integers(0, A, l0, dtype=np.int64), body)
                    arr[n, l0] = A
                    arr[n, l0 + 1:] = tail
    if al:
        # tokens that are DIFFERENT integers but congruent modulo 2^bits: on one side (the tensor whose dtype can
        # hold them) a fraction p of the positions - body tokens, end markers and filler alike - holds
        # t + k * 2^bits instead of t. With "eos_out" the end-of-sequence value itself is A + k * 2^bits: that
        # side's end markers are rewritten to it, while the other side (whose dtype cannot hold it) has no end
        # marker at all and keeps A as an ordinary token.
        ra = np.random.default_rng([g["seed"], N, R, H, 77])
        side = ref if al["side"] == "ref" else hyp
        off = al["k"] * 2 ** al["bits"]
        m = ra.random(side.shape) < al["p"]
        if side.size:
            m[N - 1, side.shape[1] // 2] = True
        side[...] = np.where(m, side + off, side)
        if al.get("eos_out"):
            side[side == A] = eos
    out = (torch.from_numpy(np.ascontiguousarray(ref)), torch.from_numpy(np.ascontiguousarray(hyp)))
    _BIG_CACHE.clear()
    _BIG_CACHE[ck] = out
    return out


def sample_indices(case):
    """Which pairs of a big batch are looked at one by one: the LAST ones, the first ones, the middle, the
    neighbours of the largest power of two below N, and a few drawn at random."""
    import random
    N = case["N"]
    cap = case.get("n_sample", BIG_CAP)
    if N <= cap:
        return list(range(N))
    p = 1 << ((N - 1).bit_length() - 1)
    idx = [N - 1, 0, N - 2, N // 2, p, p - 1, N - 3, 1, p // 2, N // 2 - 1]
    r = random.Random(case["gen"]["seed"] * 1000003 + N)
    idx += [r.randrange(N) for _ in range(3 * cap)]
    out = []
    for i in idx:
        if 0 <= i < N and i not in out:
            out.append(i)
    return sorted(out[:cap])


def big_with_model(case):
    """Is the per-column Lean model (cubic in R) run next to the oracle for the sampled pairs?"""
    return (case["R"] + 1) ** 3 * max(case["H"], 1) * min(case["N"], case.get("n_sample", BIG_CAP)) <= 4_000_000



def _brief(seq, n=24):
    if not isinstance(seq, list):
        return str(seq)
    return str(seq) if len(seq) <= n else f"<{len(seq)} tokens: {str(seq[:n])[:-1]}, ...]>"


def pick_filler(toks, lo, hi):
    """A token that does not occur in `toks` and fits the tensors' dtype."""
    s = set(toks)
    for cand in ((max(s) + 1) if s else 0, (min(s) - 1) if s else 0):
        if lo <= cand <= hi and cand not in s:
            return cand
    for cand in range(max(lo, -300), min(hi, 300) + 1):
        if cand not in s:
            return cand
    return None


def repad(col, eos, filler, extra):
    """The same sequence under another padding: cut after the first eos (kept) and append
    `extra` other filler tokens. None when the column has no eos (nothing to re-pad)."""
    if eos is None or eos not in col:
        return None
    i = col.index(eos)
    return col[: i + 1] + [filler] * extra


class C01(PropertyCheck):
    pid = "C01"
    title = "Edit distance is the weighted Levenshtein distance, per pair and per prefix"
    rule = ("a case is one batch (N columns sharing padded sizes R, H) with one option cell "
            "(mode x entry x eos kind x include_eos x norm x batch_first x exclude_last x cost triple). "
            "Streams: exhaustive (all padded columns over {0,1,eos=2}, lengths <= 3 (quick: see "
            "`exhaustive_note`)), eos-position sweeps, random (N<=4, R,H<=6 quick / <=10 thorough, alphabet<=4, "
            "eos unset / in alphabet / absent, random filler after eos, costs from {1/4,1/2,1,3/2,2,3,4}^3), "
            "zero-size dimensions (every option cell x both layouts x both entries, N in {0,1,2}), long (7..14 / 20) "
            "and wide (N 16..48) batches, ref-is-hyp batches, malformed calls (both entries); large problems (kind "
            "'big', regenerated from a seed: sizes chosen so that (R+1)^2*N, N*R*H, N, R, H cross the powers of two "
            "up to 2^22 / 2^21 / 2^11, N coprime to 2*3*5*7, hypothesis = noisy shifted window of the reference, long "
            "pairs in the first 4 and LAST 16 columns; see `input_distribution` keys 'big:*'). Three quarters of the "
            "batches are then handed over in a non-plain form drawn from: tokens renamed injectively to values "
            "around 2^24 / 2^31 / 2^53 / the int64 limits / -100 / negatives; int32 / int16 / int8 / uint8 / mixed token "
            "dtypes; CONGRUENT TOKENS IN MIXED DTYPES (`alias_tokens`, 40% of the non-plain batches of every stream, "
            "both entries, both modes): ref and hyp in the next (ref dtype, hyp dtype, b) of a shuffled cycle through "
            "all 48 combinations of an ordered pair of {uint8,int8,int16,int32,int64} with a modulus 2^b, b in "
            "{8,16,32}, that the pair can express; tokens renamed injectively into 1..3 residue classes mod 2^b, each "
            "token to a value every tensor it occurs in can hold (so hyp-only / ref-only tokens and an eos that occurs "
            "in one tensor or in none lie OUTSIDE the other tensor's dtype and are congruent to its tokens: 7 / 263 / "
            "65543 / 7+2^32, 200 / -56), then single positions replaced by another member of their class (an ordinary "
            "token congruent to the eos or to the token it faces); 'alias:*' and 'dtype_pair=*' keys. Big stream: "
            "55% of the large batches take the next combination with a side wider than b, that side holds t + k*2^b at a "
            "fraction 0.02 / 0.1 / 0.3 of its positions (k = +-1, 2, the largest / smallest that fits), in 40% of those "
            "with an eos in the data the eos itself is A + k*2^b (outside the other tensor's dtype, which keeps A as an "
            "ordinary token); transposed-view, strided-with-offset (inside a garbage-filled storage) and expanded (stride 0) "
            "tensors; hyp the same tensor object as ref; warn on/off; positional / keyword / defaults-omitted / mixed "
            "calls and constructors; python-int and numpy costs; padding from {-100,-1,0,1,7,-2^24,2^31+5, eos, a "
            "token}; float64 default dtype. MODULE entry: in about half of the (non-plain) module cases the object has a "
            "life before the observed call (`make_life`): constructed with another value for one attribute / the three "
            "costs / all ten public attributes / a random subset, optionally called (same batch or another shape), "
            "reassigned to the case's option cell, optionally handed on as copy / deepcopy / pickle round trip, put "
            "in train() / eval() mode, optionally called again afterwards on another shape ('life:*' keys). Family "
            "'threshold' of the big stream: 8 (thorough 16) batches per run with R, H in 63..130 (around 2^6, 2^7), "
            "N 3..7 mixing empty / short / full-length sequences, cost kind x entry x mode x layout rotating. "
            "Family 'eos_pad' of the big stream: 6 (thorough 12) batches per run, N 4..7, padded reference and / or "
            "hypothesis size 257..600 with SHORT transcripts (0..5 tokens) next to full-length ones, the padding of a "
            "short one holding a steered number of end-of-sequence tokens (127, 128, 255, 256, 257, 511, 512, or as "
            "many as fit) right after the end / at the end of the row / scattered among non-eos filler "
            "('big:eos_pad:*' keys). "
            "A column is non-trivial when both cut sequences are "
            "non-empty, the distance is > 0 and not all tokens are equal; distinct by "
            "(ref', hyp', costs, option cell) — counted per column in `distinct_nontrivial_pairs`, "
            "per batch in `distinct_nontrivial`.")
    assumptions = [
        "float32 arithmetic of the implementation is exact on the generated domain (dyadic costs, sizes <= 10); "
        "normalised results are compared with the correctly rounded float32 quotient of the exact value",
        "two models: per column (what C01_pair etc. are about) and tensor-level (whole batch in the layout of the call; "
        "C01_batch_* prove that its entry n is the per-column model on pair n); the library's raw tensor is compared "
        "with the tensor-level model, its columns with the per-column model, and every column is also re-run alone / "
        "re-padded on the real code",
        "presentation options (call style, dtype, memory layout, warn, cost type, token renaming) must not change "
        "any number: the model never sees them; omitted arguments rely on the defaults documented at the pinned "
        "tree (edit_distance: include_eos=False; prefix_edit_distances: include_eos=True, padding=-100; costs 1.0; "
        "norm / batch_first / exclude_last False; warn=True)",
        "token VALUES are free integers: the two token tensors may have different integer dtypes, each holds only "
        "values of its own range, and equality of tokens (and of a token with the eos) is equality of integers - never "
        "of their residues modulo 2^8 / 2^16 / 2^32; the Lean model and oracle work on Int and get the final values. An "
        "eos outside a tensor's dtype simply does not occur in that tensor (finding C01.eos_outside_token_dtype: the "
        "pinned code wraps it; recognised only when every reported number of the batch equals the distance of the "
        "sequences cut at the wrapped value - python DP used for that recognition only - and the warnings are those of "
        "that cut)",
        "also checked on every non-re-run call: inputs (and the storage around a strided view) are not written to, "
        "a module carries the options it was constructed with (attributes, extra_repr), a second call of the same "
        "module gives the same tensor, and the library warnings are exactly the documented ones (none with "
        "warn=False)",
        "a module object is judged by its CURRENT public attributes: whatever it was constructed with, whatever it "
        "was called on before, and however it reached the call (the object, a copy, a pickle round trip; train or "
        "eval mode), the observed call must give what a freshly constructed module with the current values gives "
        "(= the model's numbers); calls before / after the observed one are compared bit-for-bit with the functional "
        "given the attribute values of that moment; the second call goes through `.forward` directly",
        "large batches (kind 'big'): every pair is checked model-free only (the batch with its columns reversed and "
        "rotated, and the batch cut into two unequal parts, must give bit-identical numbers pair by pair); at most 12 "
        "sampled pairs (last, first, middle, around the largest power of two below N, random) are re-run alone and "
        "compared with the Lean oracle (dpDist / prefixDists on the cut sequences; the per-column model too while "
        "(R+1)^3*H*pairs <= 4e6; the tensor-level model is not run on them)",
        "norm with an empty reference (0/1 convention) is compared model-vs-implementation but is not part of the "
        "property predicate (the property text is silent; C02 covers the convention)",
    ]
    exhaustive = {"quick": False, "thorough": True}
    quick_budget_s = 60
    thorough_budget_s = 650

    def __init__(self):
        self._pairs = set()
        self._oracle_kinds = {}

    # ------------------------------------------------------------------ generators
    def _opt_cells(self):
        """(mode, norm, exclude_last) cells."""
        return [("scalar", False, False), ("scalar", True, False),
                ("prefix", False, False), ("prefix", True, False),
                ("prefix", False, True), ("prefix", True, True)]

    def _mk(self, mode, entry, ref, hyp, R, H, eos, inc, norm, bf, excl, costs, padding=-100):
        return {"kind": "batch", "mode": mode, "entry": entry, "R": R, "H": H, "ref": ref, "hyp": hyp,
                "eos": eos, "include_eos": inc, "norm": norm, "batch_first": bf, "exclude_last": excl,
                "padding": padding, "ins": costs[0], "del": costs[1], "sub": costs[2]}

    def exhaustive_cases(self, rng, maxlen, triples):
        """All padded columns over {0,1,2} (2 = eos) with lengths <= maxlen: for every (R, H) and
        every reference column one batch holding all 3^H hypothesis columns."""
        flip = 0
        for R in range(maxlen + 1):
            for H in range(maxlen + 1):
                hyps = [list(t) for t in itertools.product((0, 1, 2), repeat=H)]
                for r in itertools.product((0, 1, 2), repeat=R):
                    refs = [list(r)] * len(hyps)
                    for inc in (False, True):
                        for (mode, norm, excl) in self._opt_cells():
                            for costs in triples:
                                flip += 1
                                yield self._mk(mode, "module" if flip % 3 == 0 else "functional",
                                               refs, hyps, R, H, 2, inc, norm, flip % 2 == 0, excl, costs,
                                               padding=PADDINGS[flip % len(PADDINGS)])

    def sweep_cases(self, rng, L):
        """eos at every position (0..L, L = absent) of ref x hyp, random filler after it."""
        for _ in range(2):
            A = rng.choice([2, 3, 4])
            eos = A - 1
            body = list(range(A - 1))
            refs, hyps = [], []
            for pr in range(L + 1):
                for ph in range(L + 1):
                    def col(p):
                        c = [rng.choice(body) for _ in range(min(p, L))]
                        if p < L:
                            c.append(eos)
                            c += [rng.randrange(A) for _ in range(L - p - 1)]
                        return c
                    refs.append(col(pr))
                    hyps.append(col(ph))
            for inc in (False, True):
                for (mode, norm, excl) in self._opt_cells():
                    costs = self._costs(rng)
                    yield self._mk(mode, rng.choice(["functional", "module"]), refs, hyps, L, L, eos, inc,
                                   norm, rng.random() < 0.5, excl, costs, padding=rng.choice(PADDINGS))

    def _costs(self, rng):
        u = rng.random()
        if u < 0.25:
            c = rng.choice(COSTS)
            t = [c, c, c]
        elif u < 0.35:
            return ["1", "1", "1"]
        else:
            t = [rng.choice(COSTS) for _ in range(3)]
        if rng.random() < 0.12:
            # the same triple in other units: a power-of-two scale keeps every float32 operation exact, and a
            # finite stand-in for the +inf of del_mat (or any absolute threshold) would show
            k = rng.choice(COST_SCALES)
            t = [fs(Fraction(x) * Fraction(2) ** k) for x in t]
        return t

    def random_case(self, rng, maxlen, zero_bias=0.12, minlen=0, N=None):
        N = rng.choice([1, 1, 2, 3, 4]) if N is None else N
        R = 0 if rng.random() < zero_bias else rng.randint(minlen, maxlen)
        H = 0 if rng.random() < zero_bias else rng.randint(minlen, maxlen)
        A = rng.choice([1, 2, 3, 4, 1, 2, 3, 4, 8, 50])
        base = rng.choice([0, 0, 0, 1, -2, 1000])
        alphabet = [base + i for i in range(A)]
        kind = rng.choice(["unset", "in", "in", "in", "absent"])
        if kind == "unset":
            eos = None
        elif kind == "in":
            eos = rng.choice(alphabet)
        else:
            eos = base + A + rng.randint(0, 2)
        body = [a for a in alphabet if a != eos] or alphabet

        def col(L):
            style = rng.random()
            if kind != "in" or style < 0.3:
                return [rng.choice(alphabet) for _ in range(L)]
            p = rng.randint(0, L)  # position of the first eos; L = none
            c = [rng.choice(body) for _ in range(p)]
            if body is alphabet and eos in c:
                return c + [rng.choice(alphabet) for _ in range(L - p)]
            if p < L:
                c.append(eos)
                c += [rng.choice(alphabet) for _ in range(L - p - 1)]
            return c

        refs = [col(R) for _ in range(N)]
        hyps = []
        for n in range(N):
            if rng.random() < 0.3 and R and H:
                # a mutated copy of the reference: small distances, ties between edit kinds
                h = list(refs[n])
                for _ in range(rng.randint(0, 2)):
                    if h and rng.random() < 0.5:
                        h[rng.randrange(len(h))] = rng.choice(alphabet)
                    elif h:
                        del h[rng.randrange(len(h))]
                h = (h + [rng.choice(alphabet) for _ in range(H)])[:H]
                hyps.append(h)
            else:
                hyps.append(col(H))
        mode = rng.choice(["scalar", "prefix"])
        padding = rng.choice(PADDINGS)
        u = rng.random()
        if u < 0.12 and eos is not None:
            padding = eos  # the filler value of the result coincides with the end-of-sequence token
        elif u < 0.2:
            padding = rng.choice(alphabet)
        return self._mk(mode, rng.choice(["functional", "module"]), refs, hyps, R, H, eos,
                        rng.random() < 0.5, rng.random() < 0.5, rng.random() < 0.5,
                        mode == "prefix" and rng.random() < 0.5, self._costs(rng), padding=padding)

    # -- how the batch is handed over (never changes the expected numbers)
    def relabel(self, rng, case):
        """Rename the tokens (and the eos) injectively: the distance only depends on which tokens are
        equal. Targets: consecutive values around representation limits, or a sample of the pool."""
        toks = sorted({x for c in case["ref"] + case["hyp"] for x in c}
                      | ({case["eos"]} if case["eos"] is not None else set()))
        k = len(toks)
        if k == 0:
            return case
        if rng.random() < 0.5 or k > len(TOKEN_POOL):
            b = rng.choice(TOKEN_BASES)
            b = min(b, 2 ** 63 - k)
            new = list(range(b, b + k))
        else:
            new = rng.sample(TOKEN_POOL, k)
        rng.shuffle(new)
        m = dict(zip(toks, new))
        c = dict(case)
        c["ref"] = [[m[x] for x in col] for col in case["ref"]]
        c["hyp"] = [[m[x] for x in col] for col in case["hyp"]]
        if case["eos"] is not None:
            c["eos"] = m[case["eos"]]
        if case["mode"] == "prefix" and rng.random() < 0.25:
            c["padding"] = rng.choice(new)
        return c

    def _next_combo(self, rng, ok=lambda t: True):
        """The next (ref dtype, hyp dtype, modulus bits) of a shuffled cycle through `alias_combos()`: every
        ordered dtype pair x modulus comes round every 48 draws, whatever else is drawn independently."""
        if not getattr(self, "_combos", None):
            self._combos = alias_combos()
            rng.shuffle(self._combos)
        for _ in range(len(self._combos)):
            t = self._combos.pop(0)
            self._combos.append(t)
            if ok(t):
                return t
        return None

    def alias_tokens(self, rng, case):
        """Hand ref and hyp over in the dtypes (dr, dh) of the next combination and rename / perturb the tokens so
        that DIFFERENT integers which are congruent modulo 2^b meet: (1) an injective renaming into few residue
        classes mod 2^b - a token is given a value that every tensor it occurs in can hold, so a token that only
        occurs in the wider tensor (or an eos that occurs in neither) may lie outside the narrower tensor's range
        and wrap onto one of ITS tokens under a cast; (2) at some positions of a tensor that has room, the token v
        is replaced by another member v + k * 2^b of its class (an ordinary token congruent to a reference token,
        or to the eos). The expected numbers come from the final integers (Lean model and oracle work on Int)."""
        dr, dh, b = self._next_combo(rng)
        M = 2 ** b
        ranges = {"ref": DTYPE_RANGE[dr], "hyp": DTYPE_RANGE[dh]}
        occ = {"ref": {x for col in case["ref"] for x in col}, "hyp": {x for col in case["hyp"] for x in col}}
        eos = case["eos"]
        toks = occ["ref"] | occ["hyp"] | ({eos} if eos is not None else set())

        def room(t):
            lo, hi = -2 ** 63, 2 ** 63 - 1
            for side in ("ref", "hyp"):
                if t in occ[side]:
                    lo, hi = max(lo, ranges[side][0]), min(hi, ranges[side][1])
            return lo, hi

        order = sorted(toks, key=lambda t: (room(t)[1] - room(t)[0], rng.random()))
        residues, used, m = [], set(), {}
        max_classes = rng.choice([1, 2, 2, 3])
        pool = [0, 1, 7, 100, 127, 128, 200, 255, M - 1, M // 2, M // 2 - 1, M - 100]
        for t in order:
            lo, hi = room(t)
            v = None
            if not (len(residues) < max_classes and rng.random() < 0.3):
                for r in rng.sample(residues, len(residues)):
                    cands = congruent(r, M, lo, hi, rng, used)
                    if cands:
                        v = rng.choice(cands)
                        break
            for attempt in range(60):
                if v is not None:
                    break
                r = (rng.choice(pool) if attempt < 8 else rng.randrange(M)) % M
                if r in residues:
                    continue
                cands = congruent(r, M, lo, hi, rng, used)
                if cands:
                    residues.append(r)
                    v = rng.choice(cands)
            if v is None:
                return None
            used.add(v)
            m[t] = v
        c = dict(case)
        c["ref"] = [[m[x] for x in col] for col in case["ref"]]
        c["hyp"] = [[m[x] for x in col] for col in case["hyp"]]
        if eos is not None:
            c["eos"] = m[eos]
        # (2) other members of the same residue class, position by position, where the tensor can hold them
        n_pos = sum(len(col) for col in c["ref"] + c["hyp"])
        q = rng.choice([0.0, 0.08, 0.2, 0.5]) if n_pos else 0.0
        forced = rng.randrange(n_pos) if (n_pos and q > 0) else -1
        i = 0
        for side in ("ref", "hyp"):
            lo, hi = ranges[side]
            for col in c[side]:
                for j in range(len(col)):
                    if i == forced or rng.random() < q:
                        cands = congruent(col[j] % M, M, lo, hi, rng, nonzero_from=col[j])
                        if cands:
                            col[j] = rng.choice(cands)
                    i += 1
        if case["mode"] == "prefix" and used and rng.random() < 0.25:
            c["padding"] = rng.choice(sorted(used))
        c["tok_dtype"] = [dr, dh]
        c["alias_bits"] = b
        return c

    def _big_alias(self, rng, c):
        """Dtype pair + congruent tokens for a big case (see `expand_big`): the next combination in which one side is
        wider than the modulus (that side gets the shifted tokens; base tokens 0..A+1 fit every dtype)."""
        wide = lambda t: [s for s, d in (("ref", t[0]), ("hyp", t[1])) if DT_BITS[d] > t[2]]
        dr, dh, b = self._next_combo(rng, lambda t: bool(wide(t)))
        side = rng.choice(wide((dr, dh, b)))
        bits = DT_BITS[dr if side == "ref" else dh]
        kmax, kmin = 2 ** (bits - b - 1) - 1, -2 ** (bits - b - 1)
        k = rng.choice(sorted({x for x in (1, -1, 2, kmax, kmin) if kmin <= x <= kmax and x != 0}))
        al = {"bits": b, "side": side, "k": k, "p": rng.choice([0.02, 0.1, 0.3])}
        A = c["gen"]["alphabet"]
        other = dh if side == "ref" else dr
        lo, hi = DTYPE_RANGE[other]
        if c["eos"] == A and not (lo <= A + k * 2 ** b <= hi) and rng.random() < 0.4:
            al["eos_out"] = True
            c["eos"] = A + k * 2 ** b
        c["gen"]["alias"] = al
        c["tok_dtype"] = [dr, dh]

    def decorate(self, rng, case, p_plain=0.25):
        """Pick the presentation options. With probability p_plain the plain form (positional call,
        contiguous int64 tensors, float costs, warn=False) is kept."""
        if case["kind"] != "batch" or rng.random() < p_plain:
            return case
        same_tensor = case["R"] == case["H"] and case["ref"] == case["hyp"] and rng.random() < 0.7
        c = None
        if not same_tensor and rng.random() < 0.4:
            # the two token tensors in (possibly) different integer dtypes, holding different integers that are
            # congruent modulo 2^8 / 2^16 / 2^32 (changes which tokens are equal: part of the generator)
            c = self.alias_tokens(rng, case)
        if c is None:
            c = self.relabel(rng, case) if rng.random() < 0.4 else dict(case)
            toks = [x for col in c["ref"] + c["hyp"] for x in col] + ([c["eos"]] if c["eos"] is not None else [])
            fits = [d for d, (lo, hi) in DTYPE_RANGE.items() if all(lo <= x <= hi for x in toks)]
            u = rng.random()
            if u < 0.6 or fits == ["int64"]:
                dts = ["int64", "int64"]
            elif u < 0.8:
                d = "int32" if "int32" in fits else "int64"
                dts = [d, d]
            elif u < 0.9:
                d = rng.choice(fits)
                dts = [d, d]
            else:
                dts = [rng.choice(fits), rng.choice(fits)]
            c["tok_dtype"] = dts
        c["layout"] = [rng.choice(["contig", "contig", "tview", "strided", "expand"]) for _ in range(2)]
        c["warn"] = rng.random() < 0.4
        c["call"] = rng.choice(STYLES)
        c["ctor"] = rng.choice(STYLES)
        integral = all(Fraction(c[k]).denominator == 1 and Fraction(c[k]) < 2 ** 31 for k in ("ins", "del", "sub"))
        c["cost_type"] = rng.choice(["float", "int" if integral else "float", "numpy" if c["entry"] == "module" else "float"])
        if same_tensor and c["tok_dtype"][0] == c["tok_dtype"][1]:
            c["alias"] = True
        if rng.random() < 0.05:
            c["default_dtype"] = "float64"
        if c["entry"] == "module" and rng.random() < 0.55:
            c["life"] = self.make_life(rng, c)
        return c

    def make_life(self, rng, case):
        """The part of a module object's life before the observed call: which public attributes are constructed
        with ANOTHER value and reassigned to the case's option cell afterwards (one alone / the three costs - the
        documented 'sweep over cost settings with one metric object' - / all of them / a random subset), whether
        the object is called in between (on the same batch, or on one of another shape), and whether it is
        called once more afterwards on a batch of another shape. Judged as a fresh module with the final values:
        neither the model nor the expected numbers see any of this."""
        attrs = ORDER[case["mode"]]
        costs = ("ins_cost", "del_cost", "sub_cost")
        u = rng.random()
        if u < 0.3:
            names = [rng.choice(attrs)]
        elif u < 0.5:
            names = list(costs)
        elif u < 0.65:
            names = list(attrs)
        else:
            names = [k for k in attrs if rng.random() < 0.4] or [rng.choice(attrs)]
        dts = case.get("tok_dtype") or ["int64", "int64"]
        lo = max(DTYPE_RANGE[d][0] for d in dts)
        hi = min(DTYPE_RANGE[d][1] for d in dts)
        toks = [t for t in garbage_tokens(case) if lo <= t <= hi] or [0]
        uniform = rng.random() < 0.4  # the construction-time costs are one number (the shortcut branch)
        cu = rng.choice(COSTS)
        init = {}
        for k in names:
            if k.endswith("_cost"):
                final = Fraction(case[k[:3]])
                pool = [c for c in COSTS if Fraction(c) != final]
                init[k] = cu if (uniform and Fraction(cu) != final) else rng.choice(pool)
            elif k == "eos":
                final = case["eos"]
                cands = [t for t in toks if t != final] + ([final + 1] if final is not None and final + 1 <= hi else [])
                if final is None:
                    init[k] = rng.choice(cands or [0])
                else:
                    init[k] = None if (rng.random() < 0.4 or not cands) else rng.choice(cands)
            elif k == "padding":
                init[k] = rng.choice([x for x in PADDINGS + toks[:2] if x != case["padding"]])
            else:
                init[k] = not (case.get("warn", False) if k == "warn" else case[k])
        big = case["kind"] == "big"
        life = {"init": init, "warm": rng.choice(["none", "other"] if big else ["none", "same", "other"]),
                "post": rng.random() < 0.3}
        if rng.random() < 0.3:
            life["hand"] = rng.choice(["deepcopy", "copy", "pickle"])
        if rng.random() < 0.3:
            life["train"] = rng.random() < 0.5
        return life

    def alias_case(self, rng, maxlen):
        """ref and hyp are the same batch (distance 0 everywhere): handed over as ONE tensor object."""
        c = self.random_case(rng, maxlen, zero_bias=0.05)
        c["hyp"] = [list(col) for col in c["ref"]]
        c["H"] = c["R"]
        return c

    # -- large problems (size-triggered code paths)
    def _big(self, rng, rot, family, N, R, H, n_sample=None, eos_kind=None, costs=None, entry=None, mix=False,
             cell=None, eos_pad=None):
        """One large batch; the option cell is random except that entry point (scalar / per-prefix) x layout
        rotate, so that every family sees all four. Nothing but the sizes and a generator seed is stored."""
        A = rng.choice([2, 3, 4, 4, 6, 12])
        kind = eos_kind or rng.choice(["in", "in", "in", "unset", "absent"])
        eos = {"in": A, "unset": None, "absent": A + 1}[kind]
        rot[0] += 1
        mode, bf = cell or [("scalar", False), ("prefix", True), ("scalar", True), ("prefix", False)][rot[0] % 4]
        c = {"kind": "big", "family": family, "N": N, "R": R, "H": H,
             "gen": {"seed": rng.randrange(2 ** 31), "alphabet": A, "noise": rng.choice([0.0, 0.1, 0.3])},
             "mode": mode, "entry": entry or rng.choice(["functional", "module"]), "eos": eos,
             "include_eos": rng.random() < 0.5, "norm": rng.random() < 0.4, "batch_first": bf,
             "exclude_last": mode == "prefix" and rng.random() < 0.4 and H >= 2,  # (H = 1: the loop would not run)
             "padding": rng.choice(PADDINGS)}
        c["ins"], c["del"], c["sub"] = costs or self._costs(rng)
        if mix:
            c["gen"]["mix"] = True
        if eos_pad:
            c["gen"]["eos_pad"] = eos_pad
        if n_sample is not None:
            c["n_sample"] = n_sample
        # presentation (never changes a number); the 4x storage of the strided form only for moderate sizes
        c["warn"] = rng.random() < 0.3
        c["call"] = rng.choice(STYLES)
        c["ctor"] = rng.choice(STYLES)
        lays = ["contig", "contig", "tview"] + (["strided"] if N * (R + H + 1) <= 2 ** 21 else [])
        c["layout"] = [rng.choice(lays), rng.choice(lays)]
        u = rng.random()
        if u < 0.35:
            c["tok_dtype"] = ["int64", "int64"]
        elif u < 0.45:
            c["tok_dtype"] = rng.choice([["int32", "int32"], ["int16", "int64"], ["uint8", "int8"]])
        else:
            self._big_alias(rng, c)
        if c["entry"] == "module" and (rng.random() < 0.55 or family == "threshold"):
            c["life"] = self.make_life(rng, c)
        return c

    def _cost_kind(self, rng, kind):
        """A cost triple of a given kind: 0 = all three different and none equal to 1 (nothing a unit-cost
        formula could get right), 1 = uniform but not 1 (the shortcut branch with a factor), 2 = any non-uniform
        triple of the pool, 3 = unit costs."""
        if kind == 0:
            t = rng.sample([c for c in COSTS if c != "1"], 3)
        elif kind == 1:
            c = rng.choice([c for c in COSTS if c != "1"])
            t = [c, c, c]
        elif kind == 2:
            while True:
                t = [rng.choice(COSTS) for _ in range(3)]
                if len(set(t)) > 1:
                    break
        else:
            return ["1", "1", "1"]
        if rng.random() < 0.12:
            k = rng.choice(COST_SCALES)
            t = [fs(Fraction(x) * Fraction(2) ** k) for x in t]
        return t

    def threshold_cases(self, rng, rot, tier):
        """Sequence lengths around 2^6 and 2^7 (R and H 63..130: where an implementation would switch algorithm,
        chunk, or change an index type) in EVERY option class, not just where the random stream happens to put
        them. Cost kind (see `_cost_kind`) x reference-length class (just above 2^6: 65, 66 / between: 67..128 /
        just above 2^7: 129, 130) are fully crossed; entry point (functional / module, the latter always with a
        life cycle), scalar / per-prefix x layout, the eos kind and the hypothesis length (long or short) are each
        balanced over the batches and associated with them at random; two more batches put a long hypothesis
        against short references. Small batches that mix empty, short and full-length references and hypotheses; all pairs go
        to the Lean oracle (N <= 7)."""
        def length(cls):
            if cls == 0:
                return rng.choice([65, 66])
            if cls == 2:
                return rng.choice([129, 130])
            return rng.choice([127, 128, 63, 64]) if rng.random() < 0.4 else rng.randint(67, 126)
        def balanced(values, n):
            out = (values * (n // len(values) + 1))[:n]
            rng.shuffle(out)
            return out
        off = rng.randrange(4)
        for rd in range(1 if tier == "quick" else 2):
            n = 14
            # every other option: balanced over the 14 batches, associated at random (another way each run)
            cells = balanced([("scalar", False), ("prefix", True), ("scalar", True), ("prefix", False)], n)
            entries = balanced(["module", "functional"], n)
            long_h = balanced([True, False], n)
            eos_kinds = balanced(["in", "in", "in", None], n)
            for i in range(n):
                kind, cls = (i // 3 + off) % 4, i % 3
                R = length(cls)
                H = length(rng.randrange(3)) if long_h[i] else rng.randint(2, 9)
                if i >= 12:
                    kind, R, H = rng.randrange(3), rng.randint(2, 9), length(rng.randrange(3))
                yield self._big(rng, rot, "threshold", rng.randint(3, 7), R, H, eos_kind=eos_kinds[i],
                                costs=self._cost_kind(rng, kind), entry=entries[i], mix=True, cell=cells[i])

    EOS_COUNTS = [127, 128, 255, 256, 257, 511, 512]

    def eos_pad_cases(self, rng, rot, tier):
        """Short transcripts padded with HUNDREDS of end-of-sequence tokens: small batches (N 4..7) whose padded
        reference and / or hypothesis size is 257..600 while all columns but the first and last hold 0..5 tokens;
        the number of eos tokens per column is steered to the values around 2^7, 2^8, 2^9 (`EOS_COUNTS`, a shuffled
        cycle that carries on from batch to batch; clipped to the room in the row), the rest of the padding is non-eos
        filler. Long side: reference only / hypothesis only / both, each the same number of times; scalar / per-prefix
        x layout rotate, functional / module balanced. All pairs go to the Lean oracle."""
        def long_():
            return rng.choice([rng.randint(257, 270), rng.randint(271, 511), rng.randint(518, 600), rng.randint(518, 600)])
        n = 6 if tier == "quick" else 12
        cyc = list(self.EOS_COUNTS)
        rng.shuffle(cyc)
        entries = (["functional", "module"] * n)[:n]
        rng.shuffle(entries)
        at = 0
        for i in range(n):
            N = rng.randint(4, 7)
            if i % 3 == 0:
                R, H = long_(), rng.randint(2, 9)
            elif i % 3 == 1:
                R, H = rng.randint(2, 9), long_()
            else:
                R, H = rng.randint(257, 400), rng.randint(257, 400)
                if rng.random() < 0.5:
                    R = long_()
                else:
                    H = long_()
            counts = [cyc[(at + j) % len(cyc)] for j in range(len(cyc))]
            at += N - 2
            yield self._big(rng, rot, "eos_pad", N, R, H, eos_kind="in", entry=entries[i], mix=True,
                            eos_pad={"counts": counts})

    def big_cases(self, rng, tier):
        """Problems whose size measures cross the powers of two up to 2^22 (quick) / 2^23 (thorough), one measure
        at a time: the volume (R+1)^2 * N of the deletion temporary, the work N * R * H, and N, R, H alone (N up
        to 2^21, R and H as far as a run of a second allows). N is never a multiple of 2, 3, 5, 7."""
        jit = lambda x: max(2, int(x * (1 + rng.uniform(0.04, 0.9))))
        rot = [rng.randrange(4)]
        top = 22 if tier == "quick" else 23
        rounds = 1 if tier == "quick" else 4
        yield from self.threshold_cases(rng, rot, tier)
        yield from self.eos_pad_cases(rng, rot, tier)
        for rd in range(rounds):
            # (R+1)^2 * N: the (R+1, R+1, N) temporary of the deletion step
            for k in [17, 18, 19, 20, 20, 21, 21, 22] + ([23] if top >= 23 else []):
                R = rng.choice([15, 31, 63, 127]) if rng.random() < 0.4 else rng.randint(12, 140)
                if (R + 1) ** 2 * 2 > 2 ** k:
                    R = rng.choice([15, 31, 63])
                N = coprime_up(jit(2 ** k / (R + 1) ** 2))
                yield self._big(rng, rot, "volume", N, R, rng.randint(2, 8))
            # N * R * H with comparable R and H
            for k in [20, 21, 22]:
                R, H = rng.randint(16, 48), rng.randint(16, 48)
                yield self._big(rng, rot, "work", coprime_up(jit(2 ** k / (R * H))), R, H)
            # N alone
            # (reference longer than the hypothesis: nearly every pair needs a deletion after a match, so a single
            # mistreated position in a batch of 10^5..10^6 shows)
            for k in ([16, 19, 21] if tier == "quick" else [15, 16, 17, 18, 19, 20, 21]):
                R = rng.randint(2, 3 if k < 20 else 2)
                yield self._big(rng, rot, "N", coprime_up(jit(2 ** k) if k < 21 else 2 ** k + rng.randint(1, 2 ** 17)), R,
                                rng.randint(1, R - 1))
            # ... and with a zero-size sequence dimension
            z = rng.random() < 0.5
            yield self._big(rng, rot, "N", coprime_up(jit(2 ** 17)), 0 if z else rng.randint(1, 3), rng.randint(1, 3) if z else 0)
            # R alone ((R+1)^2 reaches 2^22), H alone, R and H together
            for k in [8, 9, 10, 11]:
                yield self._big(rng, rot, "R", rng.randint(1, 3), jit(2 ** k) if k < 11 else 2 ** k + 1 + 2 * rng.randint(0, 100),
                                rng.randint(1, 3))
            for k in [8, 9, 10, 11] + ([12, 13] if tier != "quick" and rd == 0 else []):
                yield self._big(rng, rot, "H", rng.randint(2, 5), rng.randint(1, 4),
                                jit(2 ** k) if k < 11 else 2 ** k + rng.randint(0, 200))
            for k in [7, 8]:
                yield self._big(rng, rot, "R_and_H", rng.randint(2, 3), jit(2 ** k), jit(2 ** k), n_sample=3)

    def zero_cases(self, rng):
        """Zero-size dimensions in every option cell, both layouts, both entries, N in {0, 1, 2}
        (the design-phase defect lives here; N = 0 is outside the property's N >= 1 and only has to
        agree with the model: nothing to report, right shape)."""
        for (R, H) in ((0, 0), (0, 2), (2, 0), (0, 1), (1, 0), (2, 3)):
            for eos in (None, 1):
                for inc in (False, True):
                    for (mode, norm, excl) in self._opt_cells():
                        for bf in (False, True):
                            for entry in ("functional", "module"):
                                N = rng.choice([0, 1, 2]) if 0 in (R, H) else 0
                                refs = [[rng.choice([0, 1]) for _ in range(R)] for _ in range(N)]
                                hyps = [[rng.choice([0, 1]) for _ in range(H)] for _ in range(N)]
                                yield self._mk(mode, entry, refs, hyps, R, H, eos, inc, norm, bf, excl,
                                               self._costs(rng), padding=rng.choice(PADDINGS))

    def malformed_cases(self):
        for what in ("ref_1d", "hyp_3d", "batch_mismatch", "batch_mismatch_bf", "ref_0d", "ref_3d", "hyp_1d",
                     "batch_mismatch_empty"):
            for mode in ("scalar", "prefix"):
                for entry in ("functional", "module"):
                    yield {"kind": "malformed", "what": what, "mode": mode, "entry": entry}

    def cases(self, rng, tier):
        if tier == "quick":
            triples = [["1", "1", "1"], ["1/2", "1", "3/2"]]
            n_random, maxlen, exh_len = 700, 6, 2
        elif tier == "thorough":
            triples = [["1", "1", "1"], ["2", "2", "2"], ["1/2", "1", "3/2"], ["3", "1/4", "2"]]
            n_random, maxlen, exh_len = 12000, 10, 3
        else:  # search
            triples = [["1", "1", "1"], ["2", "2", "2"], ["1/2", "1", "3/2"], ["3", "1/4", "2"], ["1", "4", "1/2"]]
            n_random, maxlen, exh_len = 30000, 10, 3
        n_long, n_wide, n_alias = {"quick": (40, 12, 40), "thorough": (600, 100, 400)}.get(tier, (900, 150, 600))
        self._combos = None
        yield from self.malformed_cases()
        for c in self._stream(rng, tier, triples, n_random, maxlen, exh_len, n_long, n_wide, n_alias):
            yield self.decorate(rng, c)  # (a big case carries its presentation already)

    def _stream(self, rng, tier, triples, n_random, maxlen, exh_len, n_long, n_wide, n_alias):
        yield from self.zero_cases(rng)
        yield from self.sweep_cases(rng, 4 if tier == "quick" else 6)
        yield from self.big_cases(rng, tier)
        for _ in range(n_alias):
            yield self.alias_case(rng, maxlen)
        # longer sequences than the rest of the stream (oracle: dpDist, proved equal to lev)
        for _ in range(n_long):
            yield self.random_case(rng, 14 if tier == "quick" else 20, zero_bias=0.0, minlen=7,
                                   N=rng.choice([1, 2, 3]))
        for _ in range(max(3, n_long // 12)):
            yield self.random_case(rng, 60 if tier == "quick" else 100, zero_bias=0.0, minlen=25, N=rng.choice([1, 2]))
        # wide batches of short sequences
        for _ in range(n_wide):
            yield self.random_case(rng, 4, N=rng.randint(16, 48))
        for _ in range(max(2, n_wide // 10)):
            yield self.random_case(rng, 3, N=rng.randint(130, 300))
        # interleave so that a time budget cuts both streams evenly
        exh = self.exhaustive_cases(rng, exh_len, triples)
        if tier == "quick":
            # quick: lengths <= 2 in every cell, plus lengths == 3 for one rotating option cell per (ref, R, H)
            exh = itertools.chain(exh, self._quick_len3(rng))
        k = 0
        for c in exh:
            yield c
            k += 1
            if k % 2 == 0 and n_random > 0:
                n_random -= 1
                yield self.random_case(rng, maxlen)
        for _ in range(n_random):
            yield self.random_case(rng, maxlen)

    def _quick_len3(self, rng):
        cells = self._opt_cells()
        flip = rng.randrange(1000)
        for R, H in ((3, 3), (3, 2), (2, 3), (3, 0), (0, 3), (3, 1), (1, 3)):
            hyps = [list(t) for t in itertools.product((0, 1, 2), repeat=H)]
            for r in itertools.product((0, 1, 2), repeat=R):
                flip += 1
                mode, norm, excl = cells[flip % len(cells)]
                costs = [["1", "1", "1"], ["1/2", "1", "3/2"], ["3", "1/4", "2"]][flip % 3]
                yield self._mk(mode, "module" if flip % 4 == 0 else "functional", [list(r)] * len(hyps), hyps,
                               R, H, 2, flip % 2 == 0, norm, flip % 5 < 2, excl, costs,
                               padding=PADDINGS[flip % len(PADDINGS)])

    # ------------------------------------------------------------------ implementation
    def run_impl(self, case):
        if case["kind"] == "malformed":
            return self._run_malformed(case)
        if case["kind"] == "big":
            return self._run_big(case)
        R, H = case["R"], case["H"]
        out = call_impl(case, case["ref"], case["hyp"], R, H)
        # batch independence: every column alone, and alone under another padding
        alone, repadded = [], []
        eos = case["eos"]
        dts = case.get("tok_dtype") or ["int64", "int64"]
        lo = max(DTYPE_RANGE[d][0] for d in dts)
        hi = min(DTYPE_RANGE[d][1] for d in dts)
        if len(case["ref"]) > 1 or eos is not None:
            for r, h in zip(case["ref"], case["hyp"]):
                alone.append(call_impl(case, [r], [h], R, H, light=True)["vals"][0])
                toks = r + h + ([eos] if eos is not None else [])
                filler = pick_filler(toks, lo, hi)
                r2 = repad(r, eos, filler, 2) if filler is not None else None
                h2 = repad(h, eos, eos if eos is not None else 0, 1)
                if r2 is None and h2 is None:
                    repadded.append(None)
                else:
                    r2 = r if r2 is None else r2
                    h2 = h if h2 is None else h2
                    repadded.append({"H": len(h2),
                                     "vals": call_impl(case, [r2], [h2], len(r2), len(h2), light=True)["vals"][0]})
        out["alone"] = alone
        out["repadded"] = repadded
        return out

    def _run_big(self, case):
        """A large batch: the whole batch once (all the observations of a plain run), then model-free
        re-evaluations of the SAME pairs that must give the same numbers: every sampled pair alone, the whole
        batch with its columns permuted (reversed and rotated), the batch cut in two unequal parts."""
        import torch
        ref, hyp = expand_big(case)
        N, R, H = case["N"], case["R"], case["H"]
        bf, scalar = case["batch_first"], case["mode"] == "scalar"
        canon = lambda o: o if (scalar or bf) else o.t()  # (N,) / (N, rows)
        cell = lambda v: frac_str(v) if scalar else [frac_str(x) for x in v]
        out, extra = call_impl(case, ref, hyp, R, H, tensor_out=True)
        o = canon(out)
        idx = sample_indices(case)
        res = {"shape": list(out.shape), "dtype": str(out.dtype), "sample": idx,
               "vals": [cell(o[i].tolist()) for i in idx]}
        res.update(extra)
        res["alone"] = [call_impl(case, [ref[i].tolist()], [hyp[i].tolist()], R, H, light=True)["vals"][0]
                        for i in idx]

        def diff(a, b, cols, how):
            """Where do two (N, ..) results differ? -> {"n": count, "first": [..5 columns..]}"""
            if a.shape != b.shape:
                return {"n": -1, "first": [], "shapes": [list(a.shape), list(b.shape)], "how": how}
            ne = ~((a == b) | (a.isnan() & b.isnan()))
            if ne.dim() > 1:
                ne = ne.any(1)
            bad = ne.nonzero().flatten().tolist()
            return {"n": len(bad), "how": how,
                    "first": [{"col": int(cols[j]), "position": j, "in_batch": cell(a[j].tolist()),
                               "other": cell(b[j].tolist())} for j in bad[-3:] + bad[:2]]}

        perm = (N - 1 - torch.arange(N) + N // 3) % N
        o2 = canon(call_impl(case, ref[perm], hyp[perm], R, H, light=True, tensor_out=True)[0])
        res["permuted"] = diff(o[perm], o2, perm.tolist(), "columns reversed and rotated")
        if N >= 2:
            a = max(1, N // 3)
            parts = [canon(call_impl(case, ref[lo:hi], hyp[lo:hi], R, H, light=True, tensor_out=True)[0])
                     for lo, hi in ((0, a), (a, N))]
            res["split"] = diff(o, torch.cat(parts, 0), list(range(N)), f"batch cut into columns [0, {a}) and [{a}, {N})")
        facts = lambda er, eh: {
            "ref_no_eos": bool(er is not None and (ref != er).all(1).any()),
            "hyp_no_eos": bool(eh is not None and (hyp != eh).all(1).any()),
            "empty_ref": bool(R == 0 or (er is not None and not case["include_eos"] and R > 0
                                         and (ref[:, 0] == er).any())),
        }
        res["facts"] = facts(case["eos"], case["eos"])
        w = self._eos_as_compared(case)
        if w:
            res["facts_wrapped"] = facts(*w)  # (only to recognise the listed finding SIG_EOSWRAP)
        return res

    def _run_malformed(self, case):
        import torch
        import pydrobert.torch.functional as F
        import pydrobert.torch.modules as M
        scalar = case["mode"] == "scalar"
        w = case["what"]
        bf = w == "batch_mismatch_bf"
        if case.get("entry", "functional") == "module":
            mod = (M.EditDistance if scalar else M.PrefixEditDistances)(batch_first=bf)
            f = lambda r, h: mod(r, h)
        else:
            fn = F.edit_distance if scalar else F.prefix_edit_distances
            f = lambda r, h: fn(r, h, batch_first=bf)
        z = lambda *s: torch.zeros(s, dtype=torch.long)
        with warnings.catch_warnings():
            warnings.simplefilter("ignore")
            if w == "ref_1d":
                f(z(3), z(3, 1))
            elif w == "hyp_3d":
                f(z(3, 1), z(3, 1, 1))
            elif w in MALFORMED_2D:
                f(z(*MALFORMED_2D[w][0]), z(*MALFORMED_2D[w][1]))
            elif w == "ref_0d":
                f(z(), z(3, 1))
            elif w == "ref_3d":
                f(z(3, 1, 1), z(3, 1))
            elif w == "hyp_1d":
                f(z(3, 1), z(3))
            else:
                raise ValueError(w)
        return {"returned": True}

    def model_request(self, case):
        if case["kind"] == "malformed":
            sh = MALFORMED_2D.get(case["what"])
            if sh is None:
                return None  # not 2-D: outside what the tensor-level model can express
            return {"op": "c01.shapes", "case": {"ref_shape": sh[0], "hyp_shape": sh[1],
                                                 "batch_first": case["what"] == "batch_mismatch_bf",
                                                 "mode": case["mode"]}}
        # module entry: the driver replays the object's history (construction values, reassignments) on the
        # module model and calls ITS forward
        mod = {"entry": case["entry"], "warn": bool(case.get("warn", False))}
        if case["entry"] == "module" and case.get("life"):
            mod["life"] = {"init": {k: v for k, v in case["life"]["init"].items() if k in ORDER[case["mode"]]}}
        if case["kind"] == "big":
            ref, hyp = expand_big(case)
            cols = [{"ref": ref[i].tolist(), "hyp": hyp[i].tolist()} for i in sample_indices(case)]
            return {"op": "c01.sample", "case": {
                **mod,
                "cols": cols, "with_model": big_with_model(case),
                "eos": case["eos"], "include_eos": case["include_eos"], "norm": case["norm"],
                "exclude_last": case["exclude_last"], "padding": case["padding"],
                "ins": case["ins"], "del": case["del"], "sub": case["sub"], "mode": case["mode"],
                "R": case["R"], "H": case["H"], "batch_first": case["batch_first"]}}
        return {"op": "c01.batch", "case": {
            **mod,
            "cols": [{"ref": r, "hyp": h} for r, h in zip(case["ref"], case["hyp"])],
            "eos": case["eos"], "include_eos": case["include_eos"], "norm": case["norm"],
            "exclude_last": case["exclude_last"], "padding": case["padding"],
            "ins": case["ins"], "del": case["del"], "sub": case["sub"], "mode": case["mode"],
            "R": case["R"], "H": case["H"], "batch_first": case["batch_first"]}}

    # ------------------------------------------------------------------ comparison
    def _expected_shape(self, case):
        N = case["N"] if case["kind"] == "big" else len(case["ref"])
        if case["mode"] == "scalar":
            return [N]
        return [N, n_rows(case)] if case["batch_first"] else [n_rows(case), N]

    def compare(self, case, impl, model):
        if case["kind"] == "malformed":
            if model is not None and model.get("raises") != (impl.get("error") == "RuntimeError"):
                return [f"malformed {case['what']}: tensor-level model raises={model.get('raises')}, "
                        f"implementation: {impl.get('error', 'returned')}"]
            return []
        if "error" in impl:
            return [f"implementation raised {impl['error']}: {impl.get('message')}"]
        out = []
        if impl["shape"] != self._expected_shape(case):
            out.append(f"shape impl={impl['shape']} expected={self._expected_shape(case)}")
        if impl["dtype"] != "torch.float32":
            out.append(f"dtype {impl['dtype']}")
        names = impl["sample"] if case["kind"] == "big" else range(len(impl["vals"]))
        if model.get("module") != (case["entry"] == "module"):
            out.append(f"driver went through the module model: {model.get('module')}, entry {case['entry']}")
        n_before = len(out)
        for n, iv, mc in zip(names, impl["vals"], model["cols"]):
            mv = mc["model"]
            if mv is None:
                continue  # large pair: the cubic per-column model is not run, the oracle is (see predicate)
            if case["mode"] == "scalar":
                want = fs(f32round(Fraction(mv)))
                if iv != want:
                    out.append(f"col {n}: impl={iv} model={mv} (float32: {want})")
            else:
                want = [fs(f32round(Fraction(v))) for v in mv]
                if iv != want:
                    out.append(f"col {n}: impl={iv} model={mv} (float32: {want})")
        if len(impl["vals"]) != len(model["cols"]):
            out.append("number of columns differs")
        # the tensor-level model (whole batch, the layout of the call) against the tensor as returned
        tm = model.get("tensor")
        if tm is not None:
            if impl["shape"] != tm["shape"]:
                out.append(f"shape impl={impl['shape']} tensor-level model={tm['shape']}")
            if case["mode"] == "scalar":
                want = [fs(f32round(Fraction(v))) for v in tm["vals"]]
                if impl["vals"] != want:
                    out.append(f"tensor-level model: impl={impl['vals']} model={tm['vals']}")
            else:
                want = [[fs(f32round(Fraction(v))) for v in row] for row in tm["vals"]]
                if impl.get("raw") != want:
                    out.append(f"tensor-level model (native layout): impl={impl.get('raw')} model={tm['vals']}")
        if len(out) > n_before and len(impl["vals"]) == len(model["cols"]) and impl["shape"] == self._expected_shape(case):
            hits = self._eos_wrap_hits(case, impl)
            if hits and all(k is not False for k in hits):
                # the listed finding SIG_EOSWRAP (model = repaired behaviour): every reported number is exactly what
                # the pinned code gives when the eos wraps into a token tensor's dtype; reported by the predicate
                return out[:n_before]
        return out

    def _expect_col(self, case, spec):
        """What the property demands for one column, from the Lean oracle. None = not specified."""
        rl, hl = len(spec["ref_cut"]), len(spec["hyp_cut"])
        if case["norm"] and rl == 0:
            return None  # division by zero: the property text is silent
        nrm = (lambda x: f32round(x / rl)) if case["norm"] else (lambda x: x)
        if case["mode"] == "scalar":
            return fs(nrm(Fraction(spec["lev"])))
        valid = hl + (0 if case["exclude_last"] else 1)
        return [fs(nrm(Fraction(spec["prefix_lev"][k]))) if k < valid else fs(f32round(case["padding"]))
                for k in range(n_rows(case))]

    def predicate(self, case, impl, model):
        if case["kind"] == "malformed":
            if impl.get("error") != "RuntimeError":
                return [(f"malformed call ({case['what']}) did not raise RuntimeError: {impl}", "C01.malformed_no_error")]
            return []
        if "error" in impl:
            sig = "C01.raises"
            if (impl["error"] == "RuntimeError" and case["eos"] is not None and 0 in (case["R"], case["H"])
                    and "non-zero size" in str(impl.get("message"))):
                sig = SIG_LENS
            elif (impl["error"] == "IndexError" and case["mode"] == "prefix" and case["exclude_last"]
                  and case["H"] == 0):
                sig = SIG_EXCL
            return [(f"{case['entry']} {case['mode']} raised {impl['error']} on an in-domain batch "
                     f"(R={case['R']}, H={case['H']}, eos={case['eos']}): {impl.get('message')}", sig)]
        fails = []
        if impl["shape"] != self._expected_shape(case):
            fails.append((f"result shape {impl['shape']}, expected {self._expected_shape(case)}", "C01.shape"))
        if model is None:
            return fails + self._presentation_failures(case, impl, model)
        big = case["kind"] == "big"
        names = impl["sample"] if big else range(len(impl["vals"]))
        if big:
            for key in ("permuted", "split"):
                d = impl.get(key)
                if d and d["n"] != 0:
                    what = (f"shapes {d['shapes']}" if d["n"] < 0 else
                            f"{d['n']} of {case['N']} pairs change, e.g. " + "; ".join(
                                f"pair {e['col']}: {e['in_batch']} in the batch, {e['other']} at position "
                                f"{e['position']}" for e in d["first"]))
                    fails.append((f"the same pairs give other numbers when the batch is rearranged ({d['how']}): {what}",
                                  "C01.batch_dependence"))
        hits = None
        for pos, (n, iv, mc) in enumerate(zip(names, impl["vals"], model["cols"])):
            spec = mc["spec"]
            want = self._expect_col(case, spec)
            if want is not None and iv != want and hits is None:
                hits = self._eos_wrap_hits(case, impl)  # (only computed when a number is wrong)
            if want is not None and iv != want and hits and hits[pos] is True:
                w = self._eos_as_compared(case)
                fails.append((f"column {n}: eos={case['eos']} does not fit the token dtypes {case.get('tok_dtype')}: the "
                              f"tensors are searched for {w} instead (a python scalar is cast to the tensor's dtype), so "
                              f"the sequences are cut at ordinary tokens: reported {_brief(iv)}, weighted Levenshtein "
                              f"says {_brief(want)}", SIG_EOSWRAP))
            elif want is not None and iv != want:
                fails.append((f"column {n}: ref'={_brief(spec['ref_cut'])} hyp'={_brief(spec['hyp_cut'])} costs="
                              f"({case['ins']},{case['del']},{case['sub']}): reported {_brief(iv)}, weighted Levenshtein "
                              f"{'per prefix ' if case['mode'] == 'prefix' else ''}says {_brief(want)}", "C01.value"))
            # batch / padding independence
            if big:
                al = impl["alone"][impl["sample"].index(n)]
                if al != iv:
                    fails.append((f"column {n} of {case['N']}: value inside the batch {iv} differs from the same pair "
                                  f"alone {al}", "C01.batch_dependence"))
            elif impl["alone"]:
                if impl["alone"][n] != iv:
                    fails.append((f"column {n}: value inside the batch {iv} differs from the same pair alone "
                                  f"{impl['alone'][n]}", "C01.batch_dependence"))
                rp = impl["repadded"][n]
                if rp is not None:
                    if case["mode"] == "scalar":
                        same = rp["vals"] == iv
                    else:
                        valid = len(spec["hyp_cut"]) + (0 if case["exclude_last"] else 1)
                        pad = fs(f32round(case["padding"]))
                        a, b = rp["vals"], iv
                        m = min(valid, len(a), len(b))
                        same = (a[:m] == b[:m] and all(x == pad for x in a[valid:])
                                and all(x == pad for x in b[valid:])
                                and len(a) == rp["H"] + (0 if case["exclude_last"] else 1))
                    if not same:
                        fails.append((f"column {n}: value {iv} changes to {rp['vals']} when only the padding after "
                                      f"the end-of-sequence token changes", "C01.garbage_dependence"))
        return fails + self._presentation_failures(case, impl, model)

    # -- the listed finding SIG_EOSWRAP: `tok.eq(eos)` casts a python scalar to the tensor's dtype, so an eos that a
    # narrow token tensor cannot hold is searched for modulo 2^bits. Recognised only by its exact numbers.
    def _eos_as_compared(self, case):
        """[what the ref tensor is searched for, what the hyp tensor is searched for] at the pinned tree when the
        eos lies outside a tensor's dtype; None when it fits both (nothing to recognise)."""
        eos = case.get("eos")
        if eos is None:
            return None
        dts = case.get("tok_dtype") or ["int64", "int64"]
        w = [wrap_to(eos, d) for d in dts]
        return None if w == [eos, eos] else w

    def _wrapped_col(self, case, r, h, w):
        """The numbers of one column if ref is cut at w[0] and hyp at w[1] (tokens themselves compared exactly),
        with the code's 0/1 convention for an empty reference under norm; the format of `_expect_col`."""
        inc = case["include_eos"]
        rc, hc = r[: seq_len(r, w[0], inc)], h[: seq_len(h, w[1], inc)]
        levs = py_prefix_levs(rc, hc, *(Fraction(case[k]) for k in ("ins", "del", "sub")))
        rl, hl = len(rc), len(hc)
        if case["mode"] == "scalar":
            if not case["norm"]:
                return fs(levs[-1])
            return fs(f32round(levs[-1] / rl) if rl else Fraction(1 if hl > 0 else 0))
        valid = hl + (0 if case["exclude_last"] else 1)
        out = []
        for k in range(n_rows(case)):
            if k >= valid:
                out.append(fs(f32round(case["padding"])))
            elif case["norm"]:
                out.append(fs(f32round(levs[k] / rl) if rl else Fraction(0 if k == 0 else 1)))
            else:
                out.append(fs(levs[k]))
        return out

    def _eos_wrap_hits(self, case, impl):
        """Per reported column: True = the wrapped eos cuts this pair elsewhere than the real eos AND the reported
        numbers are exactly those of the wrapped cut; None = the wrapped eos changes nothing for this pair (and its
        numbers are right); False = something else. [] when the eos fits both dtypes."""
        w = self._eos_as_compared(case)
        if not w or "vals" not in impl:
            return []
        if getattr(self, "_hits_cache", (None, None))[0] is impl:
            return self._hits_cache[1]
        if case["kind"] == "big":
            ref, hyp = expand_big(case)
            pairs = [(ref[i].tolist(), hyp[i].tolist()) for i in impl["sample"]]
        else:
            pairs = list(zip(case["ref"], case["hyp"]))
        eos, inc = case["eos"], case["include_eos"]
        out = []
        for (r, h), iv in zip(pairs, impl["vals"]):
            moved = seq_len(r, w[0], inc) != seq_len(r, eos, inc) or seq_len(h, w[1], inc) != seq_len(h, eos, inc)
            same = iv == self._wrapped_col(case, r, h, w)
            out.append(same if moved else (None if same else False))
        if True not in out:
            out = []
        self._hits_cache = (impl, out)
        return out

    def _expected_warnings(self, case, impl=None, w=None):
        """The documented warnings (docstring of `warn`, items 2 and 3) for this batch (w: for the end markers w
        instead of the eos, see `_eos_as_compared`)."""
        if case["kind"] == "big":
            f = (impl or {}).get("facts_wrapped" if w else "facts") or {}
            out = set()
            if case.get("warn", False):
                if case["eos"] is not None and case["include_eos"]:
                    out |= {k for k, fk in (("no_eos_ref", "ref_no_eos"), ("no_eos_hyp", "hyp_no_eos")) if f.get(fk)}
                if case["norm"] and f.get("empty_ref"):
                    out.add("empty_ref")
            return sorted(out)
        if not case.get("warn", False) or not case["ref"]:
            return []
        eos, inc = case["eos"], case["include_eos"]
        er, eh = w or (eos, eos)
        out = set()
        if eos is not None and inc:
            if any(er not in r for r in case["ref"]):
                out.add("no_eos_ref")
            if any(eh not in h for h in case["hyp"]):
                out.add("no_eos_hyp")
        if case["norm"] and any(seq_len(r, er, inc) == 0 for r in case["ref"]):
            out.add("empty_ref")
        return sorted(out)

    def _presentation_failures(self, case, impl, model):
        fails = []
        if impl.get("inputs_untouched") is False:
            fails.append(("the call wrote into its input tensors (or into the storage around the view it was "
                          "given)", "C01.inputs_written"))
        if impl.get("second_call_same") is False:
            fails.append(("a second call of the same module object on the same batch gave another result", "C01.module_state"))
        for b in impl.get("life_calls") or []:
            fails.append((f"a re-used module object does not compute what its current attributes say: {b}",
                          "C01.module_state"))
        for b in impl.get("module_attrs") or []:
            fails.append((f"module does not carry the option it was given: {b}", "C01.module_attrs"))
        w = self._eos_as_compared(case)
        if ("warned" in impl and impl["warned"] != self._expected_warnings(case, impl) and w
                and impl["warned"] == self._expected_warnings(case, impl, w)):
            fails.append((f"warn={case.get('warn', False)}: library warnings {impl['warned']} are those of a batch whose "
                          f"end markers are {w} (eos={case['eos']} wrapped into the token dtypes "
                          f"{case.get('tok_dtype')}), documented for this batch: "
                          f"{self._expected_warnings(case, impl)}", SIG_EOSWRAP))
        elif "warned" in impl and impl["warned"] != self._expected_warnings(case, impl):
            fails.append((f"warn={case.get('warn', False)}: library warnings {impl['warned']}, documented for this "
                          f"batch: {self._expected_warnings(case, impl)}", "C01.warnings"))
        return fails

    # ------------------------------------------------------------------ evidence
    def _cols_info(self, case):
        for r, h in zip(case["ref"], case["hyp"]):
            rc = r[: seq_len(r, case["eos"], case["include_eos"])]
            hc = h[: seq_len(h, case["eos"], case["include_eos"])]
            yield rc, hc

    def nontrivial(self, case, impl):
        if case["kind"] == "big":
            return True  # long noisy windows of the reference in the first / last columns
        if case["kind"] != "batch":
            return False
        return any(rc and hc and rc != hc and len(set(rc + hc)) > 1 for rc, hc in self._cols_info(case))

    def key(self, case):
        if case["kind"] == "big":
            return repr([case[k] for k in ("mode", "entry", "eos", "include_eos", "norm", "batch_first",
                                           "exclude_last", "ins", "del", "sub", "N", "R", "H", "gen")])
        cell = (case["mode"], case["entry"], case["eos"] is None, case["include_eos"], case["norm"],
                case["batch_first"], case["exclude_last"], case["ins"], case["del"], case["sub"])
        cols = [(tuple(rc), tuple(hc)) for rc, hc in self._cols_info(case)]
        return repr((cell, cols))

    def tags(self, case, impl):
        if case["kind"] == "malformed":
            return ["malformed:" + case["what"], "malformed_entry=" + case.get("entry", "functional")]
        if case["kind"] == "big":
            return self._big_tags(case, impl)
        t = [f"mode={case['mode']}", f"entry={case['entry']}", f"include_eos={case['include_eos']}",
             f"norm={case['norm']}", f"batch_first={case['batch_first']}",
             f"exclude_last={case['exclude_last']}", f"N={min(len(case['ref']), 5)}{'+' if len(case['ref']) > 5 else ''}"]
        eos = case["eos"]
        toks = [x for c in case["ref"] + case["hyp"] for x in c]
        t.append("eos=" + ("unset" if eos is None else ("in_data" if eos in toks else "absent")))
        uni = case["ins"] == case["del"] == case["sub"]
        t.append("costs=" + ("unit" if uni and case["ins"] == "1" else "uniform_shortcut" if uni else "nonuniform"))
        mag = max(Fraction(case[k]) for k in ("ins", "del", "sub"))
        if mag >= 2 ** 20:
            t.append("costs_scaled_up")
        elif mag <= Fraction(1, 2 ** 10):
            t.append("costs_scaled_down")
        if case["R"] == 0:
            t.append("R=0")
        if case["H"] == 0:
            t.append("H=0")
        if eos is not None and any(c and c[0] == eos for c in case["ref"] + case["hyp"]):
            t.append("eos_at_position_0")
        if eos is not None and any(c.count(eos) > 1 or (eos in c and c.index(eos) < len(c) - 1)
                                   for c in case["ref"] + case["hyp"]):
            t.append("filler_after_eos")
        lens = {(len(rc), len(hc)) for rc, hc in self._cols_info(case)}
        if len(lens) > 1:
            t.append("ragged_batch")
        if any(not rc for rc, _ in self._cols_info(case)):
            t.append("empty_ref'")
        if any(not hc for _, hc in self._cols_info(case)):
            t.append("empty_hyp'")
        # presentation options
        t.append(f"warn={case.get('warn', False)}")
        if case["entry"] == "functional":
            t.append("call=" + case.get("call", "positional"))
        else:
            t.append("ctor=" + case.get("ctor", "positional"))
        t.append("cost_type=" + case.get("cost_type", "float"))
        dts = case.get("tok_dtype") or ["int64", "int64"]
        t.append("tok_dtype=" + (dts[0] if dts[0] == dts[1] else "mixed"))
        t.append(f"dtype_pair={dts[0]}/{dts[1]}")
        t += self._alias_tags(case, dts, {x for c in case["ref"] for x in c}, {x for c in case["hyp"] for x in c})
        lay = case.get("layout") or ["contig", "contig"]
        for which, l, cols in (("ref", lay[0], case["ref"]), ("hyp", lay[1], case["hyp"])):
            if l == "expand" and not (cols and all(c == cols[0] for c in cols)):
                l = "contig"
            t.append(f"layout_{which}={l}")
        if case.get("alias") and case["R"] == case["H"] and case["ref"] == case["hyp"]:
            t.append("alias_same_tensor")
        if case.get("default_dtype"):
            t.append("default_dtype=" + case["default_dtype"])
        t += self._life_tags(case, "")
        if case["mode"] == "prefix":
            pd = case["padding"]
            t.append("padding=" + ("-100" if pd == -100 else "eos" if pd == eos else "a_token" if pd in toks
                                   else "beyond_float32" if abs(pd) > 2 ** 24 else "other"))
        if eos is not None:
            t.append("eos_value=" + ("0" if eos == 0 else "negative" if eos < 0 else "positive"))
        if any(abs(x) >= 2 ** 24 for x in toks):
            t.append("tokens_beyond_2^24")
        if any(abs(x) >= 2 ** 53 for x in toks):
            t.append("tokens_beyond_2^53")
        if -100 in toks:
            t.append("token_equals_INDEX_PAD_VALUE")
        if len(set(toks)) > 8:
            t.append("alphabet>8")
        if max(case["R"], case["H"]) > 6:
            t.append("len>6")
        if max(case["R"], case["H"]) > 10:
            t.append("len>10")
        if len(case["ref"]) >= 16:
            t.append("N>=16")
        if len(case["ref"]) >= 128:
            t.append("N>=128")
        if max(case["R"], case["H"]) > 24:
            t.append("len>24")
        if impl and impl.get("warned"):
            t += ["warned:" + k for k in impl["warned"]]
        cell = (case["mode"], case["include_eos"], case["norm"], case["exclude_last"], case["ins"], case["del"],
                case["sub"])
        for rc, hc in self._cols_info(case):
            if rc and hc and rc != hc and len(set(rc + hc)) > 1:
                self._pairs.add((tuple(rc), tuple(hc), cell))
        return t

    def _alias_tags(self, case, dts, ref_t, hyp_t, pre=""):
        """Which congruences between DIFFERENT integers the batch holds (what a cast to a narrower type would merge)."""
        t = []
        eos = case["eos"]
        if case.get("alias_bits"):
            t.append(pre + f"alias:generated_mod_2^{case['alias_bits']}")
        for b in (8, 16, 32):
            M = 2 ** b
            rr = {}
            for x in ref_t:
                rr.setdefault(x % M, set()).add(x)
            if any(rr.get(y % M, set()) - {y} for y in hyp_t):
                t.append(pre + f"alias:ref_token~hyp_token_mod_2^{b}")
            if eos is not None and any(x != eos and x % M == eos % M for x in ref_t | hyp_t):
                t.append(pre + f"alias:token~eos_mod_2^{b}")
        for which, d, other, toks in (("hyp", dts[1], dts[0], hyp_t), ("ref", dts[0], dts[1], ref_t)):
            lo, hi = DTYPE_RANGE[other]
            if any(not lo <= x <= hi for x in toks):
                t.append(pre + f"alias:{which}_token_outside_the_other_dtype")
        if eos is not None:
            for which, d, toks in (("ref", dts[0], ref_t), ("hyp", dts[1], hyp_t)):
                lo, hi = DTYPE_RANGE[d]
                if not lo <= eos <= hi:
                    t.append(pre + f"alias:eos_outside_{which}_dtype")
                    if wrap_to(eos, d) in toks:
                        t.append(pre + f"alias:eos_wraps_onto_a_{which}_token")
        return t

    def _life_tags(self, case, pre):
        life = case.get("life") if case["entry"] == "module" else None
        if not life:
            return [pre + "module_life=fresh"] if case["entry"] == "module" else []
        names = list(life["init"])
        t = [pre + "module_life=reassigned", pre + "life:warm_call=" + life.get("warm", "none"),
             pre + f"life:post_call={bool(life.get('post'))}",
             pre + "life:n_reassigned=" + ("1" if len(names) == 1 else "all" if len(names) == len(ORDER[case["mode"]])
                                             else "several")]
        t += [pre + "life:reassigned=" + k for k in names]
        t.append(pre + "life:handed_as=" + life.get("hand", "same"))
        t.append(pre + "life:mode=" + {None: "untouched", True: "train()", False: "eval()"}[life.get("train")])
        cs = [k for k in names if k.endswith("_cost")]
        if cs:
            fin = {k: Fraction(case[k[:3]]) for k in ("ins_cost", "del_cost", "sub_cost")}
            ini = {k: Fraction(life["init"][k]) if k in life["init"] else fin[k] for k in fin}
            uni = lambda d: len(set(d.values())) == 1
            t.append(pre + "life:costs=" + ("uniform" if uni(ini) else "nonuniform") + "->"
                     + ("uniform" if uni(fin) else "nonuniform"))
        return t

    def _big_tags(self, case, impl):
        N, R, H = case["N"], case["R"], case["H"]
        lg = lambda x: max(int(x), 1).bit_length() - 1
        t = ["big", "big:family=" + case["family"], f"big:mode={case['mode']}", f"big:entry={case['entry']}",
             f"big:batch_first={case['batch_first']}", f"big:norm={case['norm']}",
             "big:eos=" + ("unset" if case["eos"] is None else "in_data" if (
                 case["eos"] == case["gen"]["alphabet"] or (case["gen"].get("alias") or {}).get("eos_out")) else "absent"),
             "big:costs=" + ("uniform_shortcut" if case["ins"] == case["del"] == case["sub"] else "nonuniform"),
             f"big:(R+1)^2*N>=2^{lg((R + 1) ** 2 * N):02d}", f"big:N*R*H>=2^{lg(N * R * H):02d}"]
        if N >= 2 ** 14:
            t.append(f"big:N>=2^{lg(N)}")
        if R >= 2 ** 7:
            t.append(f"big:R>=2^{lg(R):02d}")
        if H >= 2 ** 7:
            t.append(f"big:H>=2^{lg(H):02d}")
        t.append("big:lean_per_column_model=" + ("run" if big_with_model(case) else "oracle_only"))
        t.append("big:layout=" + "/".join(case.get("layout") or ["contig", "contig"]))
        dts = case.get("tok_dtype") or ["int64", "int64"]
        t.append(f"big:dtype_pair={dts[0]}/{dts[1]}")
        al = case["gen"].get("alias")
        if al:
            t.append(f"big:alias:{al['side']}_tokens_shifted_by_k*2^{al['bits']}")
            t.append("big:alias:k=" + ("1" if al["k"] == 1 else "-1" if al["k"] == -1 else "2" if al["k"] == 2
                                       else "largest" if al["k"] > 0 else "smallest"))
            if al.get("eos_out"):
                t.append("big:alias:eos_outside_the_other_dtype")
        if case["gen"].get("eos_pad") and case["eos"] is not None:
            ref, hyp = expand_big(case)
            cr, ch = (ref == case["eos"]).sum(1).tolist(), (hyp == case["eos"]).sum(1).tolist()
            for side, cs in (("ref", cr), ("hyp", ch)):
                for c in set(cs):
                    if c >= 100:
                        t.append(f"big:eos_pad:{side}_column_with_{c if c in self.EOS_COUNTS else '>=2^%d' % lg(c)}_eos_tokens")
            if any((a >= 256) != (b >= 256) for a, b in zip(cr, ch)):
                t.append("big:eos_pad:pair_with>=256_eos_on_one_side_only")
            if any(a >= 256 and b >= 256 for a, b in zip(cr, ch)):
                t.append("big:eos_pad:pair_with>=256_eos_on_both_sides")
        t += self._life_tags(case, "big:")
        if impl and impl.get("warned"):
            t += ["warned:" + k for k in impl["warned"]]
        return t

    def extra_checks(self, rng, tier, report):
        report["extra"]["distinct_nontrivial_pairs"] = len(self._pairs)
        report["extra"]["exhaustive_note"] = (
            "exhaustive stream: every padded column pair over {0,1,eos=2} with lengths <= "
            + ("2 in all 12 option cells x 2 cost triples, lengths 3 in one rotating cell per reference column"
               if tier == "quick" else "3 in all 12 option cells x 4 cost triples")
            + "; complete iff generator_exhausted is true")

    # ------------------------------------------------------------------ shrinking
    def shrink(self, case):
        if case["kind"] == "big":
            yield from self._shrink_big(case)
            return
        if case["kind"] != "batch":
            return
        N = len(case["ref"])
        if N > 1:
            for n in range(N):
                c = dict(case)
                c["ref"] = [case["ref"][n]]
                c["hyp"] = [case["hyp"][n]]
                yield c
        for dim, key in (("R", "ref"), ("H", "hyp")):
            if case[dim] > 0:
                for pos in (case[dim] - 1, 0):
                    c = dict(case)
                    c[dim] = case[dim] - 1
                    c[key] = [col[:pos] + col[pos + 1:] for col in case[key]]
                    yield c
        for k in ("batch_first", "norm", "include_eos", "exclude_last"):
            if case[k]:
                c = dict(case)
                c[k] = False
                yield c
        yield from self._shrink_life(case)
        if case["entry"] == "module":
            yield dict(case, entry="functional")
        if case["mode"] == "prefix" and not case["exclude_last"]:
            yield dict(case, mode="scalar")
        for k in ("ins", "del", "sub"):
            if case[k] != "1":
                yield dict(case, **{k: "1"})
        if case["padding"] != -100:
            yield dict(case, padding=-100)
        # presentation options back to the plain form, one at a time
        for k, plain in (("warn", False), ("call", "positional"), ("ctor", "positional"), ("cost_type", "float"),
                         ("tok_dtype", ["int64", "int64"]), ("layout", ["contig", "contig"]), ("alias", False),
                         ("default_dtype", None)):
            if k in case and case[k] != plain:
                yield dict(case, **{k: plain})
        toks = sorted({x for col in case["ref"] + case["hyp"] for x in col}
                      | ({case["eos"]} if case["eos"] is not None else set()))
        if toks and toks != list(range(len(toks))):
            # rename the tokens to 0..k-1
            m = {x: i for i, x in enumerate(toks)}
            c = dict(case)
            c["ref"] = [[m[x] for x in col] for col in case["ref"]]
            c["hyp"] = [[m[x] for x in col] for col in case["hyp"]]
            if case["eos"] is not None:
                c["eos"] = m[case["eos"]]
            yield c
        for key in ("ref", "hyp"):
            for n, col in enumerate(case[key]):
                for i, x in enumerate(col):
                    if x != 0 and x != case["eos"]:
                        c = dict(case)
                        cols = [list(cc) for cc in case[key]]
                        cols[n][i] = 0
                        c[key] = cols
                        yield c

    def _shrink_life(self, case):
        """A shorter life of the module object: none at all, no call before / after, one reassigned attribute."""
        life = case.get("life")
        if not life or case["entry"] != "module":
            return
        yield {k: v for k, v in case.items() if k != "life"}
        if life.get("warm", "none") != "none":
            yield dict(case, life=dict(life, warm="none"))
        if life.get("post"):
            yield dict(case, life=dict(life, post=False))
        for k in ("hand", "train"):
            if k in life:
                yield dict(case, life={q: v for q, v in life.items() if q != k})
        if len(life["init"]) > 1:
            for k in life["init"]:
                yield dict(case, life=dict(life, init={k: life["init"][k]}))
            for k in life["init"]:
                yield dict(case, life=dict(life, init={q: v for q, v in life["init"].items() if q != k}))

    def _shrink_big(self, case):
        """Smaller sizes (the batch is regenerated from the seed), plainer options. A size-triggered failure
        stops shrinking at its trigger, which is what the replay should show."""
        N, R, H = case["N"], case["R"], case["H"]
        for n in (N // 4, N // 2, N * 3 // 4, N * 7 // 8, N - 1):
            if 1 <= n < N:
                yield dict(case, N=n)
        for r in (R // 2, R * 3 // 4, R - 1):
            if 1 <= r < R:
                yield dict(case, R=r)
        for h in (H // 2, H * 3 // 4, H - 1):
            if 1 <= h < H:
                yield dict(case, H=h)
        for k in ("batch_first", "norm", "include_eos", "exclude_last", "warn"):
            if case.get(k):
                yield dict(case, **{k: False})
        yield from self._shrink_life(case)
        if case["entry"] == "module":
            yield dict(case, entry="functional")
        if case["mode"] == "prefix" and not case["exclude_last"]:
            yield dict(case, mode="scalar")
        for k in ("ins", "del", "sub"):
            if case[k] != "1":
                yield dict(case, **{k: "1"})
        for k, plain in (("call", "positional"), ("ctor", "positional"), ("tok_dtype", ["int64", "int64"]),
                         ("layout", ["contig", "contig"]), ("padding", -100)):
            if case.get(k) != plain:
                yield dict(case, **{k: plain})
        if case["gen"]["noise"] != 0.0:
            yield dict(case, gen=dict(case["gen"], noise=0.0))
        if case["gen"].get("eos_pad"):
            yield dict(case, gen={k: v for k, v in case["gen"].items() if k != "eos_pad"})
        al = case["gen"].get("alias")
        if al:
            # no congruent tokens at all / fewer of them / the eos back inside both dtypes
            plain = {k: v for k, v in case["gen"].items() if k != "alias"}
            yield dict(case, gen=plain, eos=case["gen"]["alphabet"] if al.get("eos_out") else case["eos"])
            if al["p"] > 0.02:
                yield dict(case, gen=dict(case["gen"], alias=dict(al, p=0.02)))


CHECK = C01()
