"""C06 — the n-gram lookup model computes Katz back-off on any table.

Correspondence: a table (list of dicts, lowest order first) is handed to the real
`LookupLanguageModel(V, sos, prob_dicts)` and to the Lean model `buildTrie`; the four flat
buffers, the integer widths, `max_ngram`, `max_ngram_nodes`, `max_direct_descendants`, what
`load_state_dict` infers in a fresh instance, and the log-probabilities (all positions,
every chunk size, one index at a time, per-element indices, after reload) are compared
exactly (values live on a 1/8 grid in [-16, 0]: every float32 sum is exact).
Property: every one of those log-probabilities equals the Katz recursion `Backoff.bo`
evaluated by Lean directly on the raw table.
ARPA: text written from a table is parsed by the real `parse_arpa_lm` and by the Lean
line-level model `parseArpa`; both must give back the table.
"""
import io
import itertools
import math
import warnings
from fractions import Fraction

from common.framework import PropertyCheck, frac_str

NEG_INF = "-inf"


# ------------------------------------------------------------------ helpers
def _val(s):
    return float("-inf") if s == NEG_INF else float(Fraction(s))


def to_prob_dicts(dicts):
    """case dicts -> what LookupLanguageModel takes (unigram keys are plain ints)."""
    N = len(dicts)
    out = []
    for n, d in enumerate(dicts):
        pd = {}
        for e in d:
            key = tuple(e["key"])
            k = key[0] if n == 0 and len(key) == 1 else key
            if n == N - 1:
                pd[k] = _val(e["logp"])
            else:
                pd[k] = (_val(e["logp"]), _val(e.get("logb", "0")))
        out.append(pd)
    return out


def tens3(x):
    return [[[frac_str(v) for v in row] for row in mat] for mat in x.tolist()]


def tens2(x):
    return [[frac_str(v) for v in row] for row in x.tolist()]


BITS = {"torch.uint8": 8, "torch.int16": 16, "torch.int32": 32, "torch.int64": 64}


def grid(rng, lo=-16):
    return frac_str(Fraction(rng.randrange(lo * 8, 1), 8))


# ------------------------------------------------------------------ generators
def gen_table(rng, V, sos, N, density, p_inf, p_sos_in_key, max_top=None):
    """A sparse table: each order draws its own keys independently, so lower-order suffixes
    (and unigrams) of listed n-grams are frequently missing."""
    shift = 0 if 0 <= sos < V else 1
    toks = list(range(V)) + ([sos] if shift else [])
    dicts = []
    for n in range(1, N + 1):
        d = {}
        space = len(toks) ** n
        if space <= 64:
            keys = [k for k in itertools.product(toks, repeat=n) if rng.random() < density]
        else:
            keys = [tuple(rng.choice(toks) for _ in range(n)) for _ in range(int(space * density) if max_top is None
                                                                              else max_top)]
        if shift and rng.random() > p_sos_in_key:
            keys = [k for k in keys if sos not in k]
        if n == N and not keys:
            keys = [tuple(rng.choice(range(V)) for _ in range(n))]
        if n == N and max_top is not None:
            keys = keys[:max_top]
        for k in keys:
            e = {"key": list(k), "logp": NEG_INF if rng.random() < p_inf else grid(rng)}
            if n < N:
                e["logb"] = grid(rng, -4) if rng.random() < 0.8 else "0"
            d[k] = e
        dicts.append(list(d.values()))
    return dicts


def gen_hist(rng, V, sos, T, B, p_sos):
    shift = 0 if 0 <= sos < V else 1
    return [[(sos if (shift and rng.random() < p_sos) else rng.randrange(V)) for _ in range(B)] for _ in range(T)]


def std_case(rng, V, sos, N, T, B, dicts, p_sos=0.15):
    hist = gen_hist(rng, V, sos, T, B, p_sos)
    chunks = list(range(1, T + 3))
    idxs = [[i] for i in range(T + 1)][:3] + [[rng.randrange(T + 1) for _ in range(B)] for _ in range(3)]
    return {"kind": "table", "V": V, "sos": sos, "dicts": dicts, "B": B, "hist": hist,
            "chunks": chunks, "idxs": idxs}


class C06(PropertyCheck):
    pid = "C06"
    rule = ("tables of order 1..4 over V<=4 (every order draws its keys independently: missing suffixes, "
            "missing unigrams, -inf entries, sos inside/outside the vocabulary and inside keys), values on a 1/8 "
            "grid in [-16,0]; histories T=0..6, B=1..3; all chunk sizes 1..T+2; scalar and per-element idx; "
            "state_dict round trip; a size stream (hundreds of n-grams, V up to 127) crossing the uint8/int16 "
            "offset boundary; an out-of-vocabulary stream (ids never in the most recent slot); a malformed "
            "stream (ValueError expected); ARPA text round trips. non-trivial: order >= 2 and at least one "
            "back-off actually taken; distinct by the whole case")
    assumptions = [
        "float32 arithmetic is exact on the generated value grid (checked: every compared value is an exact rational)",
        "torch indexing / masked_select / as_strided taken at their documented meaning",
        "history tokens are in [0,V) or sos; out-of-vocabulary ids are only exercised away from the most recent "
        "slot of a window and below 256 (the code indexes the unigram level with the most recent token and casts "
        "the window to the id dtype)",
        "ARPA: the three regular expressions and float() of the reader are exercised by correspondence only",
    ]
    quick_budget_s = 75
    thorough_budget_s = 800

    # ------------------------------------------------------------------ cases
    def cases(self, rng, tier):
        n_rand = {"quick": 600, "thorough": 5000, "search": 1500}[tier]
        # 1. hand-picked shapes first
        for V, sos in ((1, 0), (1, -1), (2, 0), (2, 5), (3, 1), (3, -1), (4, 3), (4, 4)):
            for N in (1, 2, 3, 4):
                dicts = gen_table(rng, V, sos, N, 0.5 if V <= 2 else 0.25, 0.15, 0.7, max_top=12)
                yield std_case(rng, V, sos, N, rng.randrange(0, 7), rng.randrange(1, 4), dicts)
        # 2. random sparse tables
        for _ in range(n_rand):
            V = rng.choice((1, 2, 2, 3, 3, 4))
            sos = rng.choice((0, V - 1, -1, V, V + 3, rng.randrange(V)))
            N = rng.choice((1, 2, 2, 3, 3, 3, 4, 4))
            dens = rng.choice((0.1, 0.3, 0.6, 0.9))
            dicts = gen_table(rng, V, sos, N, dens, rng.choice((0.0, 0.2, 0.5)), rng.choice((0.0, 0.5, 1.0)),
                              max_top=rng.choice((1, 3, 10, 30)))
            yield std_case(rng, V, sos, N, rng.randrange(0, 7), rng.randrange(1, 4), dicts)
        # 3. out-of-vocabulary ids, never in the most recent slot of an evaluated window
        for _ in range({"quick": 80, "thorough": 500, "search": 200}[tier]):
            V = rng.choice((2, 3, 4))
            sos = rng.choice((0, -1, V + 3))
            shift = 0 if 0 <= sos < V else 1
            N = rng.choice((3, 4))
            dicts = gen_table(rng, V, sos, N, 0.5, 0.1, 0.5, max_top=20)
            T, B = rng.randrange(2, 7), rng.randrange(1, 3)
            hist = gen_hist(rng, V, sos, T, B, 0.1)
            oov = [x for x in (-3, -2, V + 1, V + 2, V + 6, 200) if x != sos and not (shift and x == V)]
            if not shift:
                oov.append(V)
            for _k in range(rng.randrange(1, 3)):
                hist[rng.randrange(T)][rng.randrange(B)] = rng.choice(oov)
            ok = [i for i in range(T + 1)
                  if i == 0 or all(0 <= hist[i - 1][b] < V or hist[i - 1][b] == sos for b in range(B))]
            idxs = [[i] for i in ok]
            if B > 1 and ok:
                idxs.append([rng.choice(ok) for _ in range(B)])
            yield {"kind": "table", "V": V, "sos": sos, "dicts": dicts, "B": B, "hist": hist, "chunks": [],
                   "idxs": idxs, "oov": True}
        # 4. size stream: offsets cross the uint8 / int16 boundary
        sizes = [(127, -1, "fan"), (126, 3, "fan"), (127, -1, "fan1"), (30, 0, 300), (40, -1, 500), (12, 2, 200)]
        if tier != "quick":
            sizes += [(128, -1, "fan"), (125, -1, "fan"), (60, 0, 1500), (200, -1, 700), (253, 0, 300),
                      (254, 0, 300), (255, -1, 400), (300, 7, 600)]
        for V, sos, what in sizes:
            yield self.size_case(rng, V, sos, what)
        # 5. malformed tables: ValueError expected
        yield from self.malformed(rng)
        # 6. ARPA
        for _ in range({"quick": 80, "thorough": 500, "search": 100}[tier]):
            V = rng.choice((2, 3, 5))
            N = rng.choice((1, 2, 3))
            dicts = gen_table(rng, V, 0, N, 0.4, 0.0, 0.0, max_top=8)
            style = rng.choice(("fixed", "repr", "exp"))
            yield {"kind": "arpa", "V": V, "dicts": dicts, "implicit": rng.random() < 0.5, "style": style,
                   "numeric_tokens": rng.random() < 0.5, "blank_lines": rng.random() < 0.5,
                   "base_e": rng.random() < 0.5}

    def size_case(self, rng, V, sos, what):
        shift = 0 if 0 <= sos < V else 1
        toks = list(range(V)) + ([sos] if shift else [])
        if what in ("fan", "fan1"):
            # every bigram ends in the same token: one unigram owns all level-2 nodes, every other
            # unigram is a childless parent (longest possible offsets)
            last = 0 if what == "fan" else V - 1
            uni = [{"key": [t], "logp": grid(rng), "logb": grid(rng, -4)} for t in toks]
            bi = [{"key": [t, last], "logp": grid(rng)} for t in toks]
            dicts = [uni, bi]
        else:
            n2 = min(what, (len(toks) ** 2) * 3 // 4)
            bi = {}
            while len(bi) < n2:
                k = (rng.choice(toks), rng.choice(toks))
                bi[k] = {"key": list(k), "logp": grid(rng), "logb": grid(rng, -4)}
            tri = {}
            while len(tri) < n2:
                k = (rng.choice(toks), rng.choice(toks), rng.choice(toks))
                tri[k] = {"key": list(k), "logp": grid(rng)}
            uni = [{"key": [t], "logp": grid(rng), "logb": grid(rng, -4)} for t in toks if rng.random() < 0.9]
            dicts = [uni, list(bi.values()), list(tri.values())]
        T, B = 3, 2
        hist = gen_hist(rng, V, sos, T, B, 0.2)
        if what in ("fan", "fan1"):
            hist[1][0] = 0
            hist[2][1] = 1 % V
        return {"kind": "table", "V": V, "sos": sos, "dicts": dicts, "B": B, "hist": hist, "chunks": [1, 3],
                "idxs": [[2], [3, 1]], "size": True}

    def malformed(self, rng):
        base = {"kind": "table", "V": 3, "sos": 0, "B": 1, "hist": [[1]], "chunks": [1], "idxs": [[0]],
                "malformed": True}
        u = [{"key": [0], "logp": "-1", "logb": "0"}]
        yield dict(base, dicts=[])
        yield dict(base, dicts=[u, []])
        yield dict(base, dicts=[[{"key": [7], "logp": "-1"}]])
        yield dict(base, dicts=[u, [{"key": [0, 1, 2], "logp": "-1"}]])
        yield dict(base, dicts=[u, [{"key": [0, 9], "logp": "-1"}]])
        yield dict(base, sos=-1, dicts=[u, [{"key": [-2, 1], "logp": "-1"}]])
        yield dict(base, dicts=[u, [{"key": [1, 1], "logp": "-1", "logb": "0"}], []])

    # ------------------------------------------------------------------ implementation
    def run_impl(self, case):
        if case["kind"] == "arpa":
            return self.run_arpa(case)
        import torch
        from pydrobert.torch.modules import LookupLanguageModel, SequentialLanguageModel
        V, sos, B = case["V"], case["sos"], case["B"]
        with warnings.catch_warnings():
            warnings.simplefilter("ignore")
            try:
                lm = LookupLanguageModel(V, sos, to_prob_dicts(case["dicts"]))
            except Exception as e:
                return {"build_error": type(e).__name__, "message": str(e)[:200]}
            out = {"build": {
                "N": lm.max_ngram, "G": lm.max_ngram_nodes, "S": lm.max_direct_descendants,
                "offsets": [int(x) for x in lm.offsets.tolist()], "ids": [int(x) for x in lm.ids.tolist()],
                "logps": [frac_str(x) for x in lm.logps.tolist()],
                "logbs": [frac_str(x) for x in lm.logbs.tolist()],
                "offBits": BITS[str(lm.offsets.dtype)], "idBits": BITS[str(lm.ids.dtype)]}}
            hist = torch.tensor(case["hist"], dtype=torch.long).view(len(case["hist"]), B)
            T = hist.size(0)
            lm2 = LookupLanguageModel(V, sos)
            try:
                lm2.load_state_dict(lm.state_dict())
                out["shape"] = {"N": lm2.max_ngram, "G": lm2.max_ngram_nodes, "S": lm2.max_direct_descendants}
            except Exception as e:
                out["shape"] = {"error": type(e).__name__, "message": str(e)[:200]}
                lm2 = None
            if not case.get("oov"):
                out["full"] = tens3(lm(hist))
                out["chunked"] = {str(c): tens3(lm.calc_full_log_probs_chunked(hist, {}, c)) for c in case["chunks"]}
                # the base-class evaluation: one index at a time on the whole history
                out["byidx"] = tens3(SequentialLanguageModel.calc_full_log_probs(lm, hist, {}))
                if lm2 is not None:
                    out["reloaded_full"] = tens3(lm2(hist))
            out["idx"] = []
            out["reloaded_idx"] = []
            for hidx in case["idxs"]:
                it = torch.tensor(hidx[0] if len(hidx) == 1 else hidx, dtype=torch.long)
                out["idx"].append(tens2(lm(hist, idx=it)[0]))
                if lm2 is not None:
                    out["reloaded_idx"].append(tens2(lm2(hist, idx=it)[0]))
        return out

    # ------------------------------------------------------------------ ARPA
    def arpa_file(self, case):
        """The file, as text for the real reader and as classified lines for the Lean model."""
        dicts, N = case["dicts"], len(case["dicts"])
        numeric = case["numeric_tokens"]
        names = (lambda t: str(t * 3 + 1)) if numeric else (lambda t: "w%d" % t)

        def num(s):
            f = float(Fraction(s))
            if case["style"] == "fixed":
                return "%.3f" % f
            if case["style"] == "exp":
                return ("%.5e" % f).replace("e+", "e")
            return repr(f) if f != int(f) else str(int(f))
        items = [("some preamble 1 2", {"t": "other"}), ("\\data\\", {"t": "data"})]
        for n, d in enumerate(dicts):
            items.append(("ngram %d=%d" % (n + 1, len(d)), {"t": "count", "n": n + 1, "c": len(d)}))
        items.append(("", {"t": "blank"}))
        for n, d in enumerate(dicts):
            items.append(("\\%d-grams:" % (n + 1), {"t": "header", "n": n + 1}))
            for e in d:
                text = [num(e["logp"])] + [names(t) for t in e["key"]]
                fields = [{"s": names(t), "num": (str(t * 3 + 1) if numeric else None)} for t in e["key"]]
                if n < N - 1 and not (case["implicit"] and Fraction(e.get("logb", "0")) == 0):
                    text.append(num(e.get("logb", "0")))
                    fields.append({"s": text[-1], "num": e.get("logb", "0")})
                items.append((("\t" if case["blank_lines"] else " ").join(text),
                              {"t": "entry", "logp": e["logp"], "fields": fields}))
            items.append(("", {"t": "blank"}))
        items.append(("\\end\\", {"t": "end"}))
        if case["blank_lines"]:
            items = [x for it in items for x in (it, ("  ", {"t": "blank"}))]
        return "\n".join(t for t, _ in items) + "\n", [l for _, l in items]

    def run_arpa(self, case):
        from pydrobert.torch.data import parse_arpa_lm
        text, _ = self.arpa_file(case)
        with warnings.catch_warnings():
            warnings.simplefilter("ignore")
            pds = parse_arpa_lm(io.StringIO(text), to_base_e=case["base_e"])
        N = len(pds)
        out = []
        for n, pd in enumerate(pds):
            d = []
            for k, v in pd.items():
                key = [k] if n == 0 else list(k)
                if n == N - 1:
                    d.append({"key": key, "logp": float(v), "logb": None})
                else:
                    d.append({"key": key, "logp": float(v[0]), "logb": float(v[1])})
            out.append(d)
        return {"dicts": out}

    # ------------------------------------------------------------------ model
    def model_request(self, case):
        if case["kind"] == "arpa":
            return {"op": "c06.arpa", "case": {"lines": self.arpa_file(case)[1]}}
        return {"op": "c06.table", "case": {
            "V": case["V"], "sos": case["sos"], "dicts": case["dicts"], "B": case["B"], "hist": case["hist"],
            "chunks": case["chunks"], "idxs": case["idxs"]}}

    # ------------------------------------------------------------------ comparison
    def compare(self, case, impl, model):
        if "error" in impl:
            return [f"harness could not run the implementation: {impl['error']}: {impl.get('message')}"]
        if case["kind"] == "arpa":
            return self.compare_arpa(case, impl, model)
        out = []
        if "build_error" in impl:
            if model["build"] is not None:
                out.append(f"construction raised {impl['build_error']} but the model builds a trie")
            return out
        if model["build"] is None:
            return ["model rejects the table (ValueError) but the implementation built a trie"]
        a, b = impl["build"], model["build"]
        for k in ("N", "G", "S", "offBits", "idBits"):
            if a[k] != b[k]:
                out.append(f"{k}: impl={a[k]} model={b[k]}")
        for k in ("offsets", "ids", "logps", "logbs"):
            if a[k] != b[k]:
                if len(a[k]) != len(b[k]):
                    out.append(f"buffer {k}: length impl={len(a[k])} model={len(b[k])}")
                else:
                    i = next(i for i in range(len(a[k])) if a[k][i] != b[k][i])
                    out.append(f"buffer {k}[{i}]: impl={a[k][i]} model={b[k][i]}")
        if impl["shape"] != model["shape"]:
            out.append(f"load_state_dict shape: impl={impl['shape']} model={model['shape']}")
        if not case.get("oov"):
            if impl["full"] != model["full"]:
                out.append("full log-probs differ from the model: " + first_diff3(impl["full"], model["full"]))
            for c in case["chunks"]:
                if impl["chunked"][str(c)] != model["full"]:
                    out.append(f"chunk_size={c}: differs from the model: "
                               + first_diff3(impl["chunked"][str(c)], model["full"]))
            if impl["byidx"] != model["full"]:
                out.append("one-index-at-a-time differs from the model")
        for j, hidx in enumerate(case["idxs"]):
            if impl["idx"][j] != model["idx"][j]:
                out.append(f"idx={hidx}: impl={impl['idx'][j]} model={model['idx'][j]}")
        return out

    def compare_arpa(self, case, impl, model):
        want = model.get("parsed")
        if want is None:
            return [f"model rejects the ARPA lines: {model}"]
        if case["base_e"]:
            conv = math.log10(math.e)   # the reader divides by this float
        got = [sorted(([e["key"], e["logp"], e["logb"]] for e in d), key=repr) for d in impl["dicts"]]
        w = []
        for d in want:
            rows = []
            for e in d:
                p = _val(e["logp"])
                b = None if e["logb"] is None else _val(e["logb"])
                if case["base_e"]:
                    p, b = p / conv, (None if b is None else b / conv)
                rows.append([e["key"], p, b])
            w.append(sorted(rows, key=repr))
        return [] if got == w else [f"parsed table impl={got} model={w}"]

    # ------------------------------------------------------------------ property
    def internal_consistency(self, case, model):
        """model == spec (theorems C06_tree & co. say so; a failure is a machinery error)."""
        if case["kind"] != "table" or model.get("build") is None:
            return
        T, B = len(case["hist"]), case["B"]
        bld = model["build"]
        if model["shape"] != {"N": bld["N"], "G": bld["G"], "S": bld["S"]}:
            raise AssertionError(f"Lean model: inferShape(buildTrie) = {model['shape']} but buildTrie has "
                                 f"N={bld['N']} G={bld['G']} S={bld['S']}")
        if not case.get("oov"):
            if model["full"] != model["spec_full"]:
                raise AssertionError("Lean model and Lean spec disagree: "
                                     + first_diff3(model["full"], model["spec_full"]))
            if not all(model["chunk_agree"]) or not model["byidx_agree"]:
                raise AssertionError("Lean model: chunked / by-index evaluation differs from chunk_size=1")
        for j, hidx in enumerate(case["idxs"]):
            hv = hidx * B if len(hidx) == 1 else hidx
            want = [model["spec_full"][hv[b]][b] for b in range(B)]
            if model["idx"][j] != want:
                raise AssertionError(f"Lean model idx={hidx} differs from the spec")

    def predicate(self, case, impl, model):
        if "error" in impl:
            return []
        if case["kind"] == "arpa":
            return self.predicate_arpa(case, impl)
        self.internal_consistency(case, model)
        fails = []
        if case.get("malformed"):
            if impl.get("build_error") != "ValueError":
                fails.append((f"malformed table not rejected with ValueError: {impl.get('build_error', 'built')}",
                              "C06.malformed.not_rejected"))
            return fails
        if "build_error" in impl:
            sig = None
            msg = impl.get("message", "")
            return [(f"constructing the model from a valid table raised {impl['build_error']}: {msg}",
                     "C06.build_trie.raises." + impl["build_error"])]
        if model is None or model.get("build") is None:
            return fails
        spec = model["spec_full"]
        B = case["B"]
        N = len(case["dicts"])
        if isinstance(impl["shape"], dict) and "error" in impl["shape"]:
            fails.append((f"load_state_dict into a fresh instance raised {impl['shape']['error']}",
                          "C06.load_state_dict.raises"))
        elif impl["shape"]["N"] != N:
            fails.append((f"reloaded instance has max_ngram={impl['shape']['N']}, table has order {N}",
                          "C06.load_state_dict.order"))
        if not case.get("oov"):
            for name, got in ([("all positions at once", impl["full"]), ("one index at a time", impl["byidx"])]
                              + [(f"chunk_size={c}", impl["chunked"][str(c)]) for c in case["chunks"]]
                              + ([("after state_dict round trip", impl["reloaded_full"])]
                                 if "reloaded_full" in impl else [])):
                if got != spec:
                    fails.append((f"{name}: log-probabilities differ from Katz back-off on the table: "
                                  + first_diff3(got, spec), "C06.value." + name.split("=")[0].replace(" ", "_")))
        for j, hidx in enumerate(case["idxs"]):
            hv = hidx * B if len(hidx) == 1 else hidx
            want = [spec[hv[b]][b] for b in range(B)]
            if impl["idx"][j] != want:
                fails.append((f"idx={hidx}: {impl['idx'][j]} differs from Katz back-off {want}", "C06.value.idx"))
            if impl["reloaded_idx"] and impl["reloaded_idx"][j] != want:
                fails.append((f"idx={hidx} after reload: differs from Katz back-off", "C06.value.idx_reloaded"))
        return fails

    def predicate_arpa(self, case, impl):
        """Reading the file yields exactly its listed entries (base 10 exactly; base e within 1e-12 relative)."""
        fails = []
        conv = math.log(10.0) if case["base_e"] else 1.0
        N = len(case["dicts"])
        if len(impl["dicts"]) != N:
            return [(f"{len(impl['dicts'])} orders read, {N} written", "C06.arpa.orders")]
        names = (lambda t: str(t * 3 + 1)) if case["numeric_tokens"] else (lambda t: "w%d" % t)
        for n, (d, got) in enumerate(zip(case["dicts"], impl["dicts"])):
            want = {tuple(names(t) for t in e["key"]):
                    (self.printed(case, e["logp"]), None if n == N - 1 else self.printed(case, e.get("logb", "0")))
                    for e in d}
            have = {tuple(e["key"]): (e["logp"], e["logb"]) for e in got}
            if set(want) != set(have):
                fails.append((f"order {n + 1}: keys read {sorted(have)} != keys written {sorted(want)}",
                              "C06.arpa.keys"))
                continue
            for k in want:
                for a, b in zip(want[k], have[k]):
                    if (a is None) != (b is None):
                        fails.append((f"order {n + 1} {k}: back-off presence differs", "C06.arpa.logb"))
                    elif a is not None:
                        x = a * conv
                        if (b != x) if not case["base_e"] else (abs(b - x) > 1e-12 * max(1.0, abs(x))):
                            fails.append((f"order {n + 1} {k}: read {b!r}, file lists {a!r} (x{conv})",
                                          "C06.arpa.value"))
        return fails

    @staticmethod
    def printed(case, s):
        """The decimal number the file lists for grid value s (3 decimals represent the 1/8 grid exactly)."""
        return float(Fraction(s))

    # ------------------------------------------------------------------ bookkeeping
    def nontrivial(self, case, impl):
        if case["kind"] != "table" or not isinstance(impl, dict) or "build" not in impl:
            return False
        N = len(case["dicts"])
        if N < 2:
            return False
        top = {tuple(e["key"]) for e in case["dicts"][-1] if e["logp"] != NEG_INF}
        V, sos, B = case["V"], case["sos"], case["B"]
        for t in range(len(case["hist"]) + 1):
            for b in range(B):
                h = [sos] * (N - 1) + [case["hist"][i][b] for i in range(t)]
                ctx = tuple(h[len(h) - (N - 1):])
                if any(ctx + (w,) not in top for w in range(V)):
                    return True
        return False

    def tags(self, case, impl):
        if case["kind"] == "arpa":
            return ["arpa", "arpa:base_e" if case["base_e"] else "arpa:base10",
                    "arpa:implicit_backoff" if case["implicit"] else "arpa:explicit_backoff",
                    "arpa:numeric_tokens" if case["numeric_tokens"] else "arpa:word_tokens"]
        V, sos = case["V"], case["sos"]
        t = [f"order={len(case['dicts'])}", f"V={V if V <= 4 else '>4'}",
             "sos_in_vocab" if 0 <= sos < V else "sos_outside", f"T={len(case['hist'])}", f"B={case['B']}"]
        for k in ("oov", "size", "malformed"):
            if case.get(k):
                t.append(k)
        if isinstance(impl, dict) and "build" in impl:
            t.append(f"offsets_bits={impl['build']['offBits']}")
            n_listed = sum(len(d) for d in case["dicts"])
            n_nodes = len(impl["build"]["logps"]) - (len(case["dicts"]) - 1)
            if n_nodes > n_listed:
                t.append("implicit_nodes_added")
            if any(e["logp"] == NEG_INF for d in case["dicts"] for e in d):
                t.append("has_-inf_entry")
            if not (0 <= sos < V) and any(sos in e["key"] for d in case["dicts"] for e in d):
                t.append("sos_inside_keys")
        if isinstance(impl, dict) and "build_error" in impl:
            t.append("build_error:" + impl["build_error"])
        return t

    def shrink(self, case):
        if case["kind"] != "table":
            return
        dicts = case["dicts"]
        # fewer positions / batch elements
        if len(case["hist"]) > 0:
            T = len(case["hist"]) - 1
            yield dict(case, hist=case["hist"][:-1], chunks=[c for c in case["chunks"] if c <= T + 2],
                       idxs=[[min(i, T) for i in h] for h in case["idxs"]])
        if case["B"] > 1:
            yield dict(case, B=case["B"] - 1, hist=[r[:-1] for r in case["hist"]],
                       idxs=[h if len(h) == 1 else h[:-1] for h in case["idxs"]])
        if len(case["idxs"]) > 1:
            yield dict(case, idxs=case["idxs"][:1])
            yield dict(case, idxs=case["idxs"][1:])
        if len(case["chunks"]) > 1:
            yield dict(case, chunks=case["chunks"][:1])
        # drop the highest order
        if len(dicts) > 1 and dicts[-2]:
            yield dict(case, dicts=dicts[:-2] + [[{"key": e["key"], "logp": e["logp"]} for e in dicts[-2]]])
        # drop entries
        for n in range(len(dicts) - 1, -1, -1):
            d = dicts[n]
            if len(d) > 8:
                yield dict(case, dicts=dicts[:n] + [d[:len(d) // 2]] + dicts[n + 1:])
                yield dict(case, dicts=dicts[:n] + [d[len(d) // 2:]] + dicts[n + 1:])
            elif len(d) > (1 if n == len(dicts) - 1 else 0):
                for i in range(len(d)):
                    yield dict(case, dicts=dicts[:n] + [d[:i] + d[i + 1:]] + dicts[n + 1:])
        if case["V"] > 1 and all(t < case["V"] - 1 for d in dicts for e in d for t in e["key"]) \
                and all(t < case["V"] - 1 for r in case["hist"] for t in r) and case["sos"] < case["V"] - 1:
            yield dict(case, V=case["V"] - 1)


def first_diff3(a, b):
    if len(a) != len(b):
        return f"length {len(a)} vs {len(b)}"
    for t, (x, y) in enumerate(zip(a, b)):
        for bb, (r, s) in enumerate(zip(x, y)):
            for w, (p, q) in enumerate(zip(r, s)):
                if p != q:
                    return f"[t={t}][b={bb}][w={w}] got {p} want {q}"
    return "shape"


CHECK = C06()
