"""C06 — the n-gram lookup model computes Katz back-off on any table.

Widened after the seeded-change review: memory layouts / dtypes of the history tensor, idx spellings,
constructor spellings, torch.save round trip, every entry x option of parse_arpa_lm, corrupt ARPA files
(see design_notes/C06.md, "Seeded changes"). Round g: state dicts loaded into receiving instances of every kind
(default / built on lower, equal, higher order tables / after earlier loads), see `gen_loads`.

Correspondence: a table (list of dicts, lowest order first) is handed to the real
`LookupLanguageModel(V, sos, prob_dicts)` and to the Lean model `buildTrie`; the four flat
buffers, the integer widths, `max_ngram`, `max_ngram_nodes`, `max_direct_descendants`, what
`load_state_dict` infers in a fresh instance, and the log-probabilities (all positions,
every chunk size, one index at a time, per-element indices, after reload) are compared
exactly (values live on a 1/8 grid in [-16, 0]: every float32 sum is exact).
Property: every one of those log-probabilities equals the Katz recursion `Backoff.bo`
evaluated by Lean directly on the raw table.
ARPA: text written from a table is parsed by the real `parse_arpa_lm` and by the Lean
line-level model `parseArpa`; both must give back the table.

Caller-owned objects (improvement round 3): every object handed to a constructor / entry point - the
table (`prob_dicts`), the history tensor and its whole storage, idx tensors, the `prev` dict, a state
dict, `token2id`, an open file - is compared with a deep copy taken before the call, unless the
documentation says the call may consume it (`destructive=True`); the model's own buffers must survive
evaluation. The SAME table object is handed to further constructions (`steps`: other start symbols -
outside then inside the vocabulary and the reverse -, other spellings, after a rejected or a
destructive construction); every model built must be the Lean model's and evaluate the Katz
recursion on the table the caller holds at that moment (Lean: the heap procedure `buildTrieMem`,
which also predicts what a destructive construction leaves behind).
"""
import copy
import io
import itertools
import math
import warnings
from fractions import Fraction

from common.framework import PropertyCheck, frac_str

NEG_INF = "-inf"


# ------------------------------------------------------------------ helpers
def _val(s):
    return float("-inf") if s == NEG_INF else float(Fraction(s))


def to_prob_dicts(dicts):
    """case dicts -> what LookupLanguageModel takes (unigram keys are plain ints)."""
    N = len(dicts)
    out = []
    for n, d in enumerate(dicts):
        pd = {}
        for e in d:
            key = tuple(e["key"])
            k = key[0] if n == 0 and len(key) == 1 else key
            if n == N - 1:
                pd[k] = _val(e["logp"])
            else:
                pd[k] = (_val(e["logp"]), _val(e.get("logb", "0")))
        out.append(pd)
    return out


def tens3(x):
    return [[[frac_str(v) for v in row] for row in mat] for mat in x.tolist()]


def tens2(x):
    return [[frac_str(v) for v in row] for row in x.tolist()]


# ARPA files that are not well-formed (IOError expected) / well-formed files written differently
ARPA_CORRUPT = ("count", "no_end", "no_data", "extra_token", "extra_number", "unlisted_order", "garbage", "dup_count")
ARPA_VARIANTS = ("counts_reversed", "sections_reversed", "split_section", "dup_line")

BITS = {"torch.uint8": 8, "torch.int16": 16, "torch.int32": 32, "torch.int64": 64}


# every way of calling the constructor; the last two allow it to consume the table
CTORS = ("positional", "keyword", "logger", "prob_list", "destructive", "destructive_kw")


def is_destructive(ctor):
    return ctor.startswith("destructive")


def _logger():
    import logging
    lg = logging.getLogger("verif.c06")
    lg.propagate = False
    lg.setLevel(logging.INFO)
    if not lg.handlers:
        lg.addHandler(logging.NullHandler())
    return lg


def construct(V, sos, table, ctor):
    """`LookupLanguageModel(V, sos, table, ...)` in one of its spellings; `table` is the CALLER's object."""
    from pydrobert.torch.modules import LookupLanguageModel
    if ctor == "destructive":
        return LookupLanguageModel(V, sos, table, True)
    if ctor == "destructive_kw":
        return LookupLanguageModel(V, sos, prob_dicts=table, destructive=True, logger=_logger())
    if ctor == "prob_list":
        return LookupLanguageModel(V, sos, prob_list=table)
    if ctor == "keyword":
        return LookupLanguageModel(vocab_size=V, sos=sos, prob_dicts=table, destructive=False)
    if ctor == "logger":
        return LookupLanguageModel(V, sos, table, False, _logger())
    return LookupLanguageModel(V, sos, table)


def _obs_key(k):
    try:
        return [int(x) for x in k] if isinstance(k, (tuple, list)) else [int(k)]
    except Exception:
        return [repr(k)]


def table_obs(table, held):
    """What the caller sees of the table it handed over: the length of its list object and the contents of
    the dict objects it had put there (sorted: the order inside a dict is compared separately)."""
    out = []
    for d in held:
        rows = []
        for k, v in d.items():
            lp, lb = v if isinstance(v, tuple) and len(v) == 2 else (v, None)
            rows.append({"key": _obs_key(k), "logp": frac_str(lp), "logb": None if lb is None else frac_str(lb)})
        out.append(sorted(rows, key=lambda e: (len(e["key"]), repr(e["key"]))))
    return {"outer_len": len(table), "dicts": out}


def table_changes(table, held, snap):
    """Differences between the caller's table and the deep copy `snap` (of the dict objects `held`, with the
    list's length) taken before the call."""
    out = []
    snap_len, snap_dicts = snap
    if len(table) != snap_len:
        out.append(f"the list had {snap_len} elements, now {len(table)}")
    elif any(a is not b for a, b in zip(table, held)):
        out.append("the list holds other dict objects than before")
    for n, (d, old) in enumerate(zip(held, snap_dicts)):
        if list(d.items()) == list(old.items()) and all(type(d[k]) is type(old[k]) for k in d):
            continue
        gone = [k for k in old if k not in d]
        new = [k for k in d if k not in old]
        diff = [k for k in d if k in old and (d[k] != old[k] or type(d[k]) is not type(old[k]))]
        if not (gone or new or diff):
            out.append(f"the order-{n + 1} dict lists its keys in another order")
        else:
            out.append(f"the order-{n + 1} dict " + ", ".join(
                x for x in (gone and f"lost {gone[:4]}", new and f"gained {new[:4]}", diff and f"changed {diff[:4]}")
                if x))
    return out


def alias_addrs(case):
    """(audit E) Which dict OBJECT sits at every position of the caller's list. Normally `0 … n-1` (all distinct).
    With `case["alias"]` every EMPTY dict below the highest order is one and the same object (`d = {}; [d, d, top]`,
    `[{}] * 2 + [top]`): only an empty dict can stand for two orders of a valid table. Computed from the case's
    current dicts, so it stays meaningful while a case is shrunk. Never together with a destructive construction
    (outside the check: the real code then edits the shared object while iterating over it, RuntimeError)."""
    n = len(case["dicts"])
    addrs = list(range(n))
    ctors = [case.get("ctor", "positional")] + [st["ctor"] for st in case.get("steps", [])]
    if case.get("alias") and not any(is_destructive(c) for c in ctors):
        first = None
        for i, d in enumerate(case["dicts"][:-1]):
            if not d:
                if first is None:
                    first = i
                addrs[i] = first
    return addrs


def step_hist(case, sos_k):
    """The case's history for a model with start symbol `sos_k`: tokens that are neither vocabulary ids nor
    `sos_k` (the first model's out-of-vocabulary start symbol) become `sos_k`."""
    V = case["V"]
    return [[x if (0 <= x < V or x == sos_k) else sos_k for x in row] for row in case["hist"]]


def gen_steps(rng, V, sos, n=None):
    """Further constructions from the same table object: start symbol the same / a vocabulary token / outside
    the vocabulary, any spelling (a destructive one may come first: what follows must be rejected)."""
    out = []
    for _ in range(n or rng.choice((1, 1, 2))):
        out.append({"sos": rng.choice((sos, sos, rng.randrange(V), -1, V, V + 3)),
                    "ctor": rng.choice(CTORS[:4] * 3 + CTORS[4:])})
    return out


def table_valid(dicts, V, sos):
    """Is the table one that `LookupLanguageModel(V, sos, table)` must accept? (at least unigrams, a non-empty
    highest order, keys of order n have n tokens, every token a vocabulary id or the start symbol)"""
    if not dicts or not dicts[-1]:
        return False
    ok = set(range(V)) | {sos}
    return all(len(e["key"]) == n + 1 and set(e["key"]) <= ok for n, d in enumerate(dicts) for e in d)


def sos_class(V, sos):
    return "in" if 0 <= sos < V else "out"


def grid(rng, lo=-16):
    return frac_str(Fraction(rng.randrange(lo * 8, 1), 8))


# ------------------------------------------------------------------ generators
def gen_table(rng, V, sos, N, density, p_inf, p_sos_in_key, max_top=None):
    """A sparse table: each order draws its own keys independently, so lower-order suffixes
    (and unigrams) of listed n-grams are frequently missing."""
    shift = 0 if 0 <= sos < V else 1
    toks = list(range(V)) + ([sos] if shift else [])
    dicts = []
    for n in range(1, N + 1):
        d = {}
        space = len(toks) ** n
        if space <= 64:
            keys = [k for k in itertools.product(toks, repeat=n) if rng.random() < density]
        else:
            keys = [tuple(rng.choice(toks) for _ in range(n)) for _ in range(int(space * density) if max_top is None
                                                                              else max_top)]
        if shift and rng.random() > p_sos_in_key:
            keys = [k for k in keys if sos not in k]
        if n == N and not keys:
            keys = [tuple(rng.choice(range(V)) for _ in range(n))]
        if n == N and max_top is not None:
            keys = keys[:max_top]
        if rng.random() < 0.5:
            rng.shuffle(keys)          # the order in which the caller filled the dict is an input too
        for k in keys:
            e = {"key": list(k), "logp": NEG_INF if rng.random() < p_inf else grid(rng)}
            if n < N:
                e["logb"] = grid(rng, -4) if rng.random() < 0.8 else "0"
            d[k] = e
        dicts.append(list(d.values()))
    return dicts


def gen_hist(rng, V, sos, T, B, p_sos):
    shift = 0 if 0 <= sos < V else 1
    return [[(sos if (shift and rng.random() < p_sos) else rng.randrange(V)) for _ in range(B)] for _ in range(T)]


def std_case(rng, V, sos, N, T, B, dicts, p_sos=0.15):
    hist = gen_hist(rng, V, sos, T, B, p_sos)
    chunks = list(range(1, T + 3))
    idxs = [[i] for i in range(T + 1)][:3] + [[rng.randrange(T + 1) for _ in range(B)] for _ in range(3)]
    return pick_layout(rng, {"kind": "table", "V": V, "sos": sos, "dicts": dicts, "B": B, "hist": hist,
                             "chunks": chunks, "idxs": idxs})


# ------------------------------------------------------------------ designed sparsity: the two paths of the descent
# `_lookup_calc_idx_log_probs` walks the reverse trie along two paths per history window `h`: the N-GRAM path
# (nodes `h[-d:] + (w,)`, one per candidate token w) and the CONTEXT path (nodes `h[-d:]`, whose back-off weights are
# accumulated). Which of the two survives to which depth is decided by the sparsity of the table, and a random table
# practically never has a long context listed while nothing at all continues its last token (or the reverse). The
# generator below builds both situations on purpose: "context path alive down to depth dc, every n-gram path dead
# below depth dn" for EVERY pair (dc, dn), with nothing else in the table resurrecting either path, finite unigrams
# and non-zero back-off weights (so that a weight that is dropped or counted twice changes the number), evaluated
# alone (batch of one: chunk size 1, scalar idx - every element of the kernel call dies at the same level), next to
# a copy of itself and next to a history whose n-grams match down to the highest order.
PATH_BATCH = ("lonely", "same", "mate")


def nz_grid(rng, lo=-4):
    """A non-zero value on the 1/8 grid in [lo, -1/8]."""
    return frac_str(Fraction(rng.randrange(lo * 8, 0), 8))


def gen_path_case(rng, V, sos, N, dc, dn, batch):
    """Order-N table (N >= 2, at least two tokens) around one window `win` of N-1 tokens:
    * dc in 0..N-1: the suffixes of `win` up to length dc are listed as contexts (length dc always, with a NON-ZERO
      back-off; shorter ones listed or left to the implicit (-inf, 0) placeholders); nothing ends with a longer one;
    * dn in 0..N-1: n-grams `win[-d:] + (w,)` exist for d <= dn (depth dn for at least one w, finite or -inf);
      NO key of any order continues `win[-(dn+1):]` with any token - not even as an implicit suffix placeholder;
    * a 'mate' window whose N-gram is listed at every order (its last token and its next token differ from win[-1],
      so none of its keys - or their suffixes - touches the two paths of `win`), a few random distractors that are
      rejected when they would resurrect a path."""
    shift = 0 if 0 <= sos < V else 1
    toks = list(range(V)) + ([sos] if shift else [])
    W = N - 1
    if len(toks) >= W and rng.random() < 0.7:
        win = rng.sample(toks, W)                      # distinct tokens: the designed depths are the realised ones
    else:
        win = [rng.choice(toks) for _ in range(W)]     # repeated tokens: suffixes of the context may continue it
    win = tuple(win)
    last = win[-1]
    others = [t for t in range(V) if t != last] or list(range(V))
    tabs = [dict() for _ in range(N)]

    def put(key, logp=None, nonzero=False, p_inf=0.25):
        key = tuple(key)
        e = {"key": list(key), "logp": logp if logp is not None else (NEG_INF if rng.random() < p_inf else grid(rng))}
        if len(key) < N:
            e["logb"] = nz_grid(rng) if (nonzero or rng.random() < 0.7) else "0"
        tabs[len(key) - 1][key] = e

    def resurrects(key):
        key = tuple(key)
        if len(key) >= dn + 2 and key[-(dn + 2):-1] == win[W - (dn + 1):]:
            return True                                # would continue the n-gram path one level further
        c = max(dc, 1)                                 # (the unigram node of win[-1] always exists)
        if c + 1 <= W and len(key) >= c + 1 and key[-(c + 1):] == win[W - (c + 1):]:
            return True                                # would continue the context path one level further
        return False
    for t in toks:                                     # unigrams: mostly listed and finite (a -inf unigram hides
        if rng.random() < 0.85:                        # every error in the back-off weights)
            put((t,), p_inf=0.05)
    for d in range(1, dc + 1):                         # the context path
        if d == dc or rng.random() < 0.6:
            put(win[W - d:], nonzero=True)
    for d in range(1, dn + 1):                         # the n-gram paths
        ws = [w for w in range(V) if rng.random() < 0.4]
        if d == dn and not ws:
            ws = [rng.randrange(V)]
        for w in ws:
            if not resurrects(win[W - d:] + (w,)):
                put(win[W - d:] + (w,))
    # the mate: an N-gram listed at the highest order, far from both paths
    mate = tuple(rng.choice(toks) for _ in range(W - 1)) + (rng.choice(others),)
    top = mate + (rng.choice(others),)
    put(top, logp=grid(rng))
    if rng.random() < 0.7:
        put(mate, nonzero=True)
    for d in range(1, W):
        if rng.random() < 0.4:
            put(top[N - 1 - d:])
    for _ in range(rng.randrange(0, 4)):               # distractors
        k = tuple(rng.choice(toks) for _ in range(rng.randrange(2, N + 1)))
        if not resurrects(k):                          # (a suffix of k ends with a pattern only if k does)
            put(k)
    dicts = [list(d.values()) for d in tabs]
    pre = [rng.choice(toks) for _ in range(rng.randrange(0, 3))]
    col = pre + list(win)
    T = len(col)
    if batch == "lonely":
        cols = [col]
    elif batch == "same":
        cols = [col] * rng.choice((2, 3))
    else:
        mcol = [rng.choice(toks) for _ in range(T - W)] + list(mate)
        cols = [col, mcol] if rng.random() < 0.5 else [mcol, col]
    B = len(cols)
    hist = [[c[t] for c in cols] for t in range(T)]
    idxs = [[T], [max(T - 1, 0)], [0], [T] * B, [rng.randrange(T + 1) for _ in range(B)],
            [rng.randrange(T + 1) for _ in range(B)]]
    case = {"kind": "table", "V": V, "sos": sos, "dicts": dicts, "B": B, "hist": hist,
            "chunks": list(range(1, T + 3)), "idxs": idxs, "paths": {"dc": dc, "dn": dn, "batch": batch}}
    return pick_layout(rng, case, p_contig=0.6)


def path_depths(case):
    """What the table does to the two paths, per single-position kernel call (chunk size 1 / scalar idx: all batch
    elements at one position): the level at which EVERY n-gram path of the call is dead, and the deepest level at
    which some element's context still contributes a non-zero back-off / is still a node; the reverse per element.
    Returns the tags of the classes the case reaches."""
    dicts, N, V, sos, B = case["dicts"], len(case["dicts"]), case["V"], case["sos"], case["B"]
    if N < 2:
        return []
    nodes, nzb = set(), set()
    for n, d in enumerate(dicts):
        for e in d:
            k = tuple(e["key"])
            for i in range(len(k)):
                nodes.add(k[i:])
            if n < N - 1 and e.get("logb", "0") not in ("0", NEG_INF) and Fraction(e["logb"]) != 0:
                nzb.add(k)
    out = set()
    T = len(case["hist"])
    for t in range(T + 1):
        n_dead, c_alive = 1, 0
        for b in range(B):
            h = [sos] * (N - 1) + [case["hist"][i][b] for i in range(t)]
            win = tuple(h[len(h) - (N - 1):])
            dn = max([d for d in range(1, N) if any(win[N - 1 - d:] + (w,) in nodes for w in range(V))] or [0])
            dcn = max([d for d in range(2, N) if win[N - 1 - d:] in nodes] or [1])
            ca = max([d for d in range(1, N) if win[N - 1 - d:] in nzb] or [0])
            n_dead, c_alive = max(n_dead, dn + 1), max(c_alive, ca)
            if dn >= dcn + 1 and dn >= 2:
                out.add("paths:ngram_path_outlives_context_path_by=%d" % min(dn - dcn, 3))
        if c_alive >= n_dead + 2:
            # the back-off of a context of length c_alive is added n_dead+1 .. levels after every n-gram path died
            out.add("paths:nonzero_backoff_%d_levels_after_all_ngram_paths_dead(B=%s)"
                    % (min(c_alive - n_dead - 1, 3), "1" if B == 1 else ">1"))
    return sorted(out)


# ------------------------------------------------------------------ loading into instances of every kind
# `load_state_dict` overwrites an EXISTING object: whatever the receiving instance held before (the order of its
# table, its node counts, the widths and lengths of its buffers, after its construction or after earlier loads) must
# be gone afterwards. A case's "loads" = {"target": {"sos", "dicts": None (LookupLanguageModel(V, sos)) | a table of
# any order, "ctor"}, "seq": [{"src": "aux", "sos", "dicts", "via"} ..., {"src": "main", "via"}]}: the target is
# constructed, then every state dict of `seq` is loaded into it in turn (the case's own model last); after EVERY load
# the target must answer like Katz back-off on the table of the model just loaded, hold that model's state dict and
# its shape attributes. Target and sources share the vocabulary size and the CLASS of the start symbol (inside /
# outside the vocabulary: what `load_state_dict` documents as "vocab_size and sos must be correct"); the symbol
# itself may differ (it only names the padding token / the extra unigram slot).
LOAD_VIA = ("serialised", "direct", "clone")


def same_class_sos(rng, V, sos):
    if 0 <= sos < V:
        return rng.choice((sos, sos, sos, rng.randrange(V)))
    return rng.choice((sos, sos, sos, -1, V, V + 3))


def gen_loads(rng, V, sos, target_order, pre_orders):
    """target_order None = the default-constructed instance; pre_orders = orders of the models loaded before the
    case's own one (each with its own sparsity and, within the class, its own start symbol)."""
    def tab(s, n):
        return gen_table(rng, V, s, n, rng.choice((0.2, 0.5, 0.9)), rng.choice((0.0, 0.2)), rng.choice((0.0, 1.0)),
                         max_top=rng.choice((1, 4, 12)))
    ts = same_class_sos(rng, V, sos)
    target = {"sos": ts, "dicts": None if target_order is None else tab(ts, target_order),
              "ctor": rng.choice(CTORS[:4])}
    seq = []
    for n in pre_orders:
        s = same_class_sos(rng, V, sos)
        seq.append({"src": "aux", "sos": s, "dicts": tab(s, n), "via": rng.choice(LOAD_VIA)})
    seq.append({"src": "main", "via": rng.choice(LOAD_VIA)})
    return {"target": target, "seq": seq}


def katz_full(dicts, V, src_sos, sos, hist, B):
    """Katz back-off evaluated directly on a table (Python fractions): the numbers an object with start symbol `sos`
    must give on `hist` once it holds the model of `dicts`, a table written for start symbol `src_sos` (of the same
    class; outside the vocabulary the symbol is only a name for the extra unigram: renamed)."""
    N = len(dicts)
    ren = (lambda t: sos if t == src_sos else t) if not 0 <= src_sos < V else (lambda t: t)
    tabs = [{tuple(ren(t) for t in e["key"]): e for e in d} for d in dicts]

    def one(ctx, w):
        acc = Fraction(0)
        for d in range(len(ctx), -1, -1):
            c = ctx[len(ctx) - d:]
            e = tabs[d].get(c + (w,))
            if e is not None and e["logp"] != NEG_INF:
                return frac_str(acc + Fraction(e["logp"]))
            if d == 0:
                return NEG_INF
            b = tabs[d - 1].get(c)
            if b is not None:
                acc += Fraction(b.get("logb", "0"))
    out = []
    for t in range(len(hist) + 1):
        rows = []
        for b in range(B):
            h = [sos] * (N - 1) + [hist[i][b] for i in range(t)]
            ctx = tuple(h[len(h) - (N - 1):]) if N > 1 else ()
            rows.append([one(ctx, w) for w in range(V)])
        out.append(rows)
    return out


def load_kind(case, N=None):
    """The class of the receiving instance relative to a loaded model of order N (default: the one loaded last)."""
    tg = case["loads"]["target"]
    N = len(case["dicts"]) if N is None else N
    if tg["dicts"] is None:
        return "default"
    n = len(tg["dicts"])
    return "built_on_lower_order" if n < N else "built_on_equal_order" if n == N else "built_on_higher_order"


LAYOUTS = ("contig", "transposed", "offset", "row_stride", "col_slice", "bf_slice", "bcast")


def make_view(case):
    """The memory layout of the (T, B) history tensor: storage, storage offset, strides.
    Derived deterministically from case["layout"] = {"kind", "salt"} and the logical history, so
    that shrinking the history keeps the layout kind. Cells of the storage that the view does
    not show hold valid tokens (a reader that looks at the wrong cell gets a wrong but legal id).
    None = the plain row-major tensor."""
    lay = case.get("layout")
    if not lay or lay["kind"] == "contig":
        return None
    import random
    kind, salt = lay["kind"], lay["salt"]
    hist, B, V, sos = case["hist"], case["B"], case["V"], case["sos"]
    T = len(hist)
    toks = list(range(V)) + ([] if 0 <= sos < V else [sos])
    r = random.Random(salt * 1000003 + 17)

    def junk(n):
        return [r.choice(toks) for _ in range(n)]
    flat = [x for row in hist for x in row]
    if kind == "transposed":          # batch_first.t()
        v = {"storage": [hist[t][b] for b in range(B) for t in range(T)], "off": 0, "sT": 1, "sB": max(T, 1)}
    elif kind == "offset":            # longer[k:]  (is_contiguous() is True, storage_offset() is not 0)
        k = 1 + salt % 3
        v = {"storage": junk(k * B) + flat + junk(B), "off": k * B, "sT": B, "sB": 1}
    elif kind == "row_stride":        # longer[o::2]
        o = salt % 2
        st = junk(o * B)
        for row in hist:
            st += list(row) + junk(B)
        v = {"storage": st, "off": o * B, "sT": 2 * B, "sB": 1}
    elif kind == "col_slice":         # wider[:, a:a+B]
        W = B + 1 + salt % 2
        a = salt % (W - B + 1)
        st = []
        for row in hist:
            st += junk(a) + list(row) + junk(W - B - a)
        v = {"storage": st + junk(W), "off": a, "sT": W, "sB": 1}
    elif kind == "bf_slice":          # wider_batch_first[1:1+B, 1:1+T].t()
        W = T + 2
        st = junk(W)
        for b in range(B):
            st += junk(1) + [hist[t][b] for t in range(T)] + junk(1)
        v = {"storage": st, "off": W + 1, "sT": 1, "sB": W}
    elif kind == "bcast":             # column.expand(T, B): every batch element has the same history
        v = {"storage": [row[0] for row in hist] + junk(1), "off": 0, "sT": 1, "sB": 0}
    else:
        raise ValueError(kind)
    return v


def pick_layout(rng, case, p_contig=0.35):
    """Attach a layout (and a history dtype) to a table case."""
    kind = "contig" if rng.random() < p_contig else rng.choice(LAYOUTS[1:])
    if kind == "bcast":
        case["hist"] = [[row[0]] * case["B"] for row in case["hist"]]
    case["layout"] = {"kind": kind, "salt": rng.randrange(1000)}
    case["hist_dtype"] = rng.choice(("int64", "int64", "int32"))
    case["ctor"] = rng.choice(("positional",) * 4 + CTORS[1:])
    case["reload"] = rng.choice(("serialised", "serialised", "direct"))
    case["pass_prev"] = rng.random() < 0.5
    if rng.random() < 0.3 and not case.get("oov"):
        case["steps"] = gen_steps(rng, case["V"], case["sos"])
    if rng.random() < 0.25 and not case.get("oov") and table_valid(case["dicts"], case["V"], case["sos"]):
        # the case's model is also loaded into an instance that held other tables before
        case["loads"] = gen_loads(rng, case["V"], case["sos"], rng.choice((None, 1, 2, 3, 4)),
                                  [rng.choice((1, 2, 3, 4)) for _ in range(rng.choice((0, 0, 1, 1, 2)))])
    return case


def idx_forms(hidx, T):
    """Other spellings of the same index that `forward` accepts: python int, one-element vector,
    negative values (idx - T - 1)."""
    import torch
    if len(hidx) == 1:
        i = hidx[0]
        return [("int", i), ("vec1", torch.tensor([i])), ("neg_int", i - T - 1),
                ("neg_scalar", torch.tensor(i - T - 1))]
    neg = [(x - T - 1) if k % 2 == 0 else x for k, x in enumerate(hidx)]
    return [("neg_mixed", torch.tensor(neg)), ("int32", torch.tensor(hidx, dtype=torch.int32))]


class C06(PropertyCheck):
    pid = "C06"
    rule = ("tables of order 1..4 over V<=4 (every order draws its keys independently: missing suffixes, "
            "missing unigrams, -inf entries, sos inside/outside the vocabulary and inside keys), values on a 1/8 "
            "grid in [-16,0]; histories T=0..6, B=1..3, laid out in memory as a plain tensor, a transposed "
            "batch-first tensor, a slice with non-zero storage offset, every second row, a column block, a "
            "transposed block or an expanded column (unseen cells hold other valid tokens), dtype int64/int32; "
            "all chunk sizes 1..T+2 (and < 1: RuntimeError); scalar and per-element idx, also spelled as python "
            "int / one-element vector / negative / int32; constructor positional / keyword / with logger / prob_list= / "
            "destructive (positional, keyword); state_dict round trip through torch.save/load or handed over "
            "directly; CALLER-OWNED OBJECTS: the table, the history tensor with its whole storage, idx tensors, the "
            "prev dict, the state dict (ARPA: token2id, the open file) are compared with a deep copy taken before "
            "every call (unless destructive=True), the model's buffers before/after evaluation; REUSE: the same "
            "table object handed to 1-2 further constructions (30% of the table cases + a complete stream over "
            "the start-symbol classes outside/inside x first/later, tables that mention the out-of-vocabulary "
            "symbol or not, a rejected construction before/after an accepted one, a destructive one last / in the "
            "middle): buffers and log-probabilities of every model against the Lean heap model and the Katz "
            "recursion on the table the caller then holds; LOADING INTO INSTANCES OF EVERY KIND: the model's state dict "
            "(serialised / handed over / cloned) loaded into a receiving instance that is default-constructed or "
            "constructed (any non-destructive spelling) from another table of order 1..4 - lower, equal, higher order, "
            "other sparsity, another start symbol of the same class (inside / outside the vocabulary) - and that loaded "
            "zero, one or two other models before (orders going up or down); after EVERY load of the chain the instance "
            "must answer like Katz back-off on the table of the model just loaded (all positions, chunk size 2, "
            "per-element idx), state_dict() must equal the saved one (keys, dtypes, shapes, values) and max_ngram / "
            "max_ngram_nodes / max_direct_descendants the saved model's (complete stream saved order 1..3 [1..4 "
            "thorough] x receiving instance default / order 1..4 x 0, 1, 2 earlier loads + 25% of the random table "
            "cases); a DESIGNED-SPARSITY stream for the two paths of the "
            "lookup's descent (for one window: the context path alive down to depth dc - contexts listed with non-zero "
            "back-off weights - and every n-gram path dead below depth dn, nothing else in the table resurrecting "
            "either, finite unigrams; every pair (dc, dn) for order 4 [2..6 thorough], pairs two or more levels apart "
            "also for order 5 and 6; evaluated alone - batch of one, chunk size 1, scalar idx -, next to a copy of "
            "itself and next to a history matching at the highest order), also drawn in the random bulk; a layout stream (every layout x order 2..4 x B 2..3, "
            "T>=3); a size stream (hundreds of n-grams, V up to 127) crossing the uint8/int16 offset boundary; "
            "an out-of-vocabulary stream (ids never in the most recent slot); a malformed stream (ValueError "
            "expected); ARPA text through every entry (file object, path, opened file) x to_base_e "
            "(True/False/default) x ftype x token2id x logger x positional/keyword, files that are not well-formed "
            "(eight kinds, one per rejection path of the reader: IOError) and well-formed files written differently "
            "(counts / sections descending, split section, repeated line). "
            "The small complete streams come first, the random bulk last. non-trivial: order >= 2 and at least "
            "one back-off actually taken; distinct by the whole case")
    assumptions = [
        "float32 arithmetic is exact on the generated value grid (checked: every compared value is an exact rational)",
        "torch indexing / masked_select / as_strided / contiguous / is_contiguous taken at their documented meaning "
        "(is_contiguous() is compared with the model's on every case)",
        "every generated (non-malformed) table satisfies the decidable hypotheses of theorems C06_flat / C06_lookup / "
        "C06_model (`tableOK`: keys of one order pairwise distinct, no NaN, finite back-off weights below the highest "
        "order) - evaluated by the driver on every case; the layout check `checkBuilt`, which C06_flat proves can "
        "never fail for such a table, is still evaluated on every case as a cross-check",
        "history tokens are in [0,V) or sos; out-of-vocabulary ids are only exercised away from the most recent "
        "slot of a window and below 256 (the code indexes the unigram level with the most recent token and casts "
        "the window to the id dtype)",
        "ARPA: the three regular expressions and float() of the reader are exercised by correspondence only",
        "loads into used instances: the oracle for the models loaded BEFORE the case's own one is the Katz recursion "
        "in Python fractions (`katz_full`, cross-checked against the Lean spec on the case's own table in every such "
        "case); the receiving instance has no Lean object model (its shape attributes after loading the case's model "
        "are compared with Lean's `inferShape`)",
        "caller-owned objects: Python/torch equality of an object with a deep copy taken before the call is what "
        "'unchanged' means (table: list length, element identity, dict contents, value types, key order; tensors: "
        "whole storage, shape, strides, offset, dtype); the Lean heap model `buildTrieMem` predicts the table's "
        "contents after every construction (order inside a dict not modelled), tensors have no Lean model",
    ]
    quick_budget_s = 75
    thorough_budget_s = 800

    # ------------------------------------------------------------------ cases
    def cases(self, rng, tier):
        n_rand = {"quick": 600, "thorough": 5000, "search": 1500}[tier]
        # 1. hand-picked shapes first
        for V, sos in ((1, 0), (1, -1), (2, 0), (2, 5), (3, 1), (3, -1), (4, 3), (4, 4)):
            for N in (1, 2, 3, 4):
                dicts = gen_table(rng, V, sos, N, 0.5 if V <= 2 else 0.25, 0.15, 0.7, max_top=12)
                yield std_case(rng, V, sos, N, rng.randrange(0, 7), rng.randrange(1, 4), dicts)
        # 1b. designed sparsity of the two descent paths: every (context depth, n-gram depth) pair, evaluated alone
        # (batch of one), next to a copy of itself and next to a history that matches at the highest order
        yield from self.path_stream(rng, tier)
        # 1c. ONE table object, several models: the caller's table must survive every non-destructive construction
        # and every model built from it must be the model of the table the caller holds at that moment
        yield from self.reuse_stream(rng, tier)
        # 1d. (audit E) one empty dict object at several positions of the table, non-destructive constructions
        yield from self.alias_stream(rng, tier)
        # 1e. save/load into TARGET instances of every kind: default-constructed, constructed from tables of lower /
        # equal / higher order (other sparsity, other start symbol of the same class), after one or two earlier loads
        yield from self.load_stream(rng, tier)
        # (order: the small complete streams first - layouts, ARPA option grid, malformed, sizes - so that a slow
        # machine's time budget can only cut into the random bulk, never into a whole class of input)
        # 4b. memory layouts of the history tensor: every kind of view x order x batch width, T >= 3
        for kind in LAYOUTS[1:]:
            for N in (2, 3, 4):
                for B in (2, 3):
                    V = rng.choice((2, 3, 4))
                    sos = rng.choice((0, -1, V))
                    dicts = gen_table(rng, V, sos, N, 0.5, 0.1, 0.5, max_top=15)
                    c = std_case(rng, V, sos, N, rng.randrange(3, 8), B, dicts)
                    c["hist"] = gen_hist(rng, V, sos, len(c["hist"]), B, 0.1)
                    if kind == "bcast":
                        c["hist"] = [[row[0]] * B for row in c["hist"]]
                    c["layout"] = {"kind": kind, "salt": rng.randrange(1000)}
                    yield c
        # 6. ARPA
        for _ in range({"quick": 80, "thorough": 500, "search": 100}[tier]):
            V = rng.choice((2, 3, 5))
            N = rng.choice((1, 2, 3))
            dicts = gen_table(rng, V, 0, N, 0.4, 0.0, 0.0, max_top=8)
            style = rng.choice(("fixed", "repr", "exp"))
            yield {"kind": "arpa", "V": V, "dicts": dicts, "implicit": rng.random() < 0.5, "style": style,
                   "numeric_tokens": rng.random() < 0.5, "blank_lines": rng.random() < 0.5,
                   # every option of the reader x every way of handing the file over
                   "base_e": rng.choice((True, True, False, False, None)),
                   "entry": rng.choice(("fileobj", "path", "path", "opened")),
                   "ftype": rng.choice(("float", "float", "np.float64", "np.float32")),
                   "token2id": rng.random() < 0.4, "logger": rng.random() < 0.25,
                   "call": rng.choice(("keyword", "positional")),
                   "corrupt": rng.choice((None,) * 14 + ARPA_CORRUPT),
                   # (audit) the same table written differently: count lines / sections in descending order, a
                   # section split in two, a line listed twice (the later one wins)
                   "variant": rng.choice((None,) * 4 + ARPA_VARIANTS),
                   # the same arguments (token2id, file object rewound) handed over a second time
                   "reread": rng.random() < 0.3}
        # the full grid entry x base once each, on a fixed small table
        for entry in ("fileobj", "path", "opened"):
            for base_e in (True, False, None):
                for call in ("keyword", "positional"):
                    dicts = gen_table(rng, 3, 0, 2, 0.5, 0.0, 0.0, max_top=6)
                    yield {"kind": "arpa", "V": 3, "dicts": dicts, "implicit": False, "style": "fixed",
                           "numeric_tokens": False, "blank_lines": False, "base_e": base_e, "entry": entry,
                           "ftype": "float", "token2id": call == "positional", "logger": False, "call": call,
                           "corrupt": None, "reread": base_e is not False}
        # (audit) every rejection path and every re-ordering of the reader's line-level state machine once, with
        # the zero back-offs written and left out, word and numeric tokens: a field too many that is not a number
        # (float() fails, the length check rejects), a back-off on the highest order, a section for an order the
        # counts did not announce, garbage between sections, a repeated key against an honest count
        for implicit in (False, True):
            for numeric in (False, True):
                for N in (1, 2, 3):
                    dicts = gen_table(rng, 3, 0, N, 0.5, 0.0, 0.0, max_top=6)
                    base = {"kind": "arpa", "V": 3, "dicts": dicts, "implicit": implicit, "style": "fixed",
                            "numeric_tokens": numeric, "blank_lines": False, "base_e": False, "entry": "fileobj",
                            "ftype": "float", "token2id": False, "logger": False, "call": "keyword"}
                    for corrupt in ARPA_CORRUPT:
                        yield dict(base, corrupt=corrupt, variant=None)
                    for variant in ARPA_VARIANTS:
                        yield dict(base, corrupt=None, variant=variant)
        # 5. malformed tables: ValueError expected
        yield from self.malformed(rng)
        # 4. size stream: offsets cross the uint8 / int16 boundary
        sizes = [(127, -1, "fan"), (126, 3, "fan"), (127, -1, "fan1"), (30, 0, 300), (40, -1, 500), (12, 2, 200)]
        if tier != "quick":
            sizes += [(128, -1, "fan"), (125, -1, "fan"), (60, 0, 1500), (200, -1, 700), (253, 0, 300),
                      (254, 0, 300), (255, -1, 400), (300, 7, 600)]
        for V, sos, what in sizes:
            yield self.size_case(rng, V, sos, what)
        # 2. random sparse tables
        for _ in range(n_rand):
            V = rng.choice((1, 2, 2, 3, 3, 4))
            sos = rng.choice((0, V - 1, -1, V, V + 3, rng.randrange(V)))
            N = rng.choice((1, 2, 2, 3, 3, 3, 4, 4))
            if rng.random() < 0.15 and N >= 2:
                V = rng.choice((2, 3, 4, 5))
                sos = rng.choice((0, -1, V, rng.randrange(V)))
                yield gen_path_case(rng, V, sos, N, rng.randrange(N), rng.randrange(N), rng.choice(PATH_BATCH))
                continue
            dens = rng.choice((0.1, 0.3, 0.6, 0.9))
            dicts = gen_table(rng, V, sos, N, dens, rng.choice((0.0, 0.2, 0.5)), rng.choice((0.0, 0.5, 1.0)),
                              max_top=rng.choice((1, 3, 10, 30)))
            yield std_case(rng, V, sos, N, rng.randrange(0, 7), rng.randrange(1, 4), dicts)
        # 3. out-of-vocabulary ids, never in the most recent slot of an evaluated window
        for _ in range({"quick": 80, "thorough": 500, "search": 200}[tier]):
            V = rng.choice((2, 3, 4))
            sos = rng.choice((0, -1, V + 3))
            shift = 0 if 0 <= sos < V else 1
            N = rng.choice((3, 4))
            dicts = gen_table(rng, V, sos, N, 0.5, 0.1, 0.5, max_top=20)
            T, B = rng.randrange(2, 7), rng.randrange(1, 3)
            hist = gen_hist(rng, V, sos, T, B, 0.1)
            oov = [x for x in (-3, -2, V + 1, V + 2, V + 6, 200) if x != sos and not (shift and x == V)]
            if not shift:
                oov.append(V)
            for _k in range(rng.randrange(1, 3)):
                hist[rng.randrange(T)][rng.randrange(B)] = rng.choice(oov)
            ok = [i for i in range(T + 1)
                  if i == 0 or all(0 <= hist[i - 1][b] < V or hist[i - 1][b] == sos for b in range(B))]
            idxs = [[i] for i in ok]
            if B > 1 and ok:
                idxs.append([rng.choice(ok) for _ in range(B)])
            yield {"kind": "table", "V": V, "sos": sos, "dicts": dicts, "B": B, "hist": hist, "chunks": [],
                   "idxs": idxs, "oov": True}

    def path_stream(self, rng, tier):
        if tier == "quick":
            plan = [(3, 1, PATH_BATCH[:1], None), (4, 1, PATH_BATCH, None), (5, 1, PATH_BATCH[:2], 2), (6, 1, PATH_BATCH[:1], 3)]
        else:
            plan = [(N, 3, PATH_BATCH, None) for N in (2, 3, 4, 5, 6)]
        for N, reps, batches, min_gap in plan:
            for dc in range(N):
                for dn in range(N):
                    if min_gap is not None and abs(dc - dn) < min_gap:
                        continue
                    for batch in batches:
                        # the pairs where one path outlives the other by two or more levels are where a shortcut
                        # in the level loop shows: three tables each
                        for _ in range(reps * (3 if abs(dc - dn) >= 2 and tier == "quick" else 1)):
                            V = rng.choice((3, 4, 5) if N <= 4 else (4, 5, 6))
                            sos = rng.choice((0, -1, V, rng.randrange(V)))
                            yield gen_path_case(rng, V, sos, N, dc, dn, batch)

    def reuse_stream(self, rng, tier):
        """Every pair of start-symbol classes for the first and the later constructions (outside -> the same,
        outside -> inside, inside -> outside, inside -> another token, outside -> another outside value, the same
        token twice, three constructions), tables that mention the out-of-vocabulary start symbol (a construction
        with an in-vocabulary one is then REJECTED, before or after an accepted one) or do not, every spelling of
        the constructor, a destructive construction last (allowed) or first (what follows must be rejected)."""
        for _ in range(1 if tier == "quick" else 4):
            for N in (2, 3):
                for mention in (False, True):
                    V = rng.choice((2, 3))
                    inn, other = 0, V - 1
                    plans = [(-1, (-1,)), (-1, (inn,)), (inn, (-1,)), (inn, (other,)), (-1, (V,)), (inn, (inn,)),
                             (-1, (-1, inn)), (inn, (V + 3, inn)), (V + 3, (other, V + 3))]
                    for k, (sos0, later) in enumerate(plans + [plans[1], plans[2], plans[6]]):
                        outs = [x for x in (sos0,) + later if not 0 <= x < V]
                        tsos = outs[0] if outs else sos0          # the symbol the table may mention
                        dicts = gen_table(rng, V, tsos, N, 0.5, 0.1, 1.0 if mention else 0.0, max_top=10)
                        if mention and outs and not any(tsos in e["key"] for d in dicts for e in d):
                            dicts[-1].append({"key": [tsos] + [rng.randrange(V) for _ in range(N - 1)],
                                              "logp": grid(rng)})
                        c = std_case(rng, V, sos0, N, rng.randrange(1, 5), rng.randrange(1, 3), dicts, p_sos=0.3)
                        c["ctor"] = rng.choice(CTORS[:4])
                        c["steps"] = [{"sos": x, "ctor": rng.choice(CTORS[:4])} for x in later]
                        if k == len(plans):                       # a destructive construction at the end
                            c["steps"][-1]["ctor"] = "destructive"
                        elif k == len(plans) + 1:
                            c["steps"][-1]["ctor"] = "destructive_kw"
                        elif k == len(plans) + 2:                 # ... or in the middle: the rest is rejected
                            c["steps"][0]["ctor"] = "destructive"
                        yield c

    def load_stream(self, rng, tier):
        """Every (order of the saved model) x (kind of receiving instance: default / built on order 1..4) x (what it
        loaded before: nothing, one model, two models going up or down in order)."""
        for rep in range(1 if tier == "quick" else 4):
            for Ns in (1, 2, 3) if tier == "quick" else (1, 2, 3, 4):
                for Nt in (None, 1, 2, 3, 4):
                    chains = [(), (rng.choice((2, 3, 4)),), (1,), (1, 3), (4, 2)]
                    if tier == "quick":      # nothing / one earlier load / two (up or down), drawn per cell
                        chains = [(), rng.choice(chains[1:3]), rng.choice(chains[3:])]
                    for pre in chains:
                        V = rng.choice((1, 2, 3, 4))
                        sos = rng.choice((rng.randrange(V), -1, V))
                        dicts = gen_table(rng, V, sos, Ns, rng.choice((0.3, 0.6)), 0.1, 0.5, max_top=10)
                        c = std_case(rng, V, sos, Ns, rng.randrange(1, 5), rng.randrange(1, 3), dicts, p_sos=0.3)
                        c.pop("steps", None)
                        c["ctor"] = "positional"
                        c["loads"] = gen_loads(rng, V, sos, Nt, pre)
                        yield c

    def alias_stream(self, rng, tier):
        """(audit E) The caller put ONE (empty) dict object at several positions of the table - `[{}] * 2 + [top]`,
        `[uni, d, d, top]`. A non-destructive construction copies the table first (the copies are distinct objects):
        it must build the model of the table, leave the shared object empty, and a second construction from the same
        table object must work as well. (destructive=True on such a table is outside the check: the code edits the
        shared object while it iterates over it - RuntimeError, see design_notes/C06.md - and theorems
        C06_build_result / C06_build_consumed are stated for pairwise distinct dict objects.)"""
        for rep in range(1 if tier == "quick" else 4):
            for N, with_uni in ((3, False), (4, False), (4, True), (5, True)):
                for sos_out in (False, True):
                    V = rng.choice((2, 3))
                    sos = -1 if sos_out else rng.randrange(V)
                    toks = list(range(V)) + ([sos] if sos_out else [])
                    top = {}
                    for _ in range(rng.randrange(1, 5)):
                        k = tuple(rng.choice(toks) for _ in range(N))
                        top[k] = {"key": list(k), "logp": grid(rng)}
                    uni = [{"key": [t], "logp": grid(rng), "logb": nz_grid(rng)} for t in toks if rng.random() < 0.7]
                    dicts = [uni if with_uni else []] + [[] for _ in range(N - 2)] + [list(top.values())]
                    c = std_case(rng, V, sos, N, rng.randrange(1, 5), rng.randrange(1, 3), dicts, p_sos=0.3)
                    c["alias"] = True
                    c["ctor"] = rng.choice(CTORS[:4])
                    # (std_case may have drawn random later constructions, destructive ones included: replace them)
                    c["steps"] = [{"sos": rng.choice((sos, -1, rng.randrange(V))), "ctor": rng.choice(CTORS[:4])}] \
                        if rng.random() < 0.6 else []
                    yield c

    def size_case(self, rng, V, sos, what):
        shift = 0 if 0 <= sos < V else 1
        toks = list(range(V)) + ([sos] if shift else [])
        if what in ("fan", "fan1"):
            # every bigram ends in the same token: one unigram owns all level-2 nodes, every other
            # unigram is a childless parent (longest possible offsets)
            last = 0 if what == "fan" else V - 1
            uni = [{"key": [t], "logp": grid(rng), "logb": grid(rng, -4)} for t in toks]
            bi = [{"key": [t, last], "logp": grid(rng)} for t in toks]
            dicts = [uni, bi]
        else:
            n2 = min(what, (len(toks) ** 2) * 3 // 4)
            bi = {}
            while len(bi) < n2:
                k = (rng.choice(toks), rng.choice(toks))
                bi[k] = {"key": list(k), "logp": grid(rng), "logb": grid(rng, -4)}
            tri = {}
            while len(tri) < n2:
                k = (rng.choice(toks), rng.choice(toks), rng.choice(toks))
                tri[k] = {"key": list(k), "logp": grid(rng)}
            uni = [{"key": [t], "logp": grid(rng), "logb": grid(rng, -4)} for t in toks if rng.random() < 0.9]
            dicts = [uni, list(bi.values()), list(tri.values())]
        T, B = 3, 2
        hist = gen_hist(rng, V, sos, T, B, 0.2)
        if what in ("fan", "fan1"):
            hist[1][0] = 0
            hist[2][1] = 1 % V
        return {"kind": "table", "V": V, "sos": sos, "dicts": dicts, "B": B, "hist": hist, "chunks": [1, 3],
                "idxs": [[2], [3, 1]], "size": True}

    def malformed(self, rng):
        base = {"kind": "table", "V": 3, "sos": 0, "B": 1, "hist": [[1]], "chunks": [1], "idxs": [[0]],
                "malformed": True}
        u = [{"key": [0], "logp": "-1", "logb": "0"}]
        yield dict(base, dicts=[])
        yield dict(base, dicts=[u, []])
        yield dict(base, dicts=[[{"key": [7], "logp": "-1"}]])
        yield dict(base, dicts=[u, [{"key": [0, 1, 2], "logp": "-1"}]])
        yield dict(base, dicts=[u, [{"key": [0, 9], "logp": "-1"}]])
        yield dict(base, sos=-1, dicts=[u, [{"key": [-2, 1], "logp": "-1"}]])
        yield dict(base, dicts=[u, [{"key": [1, 1], "logp": "-1", "logb": "0"}], []])
        # a valid table, but a chunk size < 1: RuntimeError expected
        ok = {"kind": "table", "V": 3, "sos": 0, "B": 2, "hist": [[1, 2], [0, 1]], "chunks": [1], "idxs": [[0]],
              "dicts": [u, [{"key": [0, 1], "logp": "-2"}]]}
        yield dict(ok, bad_chunk=0)
        yield dict(ok, bad_chunk=-3)

    # ------------------------------------------------------------------ implementation
    def run_impl(self, case):
        if case["kind"] == "arpa":
            return self.run_arpa(case)
        import torch
        from pydrobert.torch.modules import LookupLanguageModel, SequentialLanguageModel
        V, sos, B = case["V"], case["sos"], case["B"]
        changes = []          # caller-owned objects that a call changed: [which, text]
        with warnings.catch_warnings():
            warnings.simplefilter("ignore")
            # ---- the caller's table, handed to every construction of the case (never rebuilt in between)
            table = to_prob_dicts(case["dicts"])
            table = [table[a] for a in alias_addrs(case)]     # one dict object may sit at several positions
            held = list(table)
            plan = [(sos, case.get("ctor", "positional"))] + [(s["sos"], s["ctor"]) for s in case.get("steps", [])]
            built = []
            for k, (sos_k, ctor_k) in enumerate(plan):
                snap = (len(table), copy.deepcopy(held))
                try:
                    lm_k, err = construct(V, sos_k, table, ctor_k), None
                except Exception as e:
                    lm_k, err = None, {"build_error": type(e).__name__, "message": str(e)[:200]}
                if not is_destructive(ctor_k):
                    for d in table_changes(table, held, snap):
                        changes.append(["prob_dicts", f"construction #{k + 1} (sos={sos_k}, {ctor_k}, destructive=False"
                                        f"{', rejected with ' + err['build_error'] if err else ''}) changed the "
                                        f"caller's table: {d}"])
                built.append((lm_k, err, table_obs(table, held)))
            steps_out = []
            for (lm_k, err, obs), (sos_k, _c) in list(zip(built, plan))[1:]:
                o = dict(err or {}, table_after=obs)
                if lm_k is not None:
                    o["build"] = self.build_obs(lm_k)
                    hk = torch.tensor(step_hist(case, sos_k), dtype=torch.long).view(len(case["hist"]), B)
                    o["full"] = tens3(lm_k(hk))
                    o["chunk2"] = tens3(lm_k.calc_full_log_probs_chunked(hk, {}, 2))
                steps_out.append(o)
            lm, err, obs = built[0]
            if lm is None:
                return dict(err, table_after=obs, steps=steps_out, arg_changes=changes)
            out = {"build": self.build_obs(lm), "table_after": obs, "steps": steps_out, "arg_changes": changes}
            buffers0 = self.raw_buffers(lm)
            dtype = {"int64": torch.long, "int32": torch.int32}[case.get("hist_dtype", "int64")]
            T = len(case["hist"])
            view = make_view(case)
            if view is None:
                base = hist = torch.tensor(case["hist"], dtype=dtype).view(T, B)
            else:
                base = torch.tensor(view["storage"], dtype=dtype)
                hist = base.as_strided((T, B), (view["sT"], view["sB"]), view["off"])
                if hist.tolist() != [list(r) for r in case["hist"]]:
                    raise AssertionError("harness: the laid-out tensor does not show the case's history")
            out["hist_is_contiguous"] = bool(hist.is_contiguous())
            # ---- caller-owned arguments of the entry points: the history (its whole storage), `prev`
            prev = {}

            def hist_state():
                return (base.tolist(), tuple(hist.shape), tuple(hist.stride()), hist.storage_offset(), str(hist.dtype))
            state = {"hist": hist_state()}

            def watch(after):
                now = hist_state()
                if now != state["hist"]:
                    changes.append(["hist", f"{after} changed the caller's history tensor (storage, shape, strides, "
                                            f"offset, dtype): {short_(state['hist'])} -> {short_(now)}"])
                    state["hist"] = now
                if prev != {}:
                    changes.append(["prev", f"{after} changed the caller's prev dict: now {sorted(prev)}"])
                    prev.clear()

            def fwd(m, **kw):
                return m(hist, prev, **kw) if case.get("pass_prev") else m(hist, **kw)
            lm2 = LookupLanguageModel(V, sos)
            try:
                sd = lm.state_dict()
                sd_snap = {k: str(v.tolist()) for k, v in sd.items()}
                if case.get("reload", "serialised") == "direct":
                    # the state dict handed over as it is (it shares the first model's buffers)
                    lm2.load_state_dict(sd)
                else:
                    # "saved and loaded into a freshly constructed instance": through the serialiser
                    buf = io.BytesIO()
                    torch.save(sd, buf)
                    buf.seek(0)
                    lm2.load_state_dict(torch.load(buf))
                if {k: str(v.tolist()) for k, v in sd.items()} != sd_snap:
                    changes.append(["state_dict", "load_state_dict / torch.save changed the state dict it was given"])
                out["shape"] = {"N": lm2.max_ngram, "G": lm2.max_ngram_nodes, "S": lm2.max_direct_descendants}
            except Exception as e:
                out["shape"] = {"error": type(e).__name__, "message": str(e)[:200]}
                lm2 = None
            if "bad_chunk" in case:
                try:
                    lm.calc_full_log_probs_chunked(hist, prev, case["bad_chunk"])
                    out["bad_chunk"] = "returned"
                except Exception as e:
                    out["bad_chunk"] = type(e).__name__
                watch(f"calc_full_log_probs_chunked(chunk_size={case['bad_chunk']})")
            if not case.get("oov"):
                out["full"] = tens3(fwd(lm))
                watch("lm(hist)")
                out["chunked"] = {}
                for c in case["chunks"]:
                    out["chunked"][str(c)] = tens3(lm.calc_full_log_probs_chunked(hist, prev, c))
                    watch(f"calc_full_log_probs_chunked(chunk_size={c})")
                # the base-class evaluation: one index at a time on the whole history
                out["byidx"] = tens3(SequentialLanguageModel.calc_full_log_probs(lm, hist, prev))
                watch("SequentialLanguageModel.calc_full_log_probs")
                if lm2 is not None:
                    out["reloaded_full"] = tens3(fwd(lm2))
                    watch("reloaded lm(hist)")
                # the entry points other modules call directly (no `forward` in between)
                out["direct_diffs"] = []
                if not case.get("pass_prev"):
                    got = tens3(lm.calc_full_log_probs(hist, prev))
                    watch("calc_full_log_probs")
                    if got != out["full"]:
                        out["direct_diffs"].append("calc_full_log_probs(hist, prev) differs from lm(hist): "
                                                   + first_diff3(got, out["full"]))
            out["idx"] = []
            out["reloaded_idx"] = []
            out["idx_form_diffs"] = []
            for j, hidx in enumerate(case["idxs"]):
                it = torch.tensor(hidx[0] if len(hidx) == 1 else hidx, dtype=torch.long)
                it_snap = it.tolist()
                got = tens2(fwd(lm, idx=it)[0])
                out["idx"].append(got)
                if lm2 is not None:
                    out["reloaded_idx"].append(tens2(fwd(lm2, idx=it)[0]))
                if not case.get("oov") and j in (1, 4):
                    got_d = tens2(lm.calc_idx_log_probs(hist, prev, it)[0])
                    if got_d != got:
                        out["direct_diffs"].append(f"calc_idx_log_probs(hist, prev, {hidx}) = {got_d}, "
                                                   f"lm(hist, idx=...) = {got}")
                if it.tolist() != it_snap:
                    changes.append(["idx", f"lm(hist, idx=...) changed the caller's idx tensor: {it_snap} -> {it.tolist()}"])
                watch(f"lm(hist, idx={hidx})")
                if j in (0, 3) and all(0 <= i <= T for i in hidx):
                    # the same index spelled differently (python int, one-element vector, negative)
                    for name, alt in idx_forms(hidx, T):
                        try:
                            g = tens2(lm(hist, idx=alt)[0])
                        except Exception as e:
                            g = {"error": type(e).__name__}
                        if g != got:
                            out["idx_form_diffs"].append(f"idx={hidx} as {name}: {g} instead of {got}")
            # ---- the model's state dict loaded into an instance that held other tables before
            if case.get("loads") and not case.get("oov"):
                out["loads"] = self.run_loads(case, lm, changes)
            # ---- the model itself must survive being evaluated, reloaded from, and having siblings built
            if self.raw_buffers(lm) != buffers0:
                changes.append(["model_buffers", "evaluating the model (or loading its state dict into another "
                                                 "instance) changed its own buffers"])
        return out

    def run_loads(self, case, lm, changes):
        """Construct the receiving instance, load every state dict of the sequence into it in turn; after every load:
        its shape attributes, its state dict against the source's, its answers (all positions, chunked, one index
        per batch element) on the case's history."""
        import torch
        from pydrobert.torch.modules import LookupLanguageModel
        V, B, T = case["V"], case["B"], len(case["hist"])
        spec = case["loads"]
        tg = spec["target"]
        if tg["dicts"] is None:
            target = LookupLanguageModel(V, tg["sos"])
        else:
            target = construct(V, tg["sos"], to_prob_dicts(tg["dicts"]), tg.get("ctor", "positional"))
        hist_t = torch.tensor(step_hist(case, tg["sos"]), dtype=torch.long).view(T, B)
        hidx = case["idxs"][-1] if case["idxs"] else [0]
        it = torch.tensor(hidx[0] if len(hidx) == 1 else hidx, dtype=torch.long)
        res = []
        for k, ld in enumerate(spec["seq"]):
            src = lm if ld["src"] == "main" else construct(V, ld["sos"], to_prob_dicts(ld["dicts"]), "positional")
            before = self.raw_buffers(src)
            sd = src.state_dict()
            o = {"src_attrs": {"N": src.max_ngram, "G": src.max_ngram_nodes, "S": src.max_direct_descendants}}
            if ld["via"] == "serialised":
                buf = io.BytesIO()
                torch.save(sd, buf)
                buf.seek(0)
                given = torch.load(buf)
            elif ld["via"] == "clone":
                given = {key: v.clone() for key, v in sd.items()}
            else:
                given = sd
            given_snap = {key: str(v.dtype) + str(v.tolist()) for key, v in given.items()}
            try:
                target.load_state_dict(given)
            except Exception as e:
                o["load_error"] = type(e).__name__ + ": " + str(e)[:160]
                res.append(o)
                continue
            if {key: str(v.dtype) + str(v.tolist()) for key, v in given.items()} != given_snap:
                changes.append(["state_dict", f"load #{k + 1} into the used instance changed the state dict it was given"])
            o["attrs"] = {"N": target.max_ngram, "G": target.max_ngram_nodes, "S": target.max_direct_descendants}
            sd2 = target.state_dict()
            diff = []
            if list(sd2) != list(sd):
                diff.append(f"keys {list(sd2)} instead of {list(sd)}")
            else:
                for key in sd:
                    a, b = sd2[key], sd[key]
                    if a.dtype != b.dtype or a.shape != b.shape or str(a.tolist()) != str(b.tolist()):  # (NaN pads)
                        diff.append(f"{key}: {a.dtype}{short_(a.tolist(), 60)} instead of {b.dtype}{short_(b.tolist(), 60)}")
            o["sd_diff"] = diff
            try:
                o["full"] = tens3(target(hist_t))
                o["chunk2"] = tens3(target.calc_full_log_probs_chunked(hist_t, {}, 2))
                o["idx"] = tens2(target(hist_t, idx=it)[0])
            except Exception as e:
                o["eval_error"] = type(e).__name__ + ": " + str(e)[:160]
            if self.raw_buffers(src) != before:
                changes.append(["model_buffers", f"load #{k + 1}: loading a model's state dict into another instance "
                                                 "(or evaluating that instance) changed the SOURCE model's buffers"])
            res.append(o)
        return res

    @staticmethod
    def build_obs(lm):
        return {"N": lm.max_ngram, "G": lm.max_ngram_nodes, "S": lm.max_direct_descendants,
                "offsets": [int(x) for x in lm.offsets.tolist()], "ids": [int(x) for x in lm.ids.tolist()],
                "logps": [frac_str(x) for x in lm.logps.tolist()],
                "logbs": [frac_str(x) for x in lm.logbs.tolist()],
                "offBits": BITS[str(lm.offsets.dtype)], "idBits": BITS[str(lm.ids.dtype)]}

    @staticmethod
    def raw_buffers(lm):
        return [str(b.dtype) + str(b.tolist()) for b in (lm.offsets, lm.ids, lm.logps, lm.logbs)]

    # ------------------------------------------------------------------ ARPA
    def arpa_file(self, case):
        """The file, as text for the real reader and as classified lines for the Lean model."""
        dicts, N = case["dicts"], len(case["dicts"])
        numeric = case["numeric_tokens"]
        names = (lambda t: str(t * 3 + 1)) if numeric else (lambda t: "w%d" % t)

        def num(s):
            f = float(Fraction(s))
            if case["style"] == "fixed":
                return "%.3f" % f
            if case["style"] == "exp":
                return ("%.5e" % f).replace("e+", "e")
            return repr(f) if f != int(f) else str(int(f))
        def entry_item(n, e, logp=None, extra=None):
            """One entry line of order n+1 (text for the reader, classified line for the model)."""
            lp = e["logp"] if logp is None else logp
            text = [num(lp)] + [names(t) for t in e["key"]]
            fields = [{"s": names(t), "num": (str(t * 3 + 1) if numeric else None)} for t in e["key"]]
            if n < N - 1 and not (case["implicit"] and Fraction(e.get("logb", "0")) == 0):
                text.append(num(e.get("logb", "0")))
                fields.append({"s": text[-1], "num": e.get("logb", "0")})
            if extra == "token":      # one field too many that does not read as a number
                text.append("zz")
                fields.append({"s": "zz", "num": None})
            elif extra == "number":   # a trailing number (a back-off weight where none is allowed)
                text.append("0.500")
                fields.append({"s": "0.500", "num": "1/2"})
            return ((("\t" if case["blank_lines"] else " ").join(text)),
                    {"t": "entry", "logp": lp, "fields": fields})

        def header_item(n):
            return ("\\%d-grams:" % (n + 1), {"t": "header", "n": n + 1})
        blank = ("", {"t": "blank"})
        corrupt = case.get("corrupt")
        variant = case.get("variant")
        head = [("some preamble 1 2", {"t": "other"}), ("\\data\\", {"t": "data"})]
        counts = [("ngram %d=%d" % (n + 1, len(d)), {"t": "count", "n": n + 1, "c": len(d)})
                  for n, d in enumerate(dicts)]
        sections = [[header_item(n)] + [entry_item(n, e) for e in d] + [blank] for n, d in enumerate(dicts)]
        first = next((n for n, d in enumerate(dicts) if d), None)          # first order that lists an entry
        # --- files that are NOT well-formed (IOError expected) beyond count / no_end / no_data below
        if corrupt == "extra_token" and first is not None:
            sections[first][1] = entry_item(first, dicts[first][0], extra="token")
        elif corrupt == "extra_number" and dicts[-1]:
            sections[-1][1] = entry_item(N - 1, dicts[-1][0], extra="number")
        elif corrupt == "unlisted_order":
            sections.append([header_item(N), entry_item(N, {"key": [0] * (N + 1), "logp": "-1"}), blank])
        elif corrupt == "garbage":
            sections[0] = sections[0] + [("some garbage here", {"t": "other"})]
        elif corrupt == "dup_count" and first is not None:
            sections[first].insert(1, sections[first][1])
            t_, l_ = counts[first]
            counts[first] = ("ngram %d=%d" % (l_["n"], l_["c"] + 1), dict(l_, c=l_["c"] + 1))
        # --- well-formed files written differently (the same table must be read)
        if variant == "counts_reversed":
            counts.reverse()
        elif variant == "sections_reversed":
            sections.reverse()
        elif variant == "split_section":
            k = next((n for n, d in enumerate(dicts) if len(d) >= 2), None)
            if k is not None:
                sec = sections[k]
                sections[k] = [sec[0], sec[1], blank, sec[0]] + sec[2:]
        elif variant == "dup_line" and first is not None:
            e0 = dicts[first][0]
            alt = "-77/8" if Fraction(e0["logp"]) != Fraction(-77, 8) else "-75/8"
            sections[first].insert(1, entry_item(first, e0, logp=alt))    # overwritten by the listed line
        items = head + counts + [blank] + [it for sec in sections for it in sec]
        items.append(("\\end\\", {"t": "end"}))
        if corrupt == "count":       # one order announces one entry more than it lists
            k = next(i for i, (_, l) in enumerate(items) if l["t"] == "count")
            l = items[k][1]
            items[k] = ("ngram %d=%d" % (l["n"], l["c"] + 1), dict(l, c=l["c"] + 1))
        elif corrupt == "no_end":
            items.pop()
        elif corrupt == "no_data":
            items = [it for it in items if it[1]["t"] != "data"]
        if case["blank_lines"]:
            items = [x for it in items for x in (it, ("  ", {"t": "blank"}))]
        return "\n".join(t for t, _ in items) + "\n", [l for _, l in items]

    @staticmethod
    def arpa_names(case):
        return (lambda t: str(t * 3 + 1)) if case["numeric_tokens"] else (lambda t: "w%d" % t)

    @staticmethod
    def arpa_ftype(case):
        import numpy as np
        return {"float": float, "np.float64": np.float64, "np.float32": np.float32}[case.get("ftype", "float")]

    def run_arpa(self, case):
        import logging
        import os
        import tempfile
        from pydrobert.torch.data import parse_arpa_lm
        text, _ = self.arpa_file(case)
        names = self.arpa_names(case)
        token2id = {names(t): t for t in range(case["V"])} if case.get("token2id") else None
        ftype = self.arpa_ftype(case)
        logger = None
        if case.get("logger"):
            logger = logging.getLogger("verif.c06.arpa")
            logger.propagate = False
            logger.setLevel(logging.INFO)
            if not logger.handlers:
                logger.addHandler(logging.NullHandler())
        entry = case.get("entry", "fileobj")
        tmp = None
        fobj = None
        changes = []
        t2i_snap = None if token2id is None else (list(token2id.items()), copy.deepcopy(token2id))

        def call(arg):
            if case.get("call", "keyword") == "positional":
                return parse_arpa_lm(arg, token2id, case["base_e"], ftype, logger)
            kw = {"ftype": ftype, "logger": logger, "token2id": token2id}
            if case["base_e"] is not None:   # None = leave the (deprecated) default: base 10
                kw["to_base_e"] = case["base_e"]
            return parse_arpa_lm(arg, **kw)

        def after_call(arg, what):
            # caller-owned arguments: the token map, the file object (still open: it is the caller's to close)
            if t2i_snap is not None and (list(token2id.items()) != t2i_snap[0] or token2id != t2i_snap[1]):
                changes.append(["token2id", f"{what} changed the caller's token2id: {short_(t2i_snap[1])} -> "
                                            f"{short_(token2id)}"])
            if not isinstance(arg, str) and arg.closed:
                changes.append(["file_closed", f"{what} closed the file object it was given ({entry})"])
        pds2 = None
        try:
            if entry == "fileobj":
                arg = io.StringIO(text)
            else:
                fd, tmp = tempfile.mkstemp(suffix=".arpa", prefix="verif_c06_")
                with os.fdopen(fd, "w") as f:
                    f.write(text)
                arg = tmp if entry == "path" else open(tmp)
                fobj = None if entry == "path" else arg
            with warnings.catch_warnings():
                warnings.simplefilter("ignore")
                try:
                    try:
                        pds = call(arg)
                    finally:
                        after_call(arg, "parse_arpa_lm")
                    if case.get("reread"):
                        # the same arguments once more (file object rewound by its owner)
                        if not isinstance(arg, str) and not arg.closed:
                            arg.seek(0)
                        try:
                            pds2 = call(arg)
                        finally:
                            after_call(arg, "a second parse_arpa_lm with the same arguments")
                except (IOError, KeyError, ValueError) as e:
                    return {"read_error": type(e).__name__, "message": str(e)[:200], "arg_changes": changes}
        finally:
            if fobj is not None:
                fobj.close()
            if tmp is not None:
                os.remove(tmp)
        N = len(pds)
        out = []
        types_ok = True
        for n, pd in enumerate(pds):
            d = []
            for k, v in pd.items():
                key = [k] if n == 0 else list(k)
                if n == N - 1:
                    types_ok = types_ok and isinstance(v, ftype)
                    d.append({"key": key, "logp": float(v), "logb": None})
                else:
                    types_ok = types_ok and isinstance(v[0], ftype) and isinstance(v[1], ftype)
                    d.append({"key": key, "logp": float(v[0]), "logb": float(v[1])})
            out.append(d)
        res = {"dicts": out, "types_ok": types_ok, "arg_changes": changes}
        if pds2 is not None and (pds2 != pds or [list(d.items()) for d in pds2] != [list(d.items()) for d in pds]):
            res["reread_diff"] = f"first {short_(pds, 300)}, second {short_(pds2, 300)}"
        return res

    # ------------------------------------------------------------------ model
    def model_request(self, case):
        if case["kind"] == "arpa":
            return {"op": "c06.arpa", "case": {"lines": self.arpa_file(case)[1]}}
        req = {"V": case["V"], "sos": case["sos"], "dicts": case["dicts"], "B": case["B"], "hist": case["hist"],
               "chunks": case["chunks"], "idxs": case["idxs"]}
        view = make_view(case)
        if view is not None:
            req["view"] = view
        req["destructive"] = is_destructive(case.get("ctor", "positional"))
        addrs = alias_addrs(case)
        if addrs != list(range(len(addrs))):
            req["addrs"] = addrs
        req["steps"] = [{"sos": st["sos"], "destructive": is_destructive(st["ctor"]), "hist": step_hist(case, st["sos"])}
                        for st in case.get("steps", [])]
        return {"op": "c06.table", "case": req}

    # ------------------------------------------------------------------ comparison
    def compare(self, case, impl, model):
        if "error" in impl:
            return [f"harness could not run the implementation: {impl['error']}: {impl.get('message')}"]
        if case["kind"] == "arpa":
            return self.compare_arpa(case, impl, model)
        out = self.compare_caller(case, impl, model)
        if "build_error" in impl:
            if model["build"] is not None:
                out.append(f"construction raised {impl['build_error']} but the model builds a trie")
            return out
        if model["build"] is None:
            return out + ["model rejects the table (ValueError) but the implementation built a trie"]
        out += self.compare_build(impl["build"], model["build"], "")
        if impl["shape"] != model["shape"]:
            out.append(f"load_state_dict shape: impl={impl['shape']} model={model['shape']}")
        for k, o in enumerate(impl.get("loads", [])):
            if case["loads"]["seq"][k]["src"] == "main" and "attrs" in o and o["attrs"] != model["shape"]:
                out.append(f"load #{k + 1} into a used instance ({load_kind(case)}): shape attributes "
                           f"impl={o['attrs']} model(inferShape)={model['shape']}")
        if impl["hist_is_contiguous"] != model["view_contig"]:
            out.append(f"hist.is_contiguous(): impl={impl['hist_is_contiguous']} model={model['view_contig']}")
        if not case.get("oov"):
            if impl["full"] != model["full"]:
                out.append("full log-probs differ from the model: " + first_diff3(impl["full"], model["full"]))
            for c in case["chunks"]:
                if impl["chunked"][str(c)] != model["full"]:
                    out.append(f"chunk_size={c}: differs from the model: "
                               + first_diff3(impl["chunked"][str(c)], model["full"]))
            if impl["byidx"] != model["full"]:
                out.append("one-index-at-a-time differs from the model")
        for j, hidx in enumerate(case["idxs"]):
            if impl["idx"][j] != model["idx"][j]:
                out.append(f"idx={hidx}: impl={impl['idx'][j]} model={model['idx'][j]}")
        return out

    @staticmethod
    def compare_build(a, b, where):
        out = []
        for k in ("N", "G", "S", "offBits", "idBits"):
            if a[k] != b[k]:
                out.append(f"{where}{k}: impl={a[k]} model={b[k]}")
        for k in ("offsets", "ids", "logps", "logbs"):
            if a[k] != b[k]:
                if len(a[k]) != len(b[k]):
                    out.append(f"{where}buffer {k}: length impl={len(a[k])} model={len(b[k])}")
                else:
                    i = next(i for i in range(len(a[k])) if a[k][i] != b[k][i])
                    out.append(f"{where}buffer {k}[{i}]: impl={a[k][i]} model={b[k][i]}")
        return out

    @staticmethod
    def model_table(case, obs):
        """The Lean heap model's view of the caller's table in the shape of `table_obs` (the highest order of the
        ORIGINAL table holds plain log-probabilities: no back-off weight)."""
        N = len(case["dicts"])
        dicts = []
        for n, d in enumerate(obs["dicts"]):
            rows = [{"key": e["key"], "logp": e["logp"], "logb": None if n == N - 1 else e["logb"]} for e in d]
            dicts.append(sorted(rows, key=lambda e: (len(e["key"]), repr(e["key"]))))
        return {"outer_len": obs["outer_len"], "dicts": dicts}

    def compare_caller(self, case, impl, model):
        """The caller's table after every construction (a destructive one included: the model predicts what is left
        of it) and every later model built from the same table object, against the Lean heap procedure."""
        out = []
        if "table_after" in impl and "table_after" in model:
            want = self.model_table(case, model["table_after"])
            if impl["table_after"] != want:
                out.append(f"the caller's table after construction #1 ({case.get('ctor', 'positional')}): "
                           f"impl={short_(impl['table_after'], 300)} model={short_(want, 300)}")
        for k, (st, a, b) in enumerate(zip(case.get("steps", []), impl.get("steps", []), model.get("steps", []))):
            where = f"construction #{k + 2} from the same table object (sos={st['sos']}, {st['ctor']}): "
            want = self.model_table(case, b["table_after"])
            if a["table_after"] != want:
                out.append(where + f"the caller's table afterwards: impl={short_(a['table_after'], 300)} "
                                   f"model={short_(want, 300)}")
            if "build_error" in a:
                if b["build"] is not None:
                    out.append(where + f"raised {a['build_error']} ({a.get('message')}) but the model builds a trie")
                elif a["build_error"] != "ValueError":
                    out.append(where + f"raised {a['build_error']}, the model's error class is ValueError")
                continue
            if b["build"] is None:
                out.append(where + "the model rejects the table (ValueError) but the implementation built a trie")
                continue
            out += self.compare_build(a["build"], b["build"], where)
            if a["full"] != b["full"]:
                out.append(where + "full log-probs differ from the model: " + first_diff3(a["full"], b["full"]))
            if a["chunk2"] != b["full"]:
                out.append(where + "chunk_size=2 differs from the model: " + first_diff3(a["chunk2"], b["full"]))
        return out

    def compare_arpa(self, case, impl, model):
        want = model.get("parsed")
        if "read_error" in impl:
            if want is not None:
                return [f"the reader raised {impl['read_error']} ({impl.get('message')}) but the model reads the file"]
            return [] if impl["read_error"] in ("OSError", "IOError") else \
                [f"the reader raised {impl['read_error']}, the model's error class is IOError"]
        if want is None:
            return [f"model rejects the ARPA lines ({model.get('error')}) but the reader returned a table"]
        ft = self.arpa_ftype(case)
        conv = ft(math.log10(math.e)) if case["base_e"] else ft(1.0)   # the reader divides by this number
        names = self.arpa_names(case)
        back = {names(t): t for t in range(case["V"])}
        got = [sorted(([e["key"], e["logp"], e["logb"]] for e in d), key=repr) for d in impl["dicts"]]
        w = []
        for d in want:
            rows = []
            for e in d:
                p = float(ft(_val(e["logp"])) / conv)
                b = None if e["logb"] is None else float(ft(_val(e["logb"])) / conv)
                key = [back[t] for t in e["key"]] if case.get("token2id") else e["key"]
                rows.append([key, p, b])
            w.append(sorted(rows, key=repr))
        return [] if got == w else [f"parsed table impl={got} model={w}"]

    # ------------------------------------------------------------------ property
    def internal_consistency(self, case, model):
        """model == spec (theorems C06_tree & co. say so; a failure is a machinery error)."""
        if case["kind"] != "table" or model.get("build") is None:
            return
        T, B = len(case["hist"]), case["B"]
        bld = model["build"]
        if model["shape"] != {"N": bld["N"], "G": bld["G"], "S": bld["S"]}:
            raise AssertionError(f"Lean model: inferShape(buildTrie) = {model['shape']} but buildTrie has "
                                 f"N={bld['N']} G={bld['G']} S={bld['S']}")
        if not case.get("malformed") and not model["flat_check"]:
            raise AssertionError("Lean model: the buffers built by buildTrie do not pass checkFlat for the case's "
                                 "table (the hypothesis of theorem C06_lookup_checked fails on this input)")
        if not case.get("malformed") and not model.get("table_ok"):
            raise AssertionError("Lean model: the case's table does not satisfy `tableOK`, the hypothesis of theorems "
                                 "C06_flat / C06_lookup / C06_model")
        if not model["view_rows_ok"]:
            raise AssertionError("Lean model: the view's logical rows are not the case's history")
        if not case.get("oov"):
            if not model["flat_agree"]:
                raise AssertionError("Lean model: chunked evaluation on the view differs from the one on "
                                     "the logical rows (theorem C06_chunk_layout says they agree)")
            if model["full"] != model["spec_full"]:
                raise AssertionError("Lean model and Lean spec disagree: "
                                     + first_diff3(model["full"], model["spec_full"]))
            if not all(model["chunk_agree"]) or not model["byidx_agree"]:
                raise AssertionError("Lean model: chunked / by-index evaluation differs from chunk_size=1")
        for j, hidx in enumerate(case["idxs"]):
            hv = hidx * B if len(hidx) == 1 else hidx
            want = [model["spec_full"][hv[b]][b] for b in range(B)]
            if model["idx"][j] != want:
                raise AssertionError(f"Lean model idx={hidx} differs from the spec")

    def predicate(self, case, impl, model):
        if "error" in impl:
            return []
        if case["kind"] == "arpa":
            return self.predicate_arpa(case, impl)
        return (self.predicate_caller(case, impl, model) + self.predicate_table(case, impl, model)
                + self.predicate_loads(case, impl, model))

    def predicate_loads(self, case, impl, model):
        """After every load into the receiving instance (whatever it held before): it answers like Katz back-off on
        the table of the model just loaded (padding = its own start symbol), holds that model's state dict and shape."""
        if not impl.get("loads"):
            return []
        V, B, sos = case["V"], case["B"], case["sos"]
        spec = case["loads"]
        tg = spec["target"]
        hist_t = step_hist(case, tg["sos"])
        hidx = case["idxs"][-1] if case["idxs"] else [0]
        hv = hidx * B if len(hidx) == 1 else hidx
        held = "a default-constructed instance" if tg["dicts"] is None else \
            f"an instance constructed from an order-{len(tg['dicts'])} table"
        fails = []
        for k, (ld, o) in enumerate(zip(spec["seq"], impl["loads"])):
            main = ld["src"] == "main"
            dicts, ssos = (case["dicts"], sos) if main else (ld["dicts"], ld["sos"])
            N = len(dicts)
            want = katz_full(dicts, V, ssos, tg["sos"], hist_t, B)
            if main and model is not None and model.get("spec_full") is not None and \
                    (tg["sos"] == sos or not 0 <= sos < V) and want != model["spec_full"]:
                raise AssertionError("harness: the Python Katz recursion differs from the Lean spec on the case's table: "
                                     + first_diff3(want, model["spec_full"]))
            prev = [len(x["dicts"]) for x in spec["seq"][:k]]
            where = (f"order-{N} model loaded ({ld['via']}) into {held}"
                     + (f" that had loaded models of order {prev} before" if prev else "")
                     + (f" (start symbol {tg['sos']}, the saved model's {ssos})" if tg["sos"] != ssos else ""))
            tag = "@target=" + load_kind(case, N) + ("" if not prev else "+chain")
            if "load_error" in o:
                fails.append((f"{where}: load_state_dict raised {o['load_error']}", "C06.load_state_dict.raises" + tag))
                continue
            if o["attrs"] != o["src_attrs"]:
                fails.append((f"{where}: max_ngram / max_ngram_nodes / max_direct_descendants are {o['attrs']}, "
                              f"the saved model's {o['src_attrs']}", "C06.load_state_dict.shape" + tag))
            if o["sd_diff"]:
                fails.append((f"{where}: state_dict() of the loaded object differs from the saved one: "
                              + "; ".join(o["sd_diff"][:3]), "C06.load_state_dict.state_dict" + tag))
            if "eval_error" in o:
                fails.append((f"{where}: evaluating the loaded object raised {o['eval_error']}",
                              "C06.value.after_load.raises" + tag))
                continue
            for name, got in (("all positions at once", o["full"]), ("chunk_size=2", o["chunk2"])):
                if got != want:
                    fails.append((f"{where}, {name}: log-probabilities differ from Katz back-off on the saved model's "
                                  "table: " + first_diff3(got, want), "C06.value.after_load" + tag))
            if o["idx"] != [want[hv[b]][b] for b in range(B)]:
                fails.append((f"{where}, idx={hidx}: differs from Katz back-off on the saved model's table",
                              "C06.value.after_load.idx" + tag))
        return fails

    def predicate_caller(self, case, impl, model):
        """(a) No call may change an object the caller handed over (unless documented: destructive=True) nor the
        model's own buffers; (b) every later model built from the same table object computes the Katz recursion
        on the table the caller holds at that moment (= the original one after non-destructive constructions)."""
        fails = []
        for which, text in impl.get("arg_changes", []):
            fails.append((text, "C06.model_state.changed_by_evaluation" if which == "model_buffers"
                          else "C06.caller_object.changed." + which))
        if model is None:
            return fails
        for k, (st, a, b) in enumerate(zip(case.get("steps", []), impl.get("steps", []), model.get("steps", []))):
            where = f"construction #{k + 2} from the same table object (sos={st['sos']}, {st['ctor']})"
            before = [case.get("ctor", "positional")] + [x["ctor"] for x in case["steps"][:k]]
            if not any(is_destructive(c) for c in before) and not b["table_is_raw"]:
                raise AssertionError("Lean model: the table is not the original one after non-destructive "
                                     "constructions (theorem C06_build_pure says it is)")
            if b["build"] is None:
                if "build_error" not in a:
                    fails.append((f"{where}: a table that must be rejected (ValueError) was accepted",
                                  "C06.malformed.not_rejected@reuse"))
                continue
            if not b["table_ok"] or not b["chunk2_agree"]:
                raise AssertionError("Lean model: a later construction's table fails `tableOK` / chunk sizes disagree")
            if b["full"] != b["spec_full"]:
                raise AssertionError("Lean model and Lean spec disagree on a later construction: "
                                     + first_diff3(b["full"], b["spec_full"]))
            if "build_error" in a:
                fails.append((f"{where}: constructing the model from the table the caller holds (valid for this "
                              f"start symbol) raised {a['build_error']}: {a.get('message')}",
                              "C06.build_trie.raises." + a["build_error"] + "@reuse"))
                continue
            for name, got in (("all positions at once", a["full"]), ("chunk_size=2", a["chunk2"])):
                if got != b["spec_full"]:
                    fails.append((f"{where}, {name}: log-probabilities differ from Katz back-off on the caller's "
                                  "table: " + first_diff3(got, b["spec_full"]),
                                  "C06.value." + name.split("=")[0].replace(" ", "_") + "@reuse"))
        return fails

    def predicate_table(self, case, impl, model):
        self.internal_consistency(case, model)
        fails = []
        if case.get("bad_chunk") is not None and impl.get("bad_chunk") != "RuntimeError":
            fails.append((f"chunk_size={case['bad_chunk']} not rejected with RuntimeError: {impl.get('bad_chunk')}",
                          "C06.chunk_size.not_rejected"))
        valid = table_valid(case["dicts"], case["V"], case["sos"])
        if model is not None and (model.get("build") is not None) != valid:
            raise AssertionError(f"Lean model {'builds' if valid is False else 'rejects'} a table that is "
                                 f"{'valid' if valid else 'not valid'} for V={case['V']}, sos={case['sos']}")
        if case.get("malformed") or not valid:
            # (a table handed to several constructions may be valid for a later start symbol only)
            if impl.get("build_error") != "ValueError":
                fails.append((f"malformed table not rejected with ValueError: {impl.get('build_error', 'built')}",
                              "C06.malformed.not_rejected"))
            return fails
        if "build_error" in impl:
            sig = None
            msg = impl.get("message", "")
            return [(f"constructing the model from a valid table raised {impl['build_error']}: {msg}",
                     "C06.build_trie.raises." + impl["build_error"])]
        if model is None or model.get("build") is None:
            return fails
        spec = model["spec_full"]
        B = case["B"]
        N = len(case["dicts"])
        if isinstance(impl["shape"], dict) and "error" in impl["shape"]:
            fails.append((f"load_state_dict into a fresh instance raised {impl['shape']['error']}",
                          "C06.load_state_dict.raises"))
        elif impl["shape"]["N"] != N:
            fails.append((f"reloaded instance has max_ngram={impl['shape']['N']}, table has order {N}",
                          "C06.load_state_dict.order"))
        lay = (case.get("layout") or {}).get("kind", "contig")
        suffix = "" if lay == "contig" else "@layout=" + lay
        for d in impl.get("direct_diffs", []):
            fails.append((f"an entry point called directly disagrees with the call through forward: {d}",
                          "C06.value.direct_entry"))
        for d in impl.get("idx_form_diffs", []):
            fails.append((f"the same index spelled differently gives different log-probabilities: {d}",
                          "C06.value.idx_form"))
        if not case.get("oov"):
            for name, got in ([("all positions at once", impl["full"]), ("one index at a time", impl["byidx"])]
                              + [(f"chunk_size={c}", impl["chunked"][str(c)]) for c in case["chunks"]]
                              + ([("after state_dict round trip", impl["reloaded_full"])]
                                 if "reloaded_full" in impl else [])):
                if got != spec:
                    fails.append((f"{name}: log-probabilities differ from Katz back-off on the table: "
                                  + first_diff3(got, spec) + (f" (history tensor laid out as {lay})" if suffix else ""),
                                  "C06.value." + name.split("=")[0].replace(" ", "_") + suffix))
        for j, hidx in enumerate(case["idxs"]):
            hv = hidx * B if len(hidx) == 1 else hidx
            want = [spec[hv[b]][b] for b in range(B)]
            if impl["idx"][j] != want:
                fails.append((f"idx={hidx}: {impl['idx'][j]} differs from Katz back-off {want}",
                              "C06.value.idx" + suffix))
            if impl["reloaded_idx"] and impl["reloaded_idx"][j] != want:
                fails.append((f"idx={hidx} after reload: differs from Katz back-off",
                              "C06.value.idx_reloaded" + suffix))
        return fails

    def predicate_arpa(self, case, impl):
        """Reading the file yields exactly its listed entries (base 10 exactly; base e within 1e-12 relative)."""
        fails = []
        how = f"entry={case.get('entry', 'fileobj')}, to_base_e={case['base_e']}, ftype={case.get('ftype', 'float')}"
        for which, text in impl.get("arg_changes", []):
            fails.append((text, "C06.caller_object.changed." + which))
        if "reread_diff" in impl:
            fails.append((f"reading the same file twice with the same arguments gives different tables ({how}): "
                          + impl["reread_diff"], "C06.arpa.reread"))
        if case.get("corrupt"):
            if "read_error" not in impl:
                fails.append((f"a file that is not well-formed ({case['corrupt']}) was read without an error",
                              "C06.arpa.corrupt_accepted"))
            return fails
        if "read_error" in impl:
            return fails + [(f"reading a well-formed ARPA file raised {impl['read_error']}: {impl.get('message')} ({how})",
                     "C06.arpa.raises")]
        conv = math.log(10.0) if case["base_e"] else 1.0
        tol = 1e-6 if case.get("ftype") == "np.float32" else 1e-12
        N = len(case["dicts"])
        if len(impl["dicts"]) != N:
            return [(f"{len(impl['dicts'])} orders read, {N} written", "C06.arpa.orders")]
        if not impl.get("types_ok", True):
            fails.append((f"values are not instances of the requested ftype ({how})", "C06.arpa.ftype"))
        names = self.arpa_names(case) if not case.get("token2id") else (lambda t: t)
        for n, (d, got) in enumerate(zip(case["dicts"], impl["dicts"])):
            want = {tuple(names(t) for t in e["key"]):
                    (self.printed(case, e["logp"]), None if n == N - 1 else self.printed(case, e.get("logb", "0")))
                    for e in d}
            have = {tuple(e["key"]): (e["logp"], e["logb"]) for e in got}
            if set(want) != set(have):
                fails.append((f"order {n + 1}: keys read {sorted(have)} != keys written {sorted(want)}",
                              "C06.arpa.keys"))
                continue
            for k in want:
                for a, b in zip(want[k], have[k]):
                    if (a is None) != (b is None):
                        fails.append((f"order {n + 1} {k}: back-off presence differs", "C06.arpa.logb"))
                    elif a is not None:
                        x = a * conv
                        if (b != x) if not case["base_e"] else (abs(b - x) > tol * max(1.0, abs(x))):
                            fails.append((f"order {n + 1} {k}: read {b!r}, file lists {a!r} (x{conv}; {how})",
                                          "C06.arpa.value"))
        return fails

    @staticmethod
    def printed(case, s):
        """The decimal number the file lists for grid value s (3 decimals represent the 1/8 grid exactly)."""
        return float(Fraction(s))

    # ------------------------------------------------------------------ bookkeeping
    def nontrivial(self, case, impl):
        if case["kind"] != "table" or not isinstance(impl, dict) or "build" not in impl:
            return False
        N = len(case["dicts"])
        if N < 2:
            return False
        top = {tuple(e["key"]) for e in case["dicts"][-1] if e["logp"] != NEG_INF}
        V, sos, B = case["V"], case["sos"], case["B"]
        for t in range(len(case["hist"]) + 1):
            for b in range(B):
                h = [sos] * (N - 1) + [case["hist"][i][b] for i in range(t)]
                ctx = tuple(h[len(h) - (N - 1):])
                if any(ctx + (w,) not in top for w in range(V)):
                    return True
        return False

    def tags(self, case, impl):
        if case["kind"] == "arpa":
            return ["arpa", "arpa:to_base_e=" + str(case["base_e"]), "arpa:entry=" + case.get("entry", "fileobj"),
                    "arpa:ftype=" + case.get("ftype", "float"), "arpa:token2id=" + str(bool(case.get("token2id"))),
                    "arpa:call=" + case.get("call", "keyword"), "arpa:logger=" + str(bool(case.get("logger"))),
                    "arpa:corrupt=" + str(case.get("corrupt")), "arpa:variant=" + str(case.get("variant")),
                    "arpa:entry=%s,to_base_e=%s" % (case.get("entry", "fileobj"), case["base_e"]),
                    "arpa:reread=" + str(bool(case.get("reread"))),
                    "arpa:implicit_backoff" if case["implicit"] else "arpa:explicit_backoff",
                    "arpa:numeric_tokens" if case["numeric_tokens"] else "arpa:word_tokens"]
        V, sos = case["V"], case["sos"]
        t = [f"order={len(case['dicts'])}", f"V={V if V <= 4 else '>4'}",
             "sos_in_vocab" if 0 <= sos < V else "sos_outside", f"T={len(case['hist'])}", f"B={case['B']}"]
        for k in ("oov", "size", "malformed"):
            if case.get(k):
                t.append(k)
        if not case.get("malformed") and not case.get("size"):
            t.extend(path_depths(case))
        if case.get("paths"):
            t.append("paths:designed")
        t.append("layout=" + (case.get("layout") or {}).get("kind", "contig"))
        t.append("hist_dtype=" + case.get("hist_dtype", "int64"))
        t.append("ctor=" + case.get("ctor", "positional"))
        if alias_addrs(case) != list(range(len(case["dicts"]))):
            t.append("table:one_dict_object_at_several_positions")
        t.append("reload=" + case.get("reload", "serialised"))
        t.append("prev=" + ("passed" if case.get("pass_prev") else "default"))
        if case.get("loads"):
            ld = case["loads"]
            N = len(case["dicts"])
            t.append("load:target=" + load_kind(case))
            t.append(f"load:saved_order={N},target=" + ("default" if ld["target"]["dicts"] is None
                                                        else "order%d" % len(ld["target"]["dicts"])))
            pre = [len(x["dicts"]) for x in ld["seq"][:-1]]
            t.append(f"load:earlier_loads={len(pre)}")
            if pre:
                t.append("load:last_earlier_load_" + ("lower" if pre[-1] < N else "equal" if pre[-1] == N else "higher")
                         + "_order")
            if len(pre) == 2:
                t.append("load:chain_" + ("up" if pre[0] < pre[1] else "down" if pre[0] > pre[1] else "level"))
            cur = pre[-1] if pre else (0 if ld["target"]["dicts"] is None else len(ld["target"]["dicts"]))
            if N == 1 and cur >= 2:
                t.append("load:unigram_model_into_instance_holding_order>=2")
            t.append("load:target_sos=" + ("same" if ld["target"]["sos"] == sos else "other_of_the_class"))
            for x in ld["seq"]:
                t.append("load:via=" + x["via"])
        steps = case.get("steps", [])
        if steps:
            t.append(f"reuse:constructions={len(steps) + 1}")
            istep = impl.get("steps", []) if isinstance(impl, dict) else []
            ctors = [case.get("ctor", "positional")] + [st["ctor"] for st in steps]
            outcome = ["rejected" if (isinstance(impl, dict) and "build_error" in impl) else "built"] + \
                      ["rejected" if "build_error" in o else "built" for o in istep]
            for k, st in enumerate(steps):
                t.append("reuse:sos_%s->%s%s" % (sos_class(V, sos), sos_class(V, st["sos"]),
                                                 "(same)" if st["sos"] == sos else ""))
                t.append("reuse:later_ctor=" + st["ctor"])
                if any(is_destructive(c) for c in ctors[:k + 1]):
                    t.append("reuse:after_a_destructive_construction")
                if k + 1 < len(outcome):
                    t.append("reuse:%s_then_%s" % (outcome[k], outcome[k + 1]))
            if not (0 <= sos < V) or any(not (0 <= st["sos"] < V) for st in steps):
                outs = {x for x in [sos] + [st["sos"] for st in steps] if not 0 <= x < V}
                if any(x in e["key"] for d in case["dicts"] for e in d for x in outs):
                    t.append("reuse:table_mentions_an_out_of_vocabulary_sos")
        if isinstance(impl, dict) and "hist_is_contiguous" in impl:
            t.append("hist.is_contiguous=" + str(impl["hist_is_contiguous"]))
        if isinstance(impl, dict) and "build" in impl:
            t.append(f"offsets_bits={impl['build']['offBits']}")
            n_listed = sum(len(d) for d in case["dicts"])
            n_nodes = len(impl["build"]["logps"]) - (len(case["dicts"]) - 1)
            if n_nodes > n_listed:
                t.append("implicit_nodes_added")
            if any(e["logp"] == NEG_INF for d in case["dicts"] for e in d):
                t.append("has_-inf_entry")
            if not (0 <= sos < V) and any(sos in e["key"] for d in case["dicts"] for e in d):
                t.append("sos_inside_keys")
        if isinstance(impl, dict) and "build_error" in impl:
            t.append("build_error:" + impl["build_error"])
        return t

    def shrink(self, case):
        if case["kind"] == "arpa":
            for k, v in (("entry", "fileobj"), ("ftype", "float"), ("token2id", False), ("logger", False),
                         ("call", "keyword"), ("style", "fixed"), ("numeric_tokens", False),
                         ("blank_lines", False), ("implicit", False), ("variant", None), ("reread", False)):
                if case.get(k) != v:
                    yield dict(case, **{k: v})
            dicts = case["dicts"]
            if len(dicts) > 1 and dicts[-2]:
                yield dict(case, dicts=dicts[:-2] + [[{"key": e["key"], "logp": e["logp"]} for e in dicts[-2]]])
            for n in range(len(dicts) - 1, -1, -1):
                if len(dicts[n]) > 1:
                    for i in range(len(dicts[n])):
                        yield dict(case, dicts=dicts[:n] + [dicts[n][:i] + dicts[n][i + 1:]] + dicts[n + 1:])
            return
        if case["kind"] != "table":
            return
        dicts = case["dicts"]
        if (case.get("layout") or {}).get("kind", "contig") != "contig":
            yield dict(case, layout={"kind": "contig", "salt": 0})
        if case.get("hist_dtype", "int64") != "int64":
            yield dict(case, hist_dtype="int64")
        if case.get("ctor", "positional") != "positional":
            yield dict(case, ctor="positional")
        if case.get("reload", "serialised") != "serialised":
            yield dict(case, reload="serialised")
        if case.get("pass_prev"):
            yield dict(case, pass_prev=False)
        if case.get("alias"):
            yield {k: v for k, v in case.items() if k != "alias"}
        if case.get("loads"):
            ld = case["loads"]
            yield {k: v for k, v in case.items() if k != "loads"}
            for i in range(len(ld["seq"]) - 1):
                yield dict(case, loads=dict(ld, seq=ld["seq"][:i] + ld["seq"][i + 1:]))
            if ld["target"]["dicts"] is not None:
                yield dict(case, loads=dict(ld, target=dict(ld["target"], dicts=None)))
                if ld["target"].get("ctor", "positional") != "positional":
                    yield dict(case, loads=dict(ld, target=dict(ld["target"], ctor="positional")))
            if ld["target"]["sos"] != case["sos"]:
                yield dict(case, loads=dict(ld, target=dict(ld["target"], sos=case["sos"], dicts=None)))
            for i, x in enumerate(ld["seq"]):
                if x["via"] != "serialised":
                    yield dict(case, loads=dict(ld, seq=ld["seq"][:i] + [dict(x, via="serialised")] + ld["seq"][i + 1:]))
        steps = case.get("steps", [])
        if steps:
            yield {k: v for k, v in case.items() if k != "steps"}
            if len(steps) > 1:
                for i in range(len(steps)):
                    yield dict(case, steps=steps[:i] + steps[i + 1:])
            for i, st in enumerate(steps):
                if st["ctor"] != "positional":
                    yield dict(case, steps=steps[:i] + [dict(st, ctor="positional")] + steps[i + 1:])
        # fewer positions / batch elements
        if len(case["hist"]) > 0:
            T = len(case["hist"]) - 1
            yield dict(case, hist=case["hist"][:-1], chunks=[c for c in case["chunks"] if c <= T + 2],
                       idxs=[[min(i, T) for i in h] for h in case["idxs"]])
        if case["B"] > 1:
            yield dict(case, B=case["B"] - 1, hist=[r[:-1] for r in case["hist"]],
                       idxs=[h if len(h) == 1 else h[:-1] for h in case["idxs"]])
        if len(case["idxs"]) > 1:
            yield dict(case, idxs=case["idxs"][:1])
            yield dict(case, idxs=case["idxs"][1:])
        if len(case["chunks"]) > 1:
            yield dict(case, chunks=case["chunks"][:1])
        # drop the highest order
        if len(dicts) > 1 and dicts[-2]:
            yield dict(case, dicts=dicts[:-2] + [[{"key": e["key"], "logp": e["logp"]} for e in dicts[-2]]])
        # drop entries
        for n in range(len(dicts) - 1, -1, -1):
            d = dicts[n]
            if len(d) > 8:
                yield dict(case, dicts=dicts[:n] + [d[:len(d) // 2]] + dicts[n + 1:])
                yield dict(case, dicts=dicts[:n] + [d[len(d) // 2:]] + dicts[n + 1:])
            elif len(d) > (1 if n == len(dicts) - 1 else 0):
                for i in range(len(d)):
                    yield dict(case, dicts=dicts[:n] + [d[:i] + d[i + 1:]] + dicts[n + 1:])
        if case["V"] > 1 and all(t < case["V"] - 1 for d in dicts for e in d for t in e["key"]) \
                and all(t < case["V"] - 1 for r in case["hist"] for t in r) and case["sos"] < case["V"] - 1 \
                and all(st["sos"] != case["V"] - 1 for st in case.get("steps", [])) and not case.get("loads"):
            yield dict(case, V=case["V"] - 1)


def short_(x, n=160):
    t = repr(x)
    return t if len(t) <= n else t[:n] + "..."


def first_diff3(a, b):
    if len(a) != len(b):
        return f"length {len(a)} vs {len(b)}"
    for t, (x, y) in enumerate(zip(a, b)):
        for bb, (r, s) in enumerate(zip(x, y)):
            for w, (p, q) in enumerate(zip(r, s)):
                if p != q:
                    return f"[t={t}][b={bb}][w={w}] got {p} want {q}"
    return "shape"


CHECK = C06()
