"""C11 — transcript files read back exactly what was written.

Correspondence: the real `pydrobert.torch.data` functions (read_trn / write_trn / read_ctm /
write_ctm / read_textgrid / write_textgrid / transcript_to_token / token_to_transcript) are run
in-process on generated transcripts; the Lean model (`Model/Transcripts.lean`) produces the file
text / records and the value read back, the Lean spec (`Spec/Transcripts.lean`) the oracle.
Every write goes through a path and through an open file (compared byte for byte), every read
through both (compared for equality), under every option of the case.

Case kinds: trn (trees), trn_lines (raw lines incl. malformed), ctm, ctm_text (hand-written ctm text:
comments, confidence column, odd spacing, number spellings, malformed lines), textgrid, tg_doc (TextGrid
files with several tiers in the long and the short layout, tier selected by name / index), frames, dispatch.

Every file is additionally written through an `io.StringIO` and through a file opened with
`newline="\r\n"`, and the CRLF file is read back in text mode and without newline translation.
"""
import ast
import atexit
import collections
import collections.abc
import io
import itertools
import json
import os
import shutil
import subprocess
import sys
import tempfile
import types
import warnings
from fractions import Fraction
from pathlib import Path

from common import framework
from common.framework import PropertyCheck, Failure, frac_str

_TMP = None
SIG_POINT_TIER = "C11.dispatch.write_textgrid.point_tier_dropped"


def tmpdir():
    global _TMP
    if _TMP is None:
        _TMP = tempfile.mkdtemp(prefix="c11-")
        atexit.register(shutil.rmtree, _TMP, ignore_errors=True)
    return _TMP


def data():
    import pydrobert.torch.data as d
    return d


def F(s):
    return Fraction(s)


def fl(s):
    """exact rational string -> the float the harness hands to the implementation"""
    return float(Fraction(s))


def same_float(model_frac, impl_frac):
    """model value is an exact rational (e.g. 12/100), the implementation holds the nearest double"""
    return float(Fraction(model_frac)) == float(Fraction(impl_frac))


# ----------------------------------------------------------------------------- numeric presentation
# The same NUMBER handed over as another numeric TYPE (round 4). `float` in a signature is what callers read as "a
# real number": np.cumsum / np.arange give np.float64 / np.int64, a feature pipeline float32, `tensor[i]` a 0-dim
# tensor, a sample-accurate aligner Fractions. A case carries `num = {role: type name}`; a role that is absent is
# handed over as the plain Python float / int every other stream uses. The value is always EXACTLY the case's
# rational (integer types only hold integral values: a value with a fractional part goes in the float type of the
# same family, which is the mixed column np.arange / tensor arithmetic produce), so model, spec and predicate are
# untouched: the round trip must hold whatever type carries the number.
NUM_TYPES = ("int", "float", "np.float64", "np.float32", "np.int64", "np.int32", "np.0d", "torch.float64",
             "torch.float32", "torch.int64", "Fraction", "Decimal")
_NUM_INT_FALLBACK = {"int": "float", "np.int64": "np.float64", "np.int32": "np.float64", "torch.int64": "torch.float64"}
# str() / format(x, "") of these prints what repr(float) prints (for the values the numeric stream generates)
NUM_TEXT_AS_FLOAT = {None, "float", "np.float64", "np.float32", "np.0d", "torch.float64", "torch.float32"}
# The domain: (role, type) pairs the UNMODIFIED tree takes and round-trips (established by `numeric_sweep`, which is
# re-run and recorded in the evidence on every run; a pair in this table that stops working is a failure, a pair
# outside it is recorded and not judged). Outside: Fraction times in a ctm (printed "1/4", which no ctm reader
# parses), float-typed `precision` / `tier_id` (format spec / list index), 0-dim tensors wherever `np.isreal` looks
# at the element (write_trn, transcript_to_token), np.float32 / Decimal / tensor frame times (assignment into the
# long tensor is refused), a Decimal frame shift (`float * Decimal` is a TypeError that the `except TypeError` around
# the time conversion swallows: the seconds land in the tensor unconverted - recorded as "differs"), ids that are not
# integers by type (an id is an integer by meaning; 5.0 happens to be taken).
_INTS = ("int", "np.int64", "np.int32", "torch.int64")
NUM_DOMAIN = {
    "ctm.time": tuple(t for t in NUM_TYPES if t != "Fraction"),
    "textgrid.time": NUM_TYPES,
    "textgrid.precision": _INTS,
    "textgrid.tier_id": _INTS,
    "trn.time": tuple(t for t in NUM_TYPES if not t.startswith("torch.")),
    "trn.workers": ("int", "np.int64", "np.int32"),
    "frames.time": ("int", "float", "np.float64", "np.int64", "np.int32", "np.0d", "Fraction"),
    "frames.shift": ("int", "float", "np.float64", "np.int64", "np.int32", "np.0d", "torch.float64", "torch.float32",
                     "torch.int64", "Fraction"),
    "frames.id": _INTS,
}


def present(x, kind):
    """the exact rational `x` as a value of the numeric type `kind`"""
    x = Fraction(x)
    if kind is None:
        return float(x)          # every other stream: the nearest double
    if kind in _NUM_INT_FALLBACK and x.denominator != 1:
        kind = _NUM_INT_FALLBACK[kind]
    if kind == "int":
        return int(x)
    if kind == "float":
        v = float(x)
    elif kind == "Fraction":
        return x
    elif kind == "Decimal":
        import decimal
        v = decimal.Decimal(x.numerator) / decimal.Decimal(x.denominator)
    elif kind.startswith("np."):
        import numpy as np
        if kind == "np.0d":
            v = np.array(float(x))
        elif kind in ("np.int64", "np.int32"):
            return getattr(np, kind[3:])(int(x))
        else:
            v = getattr(np, kind[3:])(float(x))
    elif kind.startswith("torch."):
        import torch
        if kind == "torch.int64":
            return torch.tensor(int(x), dtype=torch.int64)
        v = torch.tensor(float(x), dtype=getattr(torch, kind[6:]))
    else:
        raise ValueError(kind)
    if Fraction(str(v)) != x if kind == "Decimal" else Fraction(float(v)) != x:
        raise RuntimeError(f"generator: {x} is not exactly representable as {kind}")
    return v


def num_of(case, role):
    return (case.get("num") or {}).get(role)


def numeric_sweep():
    """Every (role, numeric type) on one small fixed input against the real code: 'ok' (accepted and the round trip
    holds), 'raises <Error>' or 'differs: ...'. Recorded in the evidence; judged only inside NUM_DOMAIN."""
    d = data()
    base = [("a", Fraction(1, 4), Fraction(1)), ("b", Fraction(1), Fraction(1)), ("c", Fraction(2), Fraction(7, 2))]
    as_f = [(tok, float(s), float(e)) for tok, s, e in base]

    def timed(kind):
        return [(tok, present(s, kind), present(e, kind)) for tok, s, e in base]

    def floats(tr):
        return [(tok, float(s), float(e)) for tok, s, e in tr]

    def ctm_time(kind):
        f = io.StringIO()
        d.write_ctm([("u", timed(kind))], f)
        got = d.read_ctm(io.StringIO(f.getvalue()))
        return got == [("u", as_f)] or f"wrote {f.getvalue()!r} read {got!r}"

    def tg_time(kind):
        f = io.StringIO()
        d.write_textgrid(timed(kind), f, start_time=present(0, kind), end_time=present(4, kind))
        got = d.read_textgrid(io.StringIO(f.getvalue()), 0, "sil")
        # (gaps are filled from the tier's own bounds, min start / max end, not from the recording's)
        want = (as_f[:2] + [("sil", 1.0, 2.0), as_f[2]], 0.25, 3.5)
        head = f.getvalue().split("\n")[2:4]
        return (got == want and head == ["0.000", "4.000"]) or f"header {head} read {got!r}"

    def tg_precision(kind):
        f, g = io.StringIO(), io.StringIO()
        d.write_textgrid(as_f, f, precision=present(2, kind))
        d.write_textgrid(as_f, g, precision=2)
        return f.getvalue() == g.getvalue() or f"wrote {f.getvalue().split(chr(10))[2:4]}"

    def tg_tier_id(kind):
        f = io.StringIO()
        d.write_textgrid(as_f, f)
        got = [d.read_textgrid(io.StringIO(f.getvalue()), present(i, kind))[0] for i in (0, -1)]
        return got == [as_f, as_f] or f"read {got!r}"

    def trn_time(kind):
        f = io.StringIO()
        d.write_trn([("u", timed(kind))], f)
        return f.getvalue() == "a b c (u)\n" or f"wrote {f.getvalue()!r}"

    def trn_workers(kind):
        with fake_pool() as fp:
            got = d.read_trn(io.StringIO("a (u)\nb (v)\n"), False, present(2, kind), present(3, kind))
            calls = [(int(c["processes"]), int(c["chunksize"])) for c in fp.calls]
            got0 = d.read_trn(io.StringIO("a (u)\nb (v)\n"), False, present(0, kind), present(3, kind))
            ncalls = len(fp.calls)
        want = [("u", ["a"]), ("v", ["b"])]
        # what is judged: the transcripts, that the requested number of workers is what the pool gets, and that
        # processes=0 starts no pool. HOW the lines are grouped for the pool (imap's chunksize vs. batches cut by
        # the caller) is the implementation's business (false alarm on harmless rewrite C11-b2, DESIGN 11.3b)
        return (got == want and got0 == want and len(calls) == ncalls >= 1 and all(c[0] == 2 for c in calls)) \
            or f"read {got!r} {got0!r} pool {calls}"

    rows = [[5, 25, 100], [5, 100, 100], [5, 200, 350]]

    def fr_time(kind):
        tok = d.transcript_to_token([(5, s, e) for _, s, e in timed(kind)], None, 10.0)
        back = floats(d.token_to_transcript(tok, None, 10.0))
        return (tok.tolist() == rows and back == [(5, s, e) for _, s, e in as_f]) or f"rows {tok.tolist()} back {back}"

    def fr_shift(kind):
        sh = present(10, kind)
        tok = d.transcript_to_token([(5, s, e) for _, s, e in as_f], None, sh)
        back = floats(d.token_to_transcript(tok, None, sh))
        return (tok.tolist() == rows and back == [(5, s, e) for _, s, e in as_f]) or f"rows {tok.tolist()} back {back}"

    def fr_id(kind):
        tok = d.transcript_to_token([present(5, kind), (present(7, kind), 1.0, 2.0)], None, 10.0)
        tok2 = d.transcript_to_token(["zz", "oov", ("zz", 1.0, 2.0)], {"zz": present(3, kind)}, 10.0, present(9, kind))
        got = tok.tolist() + tok2.tolist()
        want = [[5, -1, -1], [7, 100, 200], [3, -1, -1], [9, -1, -1], [3, 100, 200]]
        return got == want or f"rows {got}"
    roles = {"ctm.time": ctm_time, "textgrid.time": tg_time, "textgrid.precision": tg_precision,
             "textgrid.tier_id": tg_tier_id, "trn.time": trn_time, "trn.workers": trn_workers,
             "frames.time": fr_time, "frames.shift": fr_shift, "frames.id": fr_id}
    table = {}
    for role, fn in roles.items():
        table[role] = {}
        for kind in NUM_TYPES:
            try:
                with warnings.catch_warnings():
                    warnings.simplefilter("ignore")
                    r = fn(kind)
                table[role][kind] = "ok" if r is True else "differs: " + str(r)[:160]
            except Exception as e:
                table[role][kind] = "raises " + type(e).__name__
    return table


# ----------------------------------------------------------------------------- trn helpers
def py_item(x):
    """JSON item -> what read_trn produces *inside* an alternate (nested lists)."""
    if isinstance(x, str):
        return x
    return [[py_item(y) for y in b] for b in x]


def py_top(x, bare=False, kind=None):
    """bare: a top-level alternate handed to write_trn as the list itself ("x could be the token or a
    list of alternates") instead of the `(alts, -1, -1)` wrapping read_trn produces."""
    if isinstance(x, dict):
        return (x["tok"], present(x["s"], kind), present(x["e"], kind))
    if isinstance(x, str):
        return x
    return py_item(x) if bare else (py_item(x), -1, -1)


_UNSAFE = {"\ue085": "\x85", "\ue028": "\u2028", "\ue029": "\u2029"}


def unescape(x):
    """Undo the driver's replacement of the three line-breaking code points its JSON printer leaves raw
    (the framework splits the driver output with str.splitlines())."""
    if isinstance(x, str):
        for a, b in _UNSAFE.items():
            if a in x:
                x = x.replace(a, b)
        return x
    if isinstance(x, list):
        return [unescape(y) for y in x]
    if isinstance(x, dict):
        return {k: unescape(v) for k, v in x.items()}
    return x


class PlainMapping(collections.abc.Mapping):
    """A Mapping that is not a dict (only `__getitem__` raising KeyError, `__iter__`, `__len__`)."""

    def __init__(self, d):
        self._d = dict(d)

    def __getitem__(self, k):
        return self._d[k]

    def __iter__(self):
        return iter(self._d)

    def __len__(self):
        return len(self._d)


MAP_TYPES = ["dict", "proxy", "plain", "chain", "ordered"]


def as_mapping(d, kind):
    if d is None or kind in (None, "dict"):
        return d
    if kind == "proxy":
        return types.MappingProxyType(d)
    if kind == "plain":
        return PlainMapping(d)
    if kind == "chain":
        items = list(d.items())
        return collections.ChainMap(dict(items[:len(items) // 2]), dict(items[len(items) // 2:]))
    if kind == "ordered":
        return collections.OrderedDict(reversed(list(d.items())))
    raise ValueError(kind)


def canon_item(x):
    if isinstance(x, str):
        return x
    if isinstance(x, tuple):
        if len(x) == 3 and x[1] == -1 and x[2] == -1 and not isinstance(x[0], str):
            return canon_item(x[0])
        raise ValueError(f"unexpected tuple in trn transcript: {x!r}")
    return [[canon_item(y) for y in b] for b in x]


def canon_trn(res):
    return [{"utt": u, "t": [canon_item(x) for x in t]} for u, t in res]


def has_alt(t):
    return any(not isinstance(x, (str, dict)) for x in t)


def write_both(write, stem):
    """write(target) through a path and through an open file -> (bytes_path, bytes_file)."""
    d = tmpdir()
    p1, p2 = os.path.join(d, stem + ".path"), os.path.join(d, stem + ".file")
    for p in (p1, p2):
        if os.path.exists(p):
            os.remove(p)
    r1 = r2 = None
    try:
        write(p1)
    except Exception as e:
        r1 = type(e).__name__
    try:
        with open(p2, "w") as f:
            write(f)
    except Exception as e:
        r2 = type(e).__name__
    b1 = open(p1, "rb").read() if os.path.exists(p1) and r1 is None else None
    b2 = open(p2, "rb").read() if r2 is None else None
    return (r1, b1), (r2, b2), p2


def write_more(write, stem, text):
    """The other kinds of "already open file": an io.StringIO (must hold the same characters) and a
    file opened with newline="\r\n" (must hold the same characters with CRLF line ends).
    -> (stringio_same, crlf_same, path of the CRLF file)"""
    sio = io.StringIO()
    try:
        write(sio)
        sio_same = sio.getvalue() == text
    except Exception:
        sio_same = False
    p3 = os.path.join(tmpdir(), stem + ".crlf")
    try:
        with open(p3, "w", newline="\r\n") as f:
            write(f)
        with open(p3, "rb") as f:
            crlf_same = f.read() == text.replace("\n", "\r\n").encode("utf-8")
    except Exception:
        crlf_same = False
    return sio_same, crlf_same, p3


def read_crlf(read, path):
    """A CRLF file read in text mode (newline translation) and raw (newline="")."""
    out = {}
    for how, kw in (("text", {}), ("raw", {"newline": ""})):
        try:
            with open(path, **kw) as f:
                out[how] = {"ok": read(f)}
        except Exception as e:
            out[how] = {"error": type(e).__name__}
    return out


def read_both(read, path):
    """read(source) through a path and through an open file."""
    def one(src_is_path):
        try:
            if src_is_path:
                return {"ok": read(path)}
            with open(path) as f:
                return {"ok": read(f)}
        except Exception as e:
            return {"error": type(e).__name__}
    return one(True), one(False)


class FakePool:
    """Stands in for torch.multiprocessing.Pool: same contract (ordered imap over chunks), no
    processes; records how it was called."""
    calls = []

    def __init__(self, processes=None, *a, **k):
        self.processes = processes

    def __enter__(self):
        return self

    def __exit__(self, *a):
        return False

    def imap(self, func, iterable, chunksize=1):
        FakePool.calls.append({"processes": self.processes, "chunksize": chunksize})
        if chunksize < 1:          # multiprocessing.pool.Pool.imap does exactly this, before touching the iterable
            raise ValueError("Chunksize must be 1+, not {0:n}".format(chunksize))
        items = list(iterable)
        out = []
        for i in range(0, len(items), chunksize):
            out.extend([func(x) for x in items[i:i + chunksize]])
        return iter(out)

    def close(self):
        pass

    def join(self):
        pass


class fake_pool:
    def __enter__(self):
        import torch.multiprocessing as mp
        self.mp, self.saved = mp, mp.Pool
        FakePool.calls = []
        mp.Pool = FakePool
        return FakePool

    def __exit__(self, *a):
        self.mp.Pool = self.saved
        return False


# ----------------------------------------------------------------------------- AST dispatch table
PAYLOAD = {"transcripts", "transcript"}


def ast_dispatch_table():
    src = (framework.REPO / "src" / "pydrobert" / "torch" / "_parsing.py").read_text()
    tree = ast.parse(src)
    table = {}
    for fn in tree.body:
        if not isinstance(fn, ast.FunctionDef):
            continue
        params = [a.arg for a in fn.args.args]
        for st in fn.body:
            if not (isinstance(st, ast.If) and isinstance(st.test, ast.Call)
                    and getattr(st.test.func, "id", None) == "isinstance"
                    and len(st.test.args) == 2 and getattr(st.test.args[1], "id", None) == "str"):
                continue
            file_param = st.test.args[0].id
            call = None
            for node in ast.walk(st):
                if isinstance(node, ast.Call) and getattr(node.func, "id", None) == fn.name:
                    call = node
                    break
            if call is None:
                continue
            fwd = []
            for i, a in enumerate(call.args):
                if i < len(params) and isinstance(a, ast.Name) and a.id == params[i]:
                    fwd.append(params[i])
            for kw in call.keywords:
                if kw.arg in params and isinstance(kw.value, ast.Name) and kw.value.id == kw.arg:
                    fwd.append(kw.arg)
            options = [p for p in params if p != file_param and p not in PAYLOAD]
            table[fn.name] = {"options": options,
                              "forwarded": [p for p in options if p in fwd]}
            break
    return table


# ----------------------------------------------------------------------------- generators
# beyond Latin-1: CJK, astral plane, combining mark, right-to-left, zero-width space / BOM (not white space
# for str.split/strip), title-case digraph
TOK_UNI = ["日本語", "\U0001F600", "e\u0301", "שלום", "a\u200bb", "\ufeffx", "ǅ"]
# the delimiters of the *other* formats are ordinary characters here: '"' (TextGrid), ';;' (ctm), '(u)' (trn)
TOK_ANY = ["a", "b", "cat", "dog", "abc", "x", "12", "3.5", "-1", "1e3", "0", "é", "ß", "(", ")", "a(b", "a)",
           "@", "w'", "<unk>", "A-B", "under_score", "q;;r", '"', 'a"b', '""', "<exists>", ";", ";;"] + TOK_UNI
TOK_TOP_ONLY = ["/", "}", "a/b", "x}", "}/"]
TOK_TIMED = [t for t in TOK_ANY if ";;" not in t] + ["{", "/", "}", "a;b", "(u)", "{a/b}", ";a;"]   # ctm: ';;' starts a comment
# TextGrid labels: anything without '"'; white space and new lines are part of the label
TOK_TG = [t for t in TOK_ANY if '"' not in t] + ["two words", "", "{", "/", "(u)", "a\nb", "\n", "1.5\n2.5", "x ", " lead",
                                                 "a\tb", "IntervalTier", "a\u3000b"]
# white space of str.strip()/str.split() beyond ASCII: never expressible in trn/ctm (malformed stream)
TOK_WHITE = ["a\u3000b", "\u3000a", "a\xa0", "\xa0a", "\u2028x", "a\x1cb", "a\x85", "x\u2003", "a\rb", "\u1680"]
UTTS = ["u1", "utt 2", " lead", "trail ", "a  b", "940328-A", "3", "1.5", "", "é ü", "x-{y}", "a/b", "{", "}",
        "日本", "u\u3000x", '"q"', ";;c", "\U0001F600 1"]


def gen_tok(rng, in_alt):
    pool = TOK_ANY if in_alt or rng.random() < 0.8 else TOK_TOP_ONLY
    return rng.choice(pool)


def gen_seq(rng, depth, in_alt, n_max=4, allow_empty=True):
    n = rng.randint(0 if allow_empty else 1, n_max)
    return [gen_item(rng, depth, in_alt) for _ in range(n)]


def gen_item(rng, depth, in_alt):
    if depth > 0 and rng.random() < 0.4:
        nb = rng.randint(1, 3)
        bs = [gen_seq(rng, depth - 1, True, 3, allow_empty=True) for _ in range(nb - 1)]
        bs.append(gen_seq(rng, depth - 1, True, 3, allow_empty=False))
        return bs
    return gen_tok(rng, in_alt)


def gen_top(rng, depth, timed=0.15):
    x = gen_item(rng, depth, False)
    if isinstance(x, str) and rng.random() < timed:
        s = 0 if rng.random() < 0.2 else rng.randrange(0, 64 * 20)
        if rng.random() < 0.2:
            return {"tok": x, "s": frac_str(Fraction(s, 64)), "e": frac_str(Fraction(s, 64))}
        return {"tok": x, "s": frac_str(Fraction(s, 64)), "e": frac_str(Fraction(s + rng.randrange(0, 200), 64))}
    return x


def grid_time(rng, lo=0, hi=30):
    return Fraction(rng.randrange(lo * 64, hi * 64 + 1), 64)


def gen_timed(rng, n, hi=30, sort=False, zero_len=0.15, toks=None, at_zero=0.08):
    out = []
    for _ in range(n):
        # time 0.0 is a legal start (and, with a zero-length segment, a legal end): the falsy number
        s = Fraction(0) if rng.random() < at_zero else grid_time(rng, 0, hi)
        e = s if rng.random() < zero_len else s + Fraction(rng.randrange(1, 64 * 3), 64)
        out.append([rng.choice(toks or TOK_TIMED), s, e])
    if sort:
        out.sort(key=lambda x: x[1])
    return [[t, frac_str(s), frac_str(e)] for t, s, e in out]


# ----------------------------------------------------------------------------- hand-written ctm text
def dec_str(x):
    """exact decimal expansion of a dyadic rational (at least one fractional digit), like repr(float)"""
    x = Fraction(x)
    p = 1
    while (x * 10 ** p).denominator != 1:
        p += 1
    m = int(x * 10 ** p)
    sign = "-" if m < 0 else ""
    m = abs(m)
    return f"{sign}{m // 10 ** p}.{m % 10 ** p:0{p}d}"


def spell_number(rng, x):
    """one of the spellings of the non-negative dyadic x that float() accepts (all exactly x)"""
    x = Fraction(x)
    base = dec_str(x)
    ip, fp = base.split(".")
    forms = [base, base, base + "0", "0" + base, "+" + base, f"{ip}{fp}e-{len(fp)}", f"{ip}{fp}E-{len(fp)}",
             dec_str(x * 10) + "e-1", dec_str(x / 10 ** 2) + "e+2", dec_str(x / 10) + "E1"]
    if fp == "0":
        forms += [ip, ip + ".", ip + "e0", ip + "E+0"]
    if ip == "0":
        forms += ["." + fp]
    return rng.choice(forms)


def gen_ctm_text(rng):
    """records -> lines with the liberties a hand-written / third-party ctm takes"""
    wfns = ["w1", "w2", "940328", "é", "日本"]
    chans = ["A", "B", "1"]
    n = rng.randint(0, 7)
    recs = []
    for _ in range(n):
        s = Fraction(0) if rng.random() < 0.08 else grid_time(rng, 0, rng.choice([3, 30]))
        du = Fraction(0) if rng.random() < 0.15 else Fraction(rng.randrange(1, 200), 64)
        recs.append([rng.choice(wfns), rng.choice(chans), frac_str(s), frac_str(du), rng.choice(TOK_TIMED)])
    if rng.random() < 0.5:
        recs.sort(key=lambda r: (r[0], r[1], Fraction(r[2])))
    use_map = rng.random() < 0.5
    wc2utt = None
    if use_map:
        keys = sorted({(r[0], r[1]) for r in recs})
        r = rng.random()
        if keys and r < 0.15:
            keys = keys[:-1]                   # KeyError on read
        elif r < 0.25:
            keys = []                          # an empty mapping is a mapping: KeyError on the first record
        wc2utt = [[w, c, f"utt-{w}-{c}"] for w, c in keys]
    lines, well_formed = [], True          # lines: [text, index of its record or None]
    bad = rng.random() < 0.25
    bad_at = rng.randrange(len(recs)) if recs and bad else None
    eol = rng.choice(["\n", "\n", "\r\n"])
    for i, (w, c, s, du, tok) in enumerate(recs):
        if rng.random() < 0.15:
            lines.append([rng.choice(["", "   ", ";; a comment", "  ;;", ";;;; w A 1.0 1.0 x", "\t"]), None])
        cols = [w, c, spell_number(rng, s), spell_number(rng, du), tok]
        if rng.random() < 0.3:
            cols.append(rng.choice(["0.9", "1", "NA", "-1e3", "x"]))          # confidence column
        if i == bad_at:
            well_formed = False
            how = rng.choice(["few", "many", "nan_start", "nan_dur", "neg", "rev", "alt"])
            if how == "few":
                cols = cols[:rng.choice([1, 2, 3, 4])]
            elif how == "many":
                cols = cols[:5] + ["0.5", "extra"]
            elif how == "nan_start":
                cols[2] = rng.choice(["abc", "1..2", "--1", "1e", "e5", ".", "1,5", "0x10"])
            elif how == "nan_dur":
                cols[3] = rng.choice(["abc", "1.2.3", "+-1", "", "-"]) or "x"
            elif how == "neg":
                cols[2] = "-" + dec_str(Fraction(s) + 1)
            elif how == "rev":
                cols[3] = "-" + dec_str(Fraction(du) + Fraction(1, 64))
            elif how == "alt":
                cols[4] = rng.choice(["<ALT_BEGIN>", "<ALT>", "<ALT_END>"])    # read as ordinary tokens
                recs[i] = [w, c, s, du, cols[4]]
                well_formed = True
        seps = [rng.choice([" ", " ", "  ", "\t", " \t ", "\u3000"]) for _ in cols]
        line = rng.choice(["", "", " ", "\t"]) + "".join(a + b for a, b in zip(cols, seps)).rstrip() \
            + rng.choice(["", "", " ", "  ;; note", " ;;"] + ([] if cols[-1].endswith(";") else [";;x"]))
        lines.append([line, i])
    case = {"kind": "ctm_text", "lines": lines, "eol": eol, "final_eol": not (lines and rng.random() < 0.1),
            "wc2utt": wc2utt, "recs": recs, "well_formed": well_formed, "map_type": rng.choice(MAP_TYPES)}
    case["text"] = ctm_text_of(case)
    return case


def ctm_text_of(case):
    text = "".join(l + case["eol"] for l, _ in case["lines"])
    if case["lines"] and not case["final_eol"]:
        text = text[:-len(case["eol"])]        # no newline at the end of the file
    return text


# ----------------------------------------------------------------------------- TextGrids with several tiers
def fmt_p(x, p):
    return f"{float(Fraction(x)):.{p}f}"


def tg_doc_text(case):
    """Serialise the tiers the way Praat does: "long" (`xmin = ...`, `item [1]:`) or "short" layout."""
    p, tiers = case["precision"], case["tiers"]
    lo = fmt_p(min(Fraction(t["tmin"]) for t in tiers), p)
    hi = fmt_p(max(Fraction(t["tmax"]) for t in tiers), p)
    # Praat puts an empty line after the two header lines; the long layout is only recognised with it, the
    # short one also without (the library's own writer and tests leave it out)
    blank = "\n" if case.get("blank_line", True) or case["layout"] == "long" else ""
    head = 'File type = "ooTextFile"\nObject class = "TextGrid"\n' + blank
    out = [head]
    if case["layout"] == "long":
        out.append(f"xmin = {lo} \nxmax = {hi} \ntiers? <exists> \nsize = {len(tiers)} \nitem []: \n")
        for i, t in enumerate(tiers):
            cls = "TextTier" if t["point"] else "IntervalTier"
            out.append(f'    item [{i + 1}]:\n        class = "{cls}" \n        name = "{t["name"]}" \n'
                       f'        xmin = {fmt_p(t["tmin"], p)} \n        xmax = {fmt_p(t["tmax"], p)} \n')
            if t["point"]:
                out.append(f'        points: size = {len(t["entries"])} \n')
                for j, (tok, a, _) in enumerate(t["entries"]):
                    out.append(f'        points [{j + 1}]:\n            number = {fmt_p(a, p)} \n'
                               f'            mark = "{tok}" \n')
            else:
                out.append(f'        intervals: size = {len(t["entries"])} \n')
                for j, (tok, a, b) in enumerate(t["entries"]):
                    out.append(f'        intervals [{j + 1}]:\n            xmin = {fmt_p(a, p)} \n'
                               f'            xmax = {fmt_p(b, p)} \n            text = "{tok}" \n')
    else:
        out.append(f"{lo}\n{hi}\n<exists>\n{len(tiers)}\n")
        for t in tiers:
            cls = "TextTier" if t["point"] else "IntervalTier"
            out.append(f'"{cls}"\n"{t["name"]}"\n{fmt_p(t["tmin"], p)}\n{fmt_p(t["tmax"], p)}\n{len(t["entries"])}\n')
            for tok, a, b in t["entries"]:
                out.append(f'{fmt_p(a, p)}\n"{tok}"\n' if t["point"] else f'{fmt_p(a, p)}\n{fmt_p(b, p)}\n"{tok}"\n')
    return "".join(out)


TG_DOC_TOKS = ["a", "b", "cat", "", "two words", "é", "日本語", "12", "3.5", "{", ";;", "sil", "x y z", "(u)"]


def gen_tg_doc(rng):
    ntier = rng.choice([1, 2, 2, 3, 3, 4])
    names = [rng.choice(["words", "phones", "pts", "a", "b", "my tier", "1", "é", "", "0"]) for _ in range(ntier)]
    tiers = []
    # 40 %: a file whose times are whole numbers of its last printed digit (precision 0..9), with unlabelled stretches
    # of 0, 1, 2, 3, 10 ... units before the first entry, between entries and after the last one
    ulp_p = rng.choice([0, 2, 3, 4, 4, 5, 5, 6, 7, 8, 9]) if rng.random() < 0.4 else None
    for name in names:
        point = rng.random() < 0.35
        n = rng.choice([0, 1, 2, 3, 5])
        if ulp_p is not None:
            unit = Fraction(1, 10 ** ulp_p)
            k = rng.choice([0, rng.randrange(0, 50), rng.randrange(0, 10 ** min(ulp_p + 1, 6))])
            tmin = k * unit
            ents = []
            for _ in range(n):
                k += rng.choice(ULP_STEPS + [rng.randrange(1, 400)])
                ln = 0 if point else rng.choice(ULP_STEPS[2:] + [rng.randrange(1, 400)])
                ents.append([rng.choice(TG_DOC_TOKS), frac_str(k * unit), frac_str((k + ln) * unit)])
                k += ln
            k += rng.choice(ULP_STEPS)
            tiers.append({"name": name, "point": point, "tmin": frac_str(tmin), "tmax": frac_str(k * unit),
                          "entries": ents})
            continue
        cur = grid_time(rng, 0, rng.choice([2, 9, 12]))
        tmin = cur - (Fraction(rng.randrange(0, 64), 64) if rng.random() < 0.4 else 0)
        tmin = max(tmin, Fraction(0))
        r0 = rng.random()
        if r0 < 0.12:              # a tier that starts at 0.0 with its first entry later / at 0.0 as well
            tmin = Fraction(0)
        elif r0 < 0.2:
            tmin = cur = Fraction(0)
        ents = []
        for _ in range(n):
            if rng.random() < 0.4:
                cur += Fraction(rng.randrange(1, 128), 64)
            if point:
                ents.append([rng.choice(TG_DOC_TOKS), frac_str(cur), frac_str(cur)])
                cur += Fraction(rng.randrange(0, 64), 64)
            else:
                e = cur + Fraction(rng.randrange(1, 200), 64)
                ents.append([rng.choice(TG_DOC_TOKS), frac_str(cur), frac_str(e)])
                cur = e
        tmax = cur + (Fraction(rng.randrange(0, 64), 64) if rng.random() < 0.4 else 0)
        tiers.append({"name": name, "point": point, "tmin": frac_str(tmin), "tmax": frac_str(tmax), "entries": ents})
    r = rng.random()
    if r < 0.45:
        tier_id = rng.randrange(-ntier - 1, ntier + 1)
    elif r < 0.9:
        tier_id = rng.choice(names)
    else:
        tier_id = "no such tier"
    case = {"kind": "tg_doc", "tiers": tiers, "precision": rng.randint(0, 6) if ulp_p is None else ulp_p,
            "layout": rng.choice(["long", "short"]),
            "blank_line": rng.random() < 0.7, "tier_id": tier_id, "fill": rng.choice(TG_FILLS)}
    if ulp_p is not None:
        case["style"] = "ulp"
        case["fill"] = rng.choice(TG_FILLS + ["sil", ""])
    return case


TG_NAMES = ["transcript", "my tier", "", "words", "1", 'a"b', "é 日本", "IntervalTier", '"']
TG_FILLS = [None, "sil", "a", ""]        # "" is Praat's own label for an unlabelled stretch
TG_DEFAULTS = {"precision": 3, "tier_name": "transcript", "point_tier": None, "start_time": None, "end_time": None,
               "tier_id": 0, "fill": None}


def fine_time(rng, hi):
    """a time on the 2^-14 grid; exact in double, exact decimal expansion"""
    return Fraction(rng.randrange(0, hi * 64 + 1), 64) + Fraction(rng.randrange(0, 256), 1 << 14)


def fine_dur(rng):
    """a duration between about 1e-6 and 1e-3 s (dyadic: exact in double)"""
    k = rng.randint(11, 20)
    return Fraction(rng.randrange(1, (1 << min(k - 10, 4)) + 1), 1 << k)


def gen_tg_transcript(rng, style):
    n = rng.choice([1, 2, 3, 4, 6])
    hi = rng.choice([5, 9, 30, 120])
    if style == "points":
        return gen_timed(rng, n, hi=hi, sort=True, zero_len=1.0, toks=TOK_TG)
    if style == "free":
        return gen_timed(rng, n, hi=hi, sort=rng.random() < 0.7, toks=TOK_TG)
    if style == "zeros":            # everything at time 0.0
        return [[rng.choice(TOK_TG), "0", "0"] for _ in range(n)]
    if style == "fine":
        # every segment shorter than a millisecond (sample-accurate events); some of them may be exact points
        some_points = rng.random() < 0.3
        cur = Fraction(0) if rng.random() < 0.15 else fine_time(rng, hi)
        t = []
        for _ in range(n):
            r = rng.random()
            if r < 0.3:
                cur += Fraction(rng.randrange(1, 128), 64)
            elif r < 0.75:
                cur += fine_dur(rng)       # an unlabelled stretch of less than a millisecond
            e = cur if some_points and rng.random() < 0.5 else cur + fine_dur(rng)
            t.append([rng.choice(TOK_TG), frac_str(cur), frac_str(e)])
            cur = e
        return t
    # "chain" / "gaps" / "from_zero" (chain or gaps with the first entry at 0.0)
    cur = Fraction(0) if style == "from_zero" else grid_time(rng, 0, hi)
    t = []
    for j in range(n):
        if style != "chain" and rng.random() < 0.5 and not (style == "from_zero" and j == 0 and rng.random() < 0.5):
            cur += Fraction(rng.randrange(1, 128), 64)
        e = cur + Fraction(rng.randrange(1, 200), 64)
        t.append([rng.choice(TOK_TG), frac_str(cur), frac_str(e)])
        cur = e
    return t


def gen_textgrid(rng, style=None):
    fine = style == "fine"
    style = style or rng.choice(["chain", "gaps", "points", "free"])
    t = gen_tg_transcript(rng, style)
    starts = [Fraction(x[1]) for x in t]
    ends = [Fraction(x[2]) for x in t]
    case = {"kind": "textgrid", "t": t, "precision": rng.randint(0, 6),
            "point_tier": rng.choice([None, None, True, False]),
            "tier_name": rng.choice(TG_NAMES), "start_time": None, "end_time": None,
            "fill": rng.choice(TG_FILLS), "tier_id": 0}
    if fine:
        case["style"] = "fine"
        case["precision"] = rng.choice([3, 4, 4, 5, 5, 6, 6, 7, 8, 9])
        case["point_tier"] = rng.choice([None, None, None, False])
        case["fill"] = rng.choice(TG_FILLS + ["sil", ""])
    r = rng.random()
    if fine and r < 0.35:        # the recording starts / ends less than a millisecond before / after the entries
        case["start_time"] = frac_str(max(Fraction(0), min(starts) - fine_dur(rng)))
    elif r < 0.25:
        case["start_time"] = frac_str(max(Fraction(0), min(starts) - Fraction(rng.randrange(0, 64), 64)))
    elif r < 0.3:
        case["start_time"] = frac_str(min(starts) + Fraction(1, 64))      # ValueError
    r = rng.random()
    if fine and r < 0.35:
        case["end_time"] = frac_str(max(ends) + fine_dur(rng))
    elif r < 0.25:
        case["end_time"] = frac_str(max(ends) + Fraction(rng.randrange(0, 64), 64))
    elif r < 0.3:
        case["end_time"] = frac_str(max(ends) - Fraction(1, 64))           # ValueError
    r = rng.random()
    if r < 0.3:
        case["tier_id"] = case["tier_name"]
    elif r < 0.36:
        case["tier_id"] = "no such tier"
    elif r < 0.45:
        case["tier_id"] = rng.choice([-1, 1, 2])
    if rng.random() < 0.12:      # every option left at its default (the values of pydrobert.torch.config)
        case.update({"precision": 3, "tier_name": "transcript", "point_tier": None, "start_time": None,
                     "end_time": None, "use_defaults": True})
        if isinstance(case["tier_id"], str) and case["tier_id"] != "no such tier":
            case["tier_id"] = "transcript"
    return case


ULP_STEPS = [0, 0, 1, 1, 1, 2, 3, 10]


def gen_textgrid_ulp(rng):
    """Everything in units of the LAST PRINTED DIGIT: at precision p every boundary is a whole number of 10^-p s
    (some moved off the grid by a quarter / four tenths of a unit - never a rounding tie), segments and unlabelled
    stretches 0, 1, 2, 3, 10 or many units long, in front of the first entry (the tier's own start is the minimum
    start, so only the file header moves), between entries and behind the last one. What the file can tell apart at
    its precision must be told apart (a fill interval exactly where prev_end < next_start in the file) whatever the
    precision: one unit is 1 s at precision 0 and 1 ns at precision 9."""
    p = rng.choice([0, 1, 2, 3, 4, 4, 5, 5, 6, 6, 7, 8, 9])
    unit = Fraction(1, 10 ** p)
    jitter = rng.random() < 0.3
    off = lambda: rng.choice([0, 0, Fraction(1, 4), Fraction(-1, 4), Fraction(2, 5), Fraction(-2, 5)]) if jitter else 0
    n = rng.choice([1, 2, 3, 4, 6])
    k = rng.choice([0, 0, rng.randrange(0, 50), rng.randrange(0, 10 ** min(p + 1, 6))])
    t = []
    for j in range(n):
        k += rng.choice(ULP_STEPS + [rng.randrange(1, 400)])
        ln = rng.choice(ULP_STEPS + [rng.randrange(1, 400)])
        a = max(Fraction(0), (k + off()) * unit)
        b = max(a, (k + ln + off()) * unit)
        t.append([rng.choice(TOK_TG), frac_str(a), frac_str(b)])
        k += ln
    if rng.random() < 0.2:
        rng.shuffle(t)
    starts = [Fraction(x[1]) for x in t]
    ends = [Fraction(x[2]) for x in t]
    case = {"kind": "textgrid", "t": t, "style": "ulp", "precision": p,
            "point_tier": rng.choice([None, None, None, False]), "tier_name": rng.choice(TG_NAMES),
            "start_time": None, "end_time": None, "fill": rng.choice(TG_FILLS + ["sil", ""]), "tier_id": 0}
    if rng.random() < 0.4:
        case["start_time"] = frac_str(max(Fraction(0), min(starts) - rng.choice(ULP_STEPS) * unit))
    if rng.random() < 0.4:
        case["end_time"] = frac_str(max(ends) + rng.choice(ULP_STEPS) * unit)
    r = rng.random()
    if r < 0.3:
        case["tier_id"] = case["tier_name"]
    elif r < 0.4:
        case["tier_id"] = -1
    return case


def gen_textgrid_falsy(rng):
    """Each optional argument of write_textgrid / read_textgrid independently: left out, at the legal value that
    is falsy in Python (0.0, 0, "", False), or at an ordinary value. What each must do is in the documentation:
    `start_time=0.0` is the start of the recording even if the first entry starts later, `precision=0` prints whole
    seconds, `tier_name=""` names the tier "", `point_tier=False` is an interval tier even if every segment has no
    length, `fill_token=""` fills the gaps with "" (Praat's label for silence), `tier_id=0` / `""` select a tier."""
    style = rng.choice(["from_zero", "from_zero", "gaps", "gaps", "chain", "points", "zeros", "fine"])
    t = gen_tg_transcript(rng, style)
    if rng.random() < 0.3:
        t[rng.randrange(len(t))][0] = ""           # the empty label
    starts = [Fraction(x[1]) for x in t]
    ends = [Fraction(x[2]) for x in t]
    case = {"kind": "textgrid", "t": t, "stream": "falsy", "style": style}
    omit = []

    def pick(key, falsy, ordinary):
        how = rng.choice(["omit", "falsy", "falsy", "ordinary"])
        if how == "omit":
            case[key] = TG_DEFAULTS[key]
            omit.append(key)
        elif how == "falsy":
            case[key] = falsy
        else:
            case[key] = ordinary()
    pick("start_time", "0", lambda: frac_str(max(Fraction(0), min(starts) - Fraction(rng.randrange(0, 64), 64))))
    # end_time=0.0 is only admissible when nothing ends later (sometimes given all the same: ValueError)
    pick("end_time", "0" if max(ends) == 0 or rng.random() < 0.15 else None, lambda: frac_str(max(ends) + Fraction(rng.randrange(0, 64), 64)))
    pick("tier_name", "", lambda: rng.choice(["words", "my tier", "0", "None"]))
    pick("point_tier", False, lambda: all(a == b for a, b in zip(starts, ends)) or None)
    pick("precision", 0, lambda: rng.choice([1, 2, 4, 5, 6]))
    pick("fill", "", lambda: rng.choice(["sil", "0", " "]))
    how = rng.choice(["omit", "zero", "name", "last"])
    if how == "omit":
        case["tier_id"] = 0
        omit.append("tier_id")
    else:
        case["tier_id"] = {"zero": 0, "name": case["tier_name"], "last": -1}[how]
    case["omit"] = sorted(omit)
    return case


def gen_trn_case(rng, max_depth, timed=0.15):
    depth = rng.randint(0, max_depth)
    nutt = rng.choice([0, 1, 1, 2, 3, 5])
    utts = [{"utt": rng.choice(UTTS), "t": [gen_top(rng, depth, timed) for _ in range(rng.randint(0, 5))]}
            for _ in range(nutt)]
    return {"kind": "trn", "utts": utts, "chunk": rng.choice([1, 2, 1000]), "processes": rng.choice([1, 3]),
            "warn": rng.random() < 0.3, "bare": rng.random() < 0.4,
            "iterable": rng.choice(["list", "list", "gen", "tuple"])}


def gen_ctm_case(rng, wfns, chans):
    nutt = rng.choice([1, 2, 3, 4])
    utt_ids = rng.sample(["u1", "u2", "u10", "u9", "x", "y", "é", "3", "日本", "{u}", 'u"'], nutt)
    ts = [[u, gen_timed(rng, rng.choice([0, 1, 2, 3, 5]), hi=rng.choice([5, 30]))] for u in utt_ids]
    mode = rng.choice(["chan", "dict", "dict", "default"])
    case = {"kind": "ctm", "ts": ts, "map_type": rng.choice(MAP_TYPES)}
    if mode == "dict":
        if rng.random() < 0.4:      # one recording, one channel per utterance (two sides of a call)
            w0 = rng.choice(wfns)
            pairs = [(w0, c) for c in rng.sample(chans, nutt)]
        else:
            pairs = rng.sample([(w, c) for w in wfns for c in chans], nutt)
        case["utt2wc"] = [[u, w, c] for u, (w, c) in zip(utt_ids, pairs)]
        case["wc2utt"] = [[w, c, u] for u, (w, c) in zip(utt_ids, pairs)]
    elif mode == "chan":
        case["utt2wc"] = rng.choice(chans)
        case["wc2utt"] = None if rng.random() < 0.5 else [[u, case["utt2wc"], u] for u in utt_ids]
    else:
        case["utt2wc"] = None       # library default channel
        case["wc2utt"] = None
    return case


def gen_frames_case(rng, shifts):
    n = rng.randint(0, 6)
    vocab = rng.sample(TOK_ANY + ["", ""], rng.randint(1, 8))     # "" is a legal dictionary key / token
    vocab = list(dict.fromkeys(vocab))
    ids = rng.sample(range(-3, 40), len(vocab))
    if 0 not in ids and rng.random() < 0.3:
        ids[rng.randrange(len(ids))] = 0                          # id 0
    use_map = rng.random() < 0.8
    empty_map = use_map and rng.random() < 0.08                   # token2id = {} is a mapping without entries
    if empty_map:
        vocab, ids = [], []
    t = []
    for _ in range(n):
        tok = rng.choice(vocab) if vocab and use_map else rng.randrange(0, 50)
        if rng.random() < 0.3:
            t.append(tok)
        else:
            s = Fraction(0) if rng.random() < 0.08 else grid_time(rng, 0, rng.choice([1, 12, 30]))
            r = rng.random()
            e = s if r < 0.2 else s + Fraction(rng.randrange(1, 8 if r < 0.5 else 200), 64)
            t.append([tok, frac_str(s), frac_str(e)])
    case = {"kind": "frames", "t": t, "f": rng.choice(shifts), "unk": None, "skip": False}
    if Fraction(case["f"]).denominator == 1 and rng.random() < 0.3:
        case["f_int"] = True       # frame_shift_ms given as an int
    if use_map:
        case["token2id"] = [[v, k] for v, k in zip(vocab, ids)]
        case["id2token"] = [[k, v] for v, k in zip(vocab, ids)]
        r = rng.random()
        if empty_map:      # every token is out of vocabulary: the unk id if there is one, else itself
            case["unk"] = rng.choice([None, 0, 0, 77])
        elif r < 0.3:      # out-of-vocabulary tokens with an unk (0 is an id like any other)
            oov = rng.choice(["OOV", "zzz", ""] if "" not in vocab else ["OOV", "zzz"])
            if t:
                j = rng.randrange(len(t))
                t[j] = oov if not isinstance(t[j], list) else [oov] + t[j][1:]
            case["unk"] = rng.choice([vocab[0], 77, "nokey", 0, 0] + ([""] if "" in vocab else []))
    else:
        case["token2id"] = None
        case["id2token"] = None
        if rng.random() < 0.3:     # "If token2id is None, unk has no effect"
            case["unk"] = rng.choice([77, "nokey", 0, ""])
    if rng.random() < 0.12:  # frame times already given (no frame shift)
        case["f"] = None
        t2 = []
        for x in t:
            if isinstance(x, list):
                a = 0 if rng.random() < 0.2 else rng.randrange(0, 500)      # frame 0 is a frame
                t2.append([x[0], str(a), str(a + rng.randrange(0, 50))])
            else:
                t2.append(x)
        case["t"] = t2
    return case


def snap_times(case, unit):
    """Every time of the case moved down to the grid of `unit` seconds (a monotone map: start <= end, the order of the
    entries and the admissibility of start_time / end_time are kept). Whole seconds are what the integer types
    hold; on the 1/16 s grid below 100 s a time has <= 6 significant digits, so that str(np.float32) prints the
    exact value like repr(float) does."""
    unit = Fraction(unit)

    def f(x):
        x = Fraction(x)
        return frac_str((x / unit).__floor__() * unit) if x >= 0 else frac_str(x)
    k = case["kind"]
    if k == "ctm":
        case["ts"] = [[u, [[tok, f(a), f(b)] for tok, a, b in t]] for u, t in case["ts"]]
    elif k == "textgrid":
        case["t"] = [[tok, f(a), f(b)] for tok, a, b in case["t"]]
        for key in ("start_time", "end_time"):
            if case[key] is not None:
                case[key] = f(case[key])
    elif k == "frames":
        case["t"] = [x if not isinstance(x, list) else [x[0], f(x[1]), f(x[2])] for x in case["t"]]
    elif k == "trn":
        for u in case["utts"]:
            u["t"] = [dict(x, s=f(x["s"]), e=f(x["e"])) if isinstance(x, dict) else x for x in u["t"]]
    return case


def gen_numeric(rng, wfns, chans, shifts):
    """A case of one of the kinds with its numbers handed over as other numeric types (`num`), each role's type drawn
    from NUM_DOMAIN - what the unmodified tree accepts."""
    kind = rng.choice(["ctm", "ctm", "ctm", "textgrid", "textgrid", "textgrid", "frames", "frames", "frames", "trn",
                       "tg_doc"])
    pick = lambda role: rng.choice(NUM_DOMAIN[role])
    if kind == "ctm":
        case = gen_ctm_case(rng, wfns, chans)
        num = {"time": pick("ctm.time")}
        snap_times(case, 1 if rng.random() < 0.4 else Fraction(1, 16))
    elif kind == "textgrid":
        case = gen_textgrid(rng, style=rng.choice(["chain", "gaps", "gaps", "points", "free", "from_zero"]))
        num = {}
        for role in ("time", "precision", "tier_id"):
            if rng.random() < 0.7:
                num[role] = pick("textgrid." + role)
        if not num:
            num["time"] = pick("textgrid.time")
        if num.get("time") in _INTS and rng.random() < 0.7:
            snap_times(case, 1)
    elif kind == "frames":
        case = gen_frames_case(rng, shifts)
        # the time conversion combines time and frame shift arithmetically: one of the two by another type (that is
        # what the sweep establishes as accepted), ids - which take no part in it - independently
        role = rng.choice(["time", "time", "shift"])
        num = {role: pick("frames." + role)}
        if rng.random() < 0.6:
            num["id"] = pick("frames.id")
        if case["f"] is None:
            # frame indices instead of seconds: integers, so only by the integer types
            num.pop("shift", None)
            if "time" in num:
                num["time"] = rng.choice([k_ for k_ in NUM_DOMAIN["frames.time"] if k_ in _INTS])
        elif num.get("time") in _INTS and rng.random() < 0.7:
            snap_times(case, 1)
        if num.get("shift") in _INTS and Fraction(case["f"]).denominator != 1:
            case["f"] = rng.choice([x for x in shifts if Fraction(x).denominator == 1])
        case.pop("f_int", None)
    elif kind == "trn":
        case = gen_trn_case(rng, 2, timed=0.6)
        num = {"time": pick("trn.time")}
        if rng.random() < 0.6:
            num["workers"] = pick("trn.workers")
        if num["time"] in _INTS and rng.random() < 0.7:
            snap_times(case, 1)
    else:
        case = gen_tg_doc(rng)
        if isinstance(case["tier_id"], str):
            case["tier_id"] = rng.randrange(-len(case["tiers"]), len(case["tiers"]))
        num = {"tier_id": pick("textgrid.tier_id")}
    case["num"] = num
    case["stream"] = "numeric"
    return case


class C11(PropertyCheck):
    pid = "C11"
    rule = ("generated transcript trees (depth <= 4 quick, <= 6 thorough; ids with spaces, number-like tokens, "
            "parentheses, '/' and '}' as top-level words), exhaustive raw lines of length <= 4 over "
            "'{}/() a' plus random character soup (malformed stream), ctm collections on a 2^-6 time grid "
            "(below and above 10 s) with channel-string and dict mappings, TextGrid transcripts x precision "
            "0..6 x tier type x start/end/tier_name/fill/tier_id options, frame conversion over dyadic "
            "frame shifts (float and int; zero / negative in the malformed stream), the AST-extracted dispatch table. "
            "Tokens include CJK / astral / combining / RTL / zero-width characters and the delimiters of the other "
            "formats; white space beyond ASCII in the malformed streams. Top-level alternates bare and wrapped, "
            "transcripts as list / generator / tuple, utt2wc / wc2utt as dict / MappingProxyType / plain Mapping / "
            "ChainMap / OrderedDict; every file also written to an io.StringIO and a newline='\\r\\n' file, the CRLF "
            "file read in text mode and raw. Hand-written ctm text (comments, confidence column, spacing, number "
            "spellings, malformed lines, LF / CRLF). TextGrid transcripts in and out of time order, labels with line "
            "breaks; TextGrid files with 1-4 tiers (duplicate names) in the long and short layout x tier_id by "
            "name / index / negative index / missing x fill. Every optional argument of every entry point at its "
            "falsy legal value next to None / omitted (start_time / end_time 0.0, precision 0, tier_name '', "
            "point_tier False, fill_token '', tier_id 0 / '', empty utt2wc / wc2utt / token2id, unk 0 / '', token '', "
            "id 0, time 0.0, frame 0, processes 0), omitted options really left out of the call; TextGrid segments "
            "between 1 us and 1 ms (dyadic) at precisions 3..9 with point_tier unset, with gaps between 1 us and 1 ms "
            "between them; TextGrid boundaries / segments / gaps of 0, 1, 2, 3, 10, ... units of the last printed digit "
            "at precisions 0..9 (written by write_textgrid, and in harness-serialised files also before the first and "
            "after the last entry of a tier); sample-accurate ctm times (2^-14 s starts, durations down to 2^-20 s); "
            "every numeric argument (times, start_time / end_time, precision, tier_id, frame shift, token ids, unk, "
            "processes / chunk_size) as Python int, np.float64 / float32 / int64 / int32 scalars, 0-dim arrays, 0-dim "
            "torch tensors, Fraction, Decimal - each (role, type) the unmodified tree accepts, exact values (whole "
            "seconds / the 1/16 s grid). non-trivial: >= 1 alternate, >= 2 utterances, "
            ">= 2 timed tokens, >= 2 records or >= 2 tiers; distinct by the case")
    assumptions = [
        "Python text I/O, str.split/strip, float repr/parse (shortest round-trip) and '%.{p}f' formatting are "
        "taken at their documented meaning; the model has decimals/rationals, not text, for numbers in ctm",
        "sorted() is a stable sort (modelled by List.mergeSort)",
        "the regular-expression TextGrid reader (_textgrid.py) is modelled only on write_textgrid's own output "
        "(a sequential parser of exactly that layout, proved inverse to the writer); files with several tiers / the "
        "long layout are serialised by the harness and modelled at the level of the tier structure",
        "float(): decimal literals with optional exponent; inf / nan / digit-group underscores / non-ASCII digits "
        "are not modelled (not generated)",
        "multiprocessing.Pool.imap delivers each result exactly once in submission order; OS scheduling of "
        "the worker processes is outside the model (exercised with real pools in the thorough tier only)",
        "float rounding is outside the model: exact comparison only on the 2^-6 grid / dyadic frame shifts, "
        "tolerance comparison elsewhere",
    ]
    quick_budget_s = 240
    thorough_budget_s = 1200

    # ------------------------------------------------------------------ cases
    def cases(self, rng, tier):
        yield {"kind": "dispatch"}
        big = tier != "quick"
        # --- raw trn lines: exhaustive small strings, then soup
        alpha = "{}/() a"
        lines = []
        for n in range(0, 5 if not big else 6):
            for tup in itertools.product(alpha, repeat=n):
                lines.append("".join(tup) + "(u)")
                if n <= 3:
                    lines.append("".join(tup))
        for i in range(0, len(lines), 400):
            yield {"kind": "trn_lines", "lines": lines[i:i + 400]}
        soup_alpha = "{{}}//()  ab1\t\u3000\xa0\r\x1c"
        for _ in range(10 if not big else 60):
            ls = []
            for _ in range(100):
                n = rng.randint(0, 16)
                ls.append("".join(rng.choice(soup_alpha) for _ in range(n)) + rng.choice(["(u)", "(u 1)", "", ")(", "(u) x"]))
            yield {"kind": "trn_lines", "lines": ls}
        # --- trn trees
        n_trn = 150 if not big else 1500
        for i in range(n_trn):
            yield gen_trn_case(rng, 4 if not big else 6)
        # chunk_size=0: ignored without workers, refused by Pool.imap (ValueError) with workers - also for an
        # empty file and for a file whose first line is malformed (the pool refuses before any line is parsed)
        for utts in ([], [{"utt": "u", "t": ["a", [["b"], ["c"]]]}, {"utt": "v", "t": []}],
                     [{"utt": "u", "t": [[["a"], []]]}]):
            yield {"kind": "trn", "utts": utts, "chunk": 0, "processes": rng.choice([1, 3]), "warn": False,
                   "bare": False, "iterable": "list"}
        # every shape of a bare three-branch alternate (len(x) == 3 is what a timed token looks like)
        for b2 in ([], ["b"], ["b", "c"], [[["p"], ["q"]]]):
            for b3 in (["d"], ["d", "e"], [[["r"], [], ["s", "t"]]]):
                yield {"kind": "trn", "utts": [{"utt": "u", "t": ["x", [["a"], b2, b3], "y"]}], "chunk": 1,
                       "processes": 1, "warn": False, "bare": True, "iterable": "list"}
        # malformed trees: tokens with delimiters, empty last branch, empty tokens, parens in the id
        bad_toks = ["{", "a{b", "", " ", "a b", "\t", "x\ty"] + TOK_WHITE
        for i in range(30 if not big else 200):
            t = [gen_top(rng, 2) for _ in range(rng.randint(1, 4))]
            mode = rng.choice(["tok", "emptylast", "utt", "alt_tok", "noalts"])
            utt = "u"
            if mode == "tok":
                t.insert(rng.randrange(len(t) + 1), rng.choice(bad_toks))
            elif mode == "emptylast":
                t.insert(rng.randrange(len(t) + 1), [["a"], []])
            elif mode == "utt":
                utt = rng.choice(["a(b", "a)b", "(", ")", "(x)", ")("])
            elif mode == "alt_tok":
                t.insert(rng.randrange(len(t) + 1), [[rng.choice(["/", "}", "a/b", "{"])], ["z"]])
            else:
                t.insert(rng.randrange(len(t) + 1), [])
            yield {"kind": "trn", "utts": [{"utt": utt, "t": t}], "chunk": 1, "processes": 1, "warn": False,
                   "malformed": mode}
        # --- ctm
        n_ctm = 120 if not big else 1200
        wfns = ["940328", "sw 1".replace(" ", "_"), "a", "b", "10", "9", "A", "é", "日本", '"w"', "(w)"]
        chans = ["A", "B", "1", "2", "é", ";"]
        for i in range(n_ctm):
            yield gen_ctm_case(rng, wfns, chans)
        for i in range(40 if not big else 200):  # malformed: negative times, end < start, missing key
            ts = [["u1", gen_timed(rng, 2)], ["u2", gen_timed(rng, 1)]]
            mode = rng.choice(["neg", "rev", "key", "key_read", "white", "comment", "empty"])
            case = {"kind": "ctm", "ts": ts, "utt2wc": "A", "wc2utt": None, "malformed": mode,
                    "map_type": rng.choice(MAP_TYPES)}
            if mode == "neg":
                ts[0][1][0][1] = "-1/2"
            elif mode == "rev":
                ts[0][1][0][2] = frac_str(Fraction(ts[0][1][0][1]) - Fraction(1, 4) if Fraction(ts[0][1][0][1]) > 1 else Fraction(0))
                ts[0][1][0][1] = frac_str(Fraction(ts[0][1][0][2]) + Fraction(1, 2))
            elif mode == "key":
                case["utt2wc"] = [["u1", "w", "A"]]
                case["wc2utt"] = [["w", "A", "u1"]]
            elif mode == "white":      # white space inside a column: the line gets more / other columns
                k = rng.choice(["tok", "utt", "chan"])
                if k == "tok":
                    ts[0][1][0][0] = rng.choice(TOK_WHITE + ["a b", "a b c", " "])
                elif k == "utt":
                    ts[0][0] = rng.choice(["u 1", "u\u30001", "u\t1"])
                else:
                    case["utt2wc"] = rng.choice(["A B", "\xa0", "A\u2003"])
            elif mode == "comment":    # ';;' inside a column cuts the line
                k = rng.choice(["tok", "utt", "chan"])
                if k == "tok":
                    ts[0][1][0][0] = rng.choice(["q;;r", ";;", "x;;"])
                elif k == "utt":
                    ts[0][0] = rng.choice(["u;;1", ";;u"])
                else:
                    case["utt2wc"] = ";;"
            elif mode == "empty":      # an empty column disappears
                k = rng.choice(["tok", "utt", "chan"])
                if k == "tok":
                    ts[0][1][0][0] = ""
                elif k == "utt":
                    ts[0][0] = ""
                else:
                    case["utt2wc"] = ""
            else:
                case["utt2wc"] = [["u1", "w", "A"], ["u2", "v", "A"]]
                case["wc2utt"] = [["w", "A", "u1"]]
            yield case
        for i in range(24 if not big else 200):   # an EMPTY mapping is a mapping (not "no mapping given")
            nutt = rng.choice([0, 1, 1, 2])
            ts = [[u, gen_timed(rng, rng.choice([0, 1, 2]), hi=5)] for u in rng.sample(["u1", "u2", "0", "x"], nutt)]
            which = rng.choice(["utt2wc", "wc2utt", "both"])
            yield {"kind": "ctm", "ts": ts, "map_type": rng.choice(MAP_TYPES), "stream": "empty_mapping",
                   "utt2wc": [] if which != "wc2utt" else rng.choice([None, "A", "0"]),
                   "wc2utt": [] if which != "utt2wc" else None}
        # sample-accurate times: starts on the 2^-14 s grid, durations between 1 us and 1 ms (dyadic, so that start,
        # duration and start + duration are exact in double and "read back exactly" is judged exactly); what a writer
        # that prints a fixed number of decimals ('{:f}', '{:.3f}') loses
        for i in range(40 if not big else 400):
            ts = []
            for u in rng.sample(["u1", "u2", "u3", "x"], rng.randint(1, 3)):
                cur, tt = fine_time(rng, rng.choice([1, 9, 30])), []
                for _ in range(rng.randint(1, 4)):
                    if rng.random() < 0.5:
                        cur += fine_dur(rng) if rng.random() < 0.5 else Fraction(rng.randrange(1, 128), 64)
                    e = cur if rng.random() < 0.15 else cur + fine_dur(rng)
                    tt.append([rng.choice(TOK_TIMED), frac_str(cur), frac_str(e)])
                    cur = e
                ts.append([u, tt])
            yield {"kind": "ctm", "ts": ts, "utt2wc": rng.choice(["A", None]), "wc2utt": None, "stream": "fine",
                   "map_type": "dict"}
        for i in range(10 if not big else 80):   # tolerance stream: arbitrary 3-decimal floats
            ts = []
            for u in rng.sample(["u1", "u2", "u3"], rng.randint(1, 3)):
                tt = []
                for _ in range(rng.randint(1, 4)):
                    s = round(rng.uniform(0, 25), 3)
                    e = round(s + rng.uniform(0, 2), 3)
                    tt.append([rng.choice(TOK_TIMED), frac_str(s), frac_str(e)])
                ts.append([u, tt])
            yield {"kind": "ctm", "ts": ts, "utt2wc": "A", "wc2utt": None, "stream": "tolerance"}
        # --- hand-written ctm text
        for i in range(60 if not big else 600):
            yield gen_ctm_text(rng)
        # --- TextGrid
        n_tg = 250 if not big else 2500
        for i in range(n_tg):
            yield gen_textgrid(rng)
        yield {"kind": "textgrid", "t": [], "precision": 3, "point_tier": None, "tier_name": "transcript",
               "start_time": None, "end_time": None, "fill": None, "tier_id": 0}
        # segments shorter than the default print precision resolves, at every precision (the tier type is
        # inferred from them "within precision `precision`")
        for i in range(60 if not big else 600):
            yield gen_textgrid(rng, style="fine")
        # boundaries, segments and gaps measured in units of the last printed digit, precision 0..9
        for i in range(120 if not big else 1200):
            yield gen_textgrid_ulp(rng)
        # every optional argument at: omitted / its falsy legal value / an ordinary value
        for i in range(90 if not big else 900):
            yield gen_textgrid_falsy(rng)
        for i in range(10 if not big else 60):      # malformed: labels / names the format cannot hold
            t = gen_timed(rng, rng.choice([1, 2, 3]), hi=9, sort=True, toks=TOK_TG)
            mode = rng.choice(["cr_label", "cr_label", "nl_name", "cr_name"])
            name = "transcript"
            if mode == "cr_label":
                t[rng.randrange(len(t))][0] = rng.choice(["a\rb", "\r", "a\r\nb", "x\r"])
            elif mode == "nl_name":
                name = rng.choice(["a\nb", "\n"])
            else:
                name = "a\rb"
            yield {"kind": "textgrid", "t": t, "precision": rng.randint(0, 4), "point_tier": None, "tier_name": name,
                   "start_time": None, "end_time": None, "fill": rng.choice([None, "sil", ""]),
                   "tier_id": rng.choice([0, name]), "malformed": mode}
        # --- TextGrid files with several tiers, long ("xmin = ...") and short layout
        for i in range(80 if not big else 800):
            yield gen_tg_doc(rng)
        # --- frames
        shifts = ["10", "20", "25", "25/2", "1", "1/2", "5/2", "1/8", "8", "125/2"]
        n_fr = 200 if not big else 2000
        for i in range(n_fr):
            yield gen_frames_case(rng, shifts)
        for i in range(20 if not big else 100):    # malformed: a zero frame shift means "no frame shift", a
            n = rng.randint(1, 4)                   # negative one is not rejected (outside the quantifier)
            t = []
            for _ in range(n):
                s_ = grid_time(rng, 0, 12)
                e_ = s_ if rng.random() < 0.2 else s_ + Fraction(rng.randrange(1, 200), 64)
                t.append([rng.randrange(0, 9), frac_str(s_), frac_str(e_)] if rng.random() < 0.8 else rng.randrange(0, 9))
            yield {"kind": "frames", "t": t, "f": rng.choice(["0", "0", "-10", "-1/2", "-8"]), "unk": None,
                   "token2id": None, "id2token": None, "skip": False, "malformed": "shift",
                   "f_int": rng.random() < 0.5}
        # --- the same numbers as other numeric types (np.float64 / float32 / int64 / int32 scalars, 0-dim arrays and
        # tensors, Python ints, Fraction, Decimal) for every entry point with a numeric argument
        for i in range(220 if not big else 2200):
            yield gen_numeric(rng, wfns, chans, shifts)
        for i in range(10 if not big else 60):     # oracle-only: arbitrary frame shifts
            t = [[rng.randrange(0, 9), frac_str(round(rng.uniform(0, 20), 3)), None] for _ in range(4)]
            for x in t:
                x[2] = frac_str(float(Fraction(x[1])) + round(rng.uniform(0, 1), 3))
            yield {"kind": "frames", "t": t, "f": frac_str(rng.choice([0.1, 1 / 3, 7.3, 11.61])), "unk": None,
                   "token2id": None, "id2token": None, "skip": False, "stream": "oracle"}

    # ------------------------------------------------------------------ implementation
    def run_impl(self, case):
        return getattr(self, "impl_" + case["kind"])(case)

    def impl_dispatch(self, case):
        d = data()
        table = ast_dispatch_table()
        # behavioural probe for the one option without an effect on the result (chunk_size)
        path = os.path.join(tmpdir(), "probe.trn")
        with open(path, "w") as f:
            f.write("a b (u1)\nc (u2)\n")
        seen = {}
        with fake_pool() as fp:
            d.read_trn(path, False, 2, 7)
            seen["path"] = [c["chunksize"] for c in fp.calls]
        with fake_pool() as fp:
            with open(path) as f:
                d.read_trn(f, False, 2, 7)
            seen["file"] = [c["chunksize"] for c in fp.calls]
        return {"table": table, "chunk_seen": seen}

    def impl_trn_lines(self, case):
        d = data()
        out = []
        for line in case["lines"]:
            try:
                with warnings.catch_warnings(record=True) as w:
                    warnings.simplefilter("always")
                    r = d.read_trn(io.StringIO(line), warn=True)
                if not r:
                    out.append({"blank": True})
                else:
                    (u, t), = r
                    out.append({"utt": u, "t": [canon_item(x) for x in t], "found_alt": len(w) > 0})
            except OSError:
                out.append({"error": "OSError"})
        return out

    def impl_trn(self, case):
        d = data()
        bare = case.get("bare", False)
        tr_list = [(u["utt"], [py_top(x, bare, num_of(case, "time")) for x in u["t"]]) for u in case["utts"]]
        wk = num_of(case, "workers")          # processes / chunk_size as np.int64 ... (an int by another type)
        n_proc, n_chunk, n_zero = (present(v, wk or "int") for v in (case["processes"], case["chunk"], 0))

        def transcripts():         # write_trn takes any iterable of pairs
            kind = case.get("iterable", "list")
            if kind == "gen":
                return ((u, iter(t)) for u, t in tr_list)
            if kind == "tuple":
                return tuple((u, tuple(t)) for u, t in tr_list)
            return tr_list
        write = lambda tgt: d.write_trn(transcripts(), tgt)
        (e1, b1), (e2, b2), path = write_both(write, "trn")
        obs = {"write_path": e1 or "ok", "write_file": e2 or "ok", "write_same": (e1, b1) == (e2, b2)}
        if e2 is not None:
            return obs
        obs["text"] = b2.decode("utf-8")
        obs["stringio_same"], obs["crlf_same"], p_crlf = write_more(write, "trn", obs["text"])

        def rd(src):
            with warnings.catch_warnings(record=True) as w:
                warnings.simplefilter("always")
                r = d.read_trn(src, warn=case.get("warn", False))
            return {"r": canon_trn(r), "nwarn": len(w)}
        rp, rf = read_both(rd, path)
        obs["read_same"] = rp == rf
        if "error" in rf:
            obs["read"] = {"error": rf["error"]}
        else:
            obs["read"] = rf["ok"]["r"]
            obs["nwarn"] = rf["ok"]["nwarn"]
        # processes=0 spelled out (positionally and by keyword) is the default: no pool at all
        with fake_pool() as fp:
            try:
                r0 = [canon_trn(d.read_trn(path, False, n_zero, n_chunk)),
                      canon_trn(d.read_trn(trn=path, warn=False, processes=n_zero))]
                obs["processes0_same"] = all(x == obs.get("read") for x in r0) and not fp.calls
            except OSError:
                obs["processes0_same"] = "error" in rf and not fp.calls
        # the multi-process branch with the pool replaced by an in-process ordered imap
        with fake_pool() as fp:
            try:
                r = d.read_trn(path, False, n_proc, n_chunk)
                obs["pool"] = canon_trn(r)
            except OSError:
                obs["pool"] = {"error": "OSError"}
            except ValueError:
                obs["pool"] = {"error": "ValueError"}
            obs["pool_calls"] = [{k_: int(v_) for k_, v_ in c_.items()} for c_ in fp.calls]
        # read_trn_iter is the same thing, lazily
        try:
            with open(path) as f:
                obs["iter_same"] = canon_trn(list(d.read_trn_iter(f, False))) == obs["read"]
        except OSError:
            obs["iter_same"] = "error" in rf
        # ... also through a path with workers
        with fake_pool() as fp:
            try:
                obs["iter_pool_same"] = canon_trn(list(d.read_trn_iter(path, False, n_proc, n_chunk))) \
                    == obs["pool"]
            except OSError:
                obs["iter_pool_same"] = obs["pool"] == {"error": "OSError"}
            except ValueError:
                obs["iter_pool_same"] = obs["pool"] == {"error": "ValueError"}
        # the CRLF file, read in text mode and without newline translation
        rc = read_crlf(lambda f: canon_trn(d.read_trn(f, warn=False)), p_crlf)
        obs["read_crlf"] = {k: (v["ok"] if "ok" in v else {"error": v["error"]}) for k, v in rc.items()}
        return obs

    def impl_ctm(self, case):
        d = data()
        tk = num_of(case, "time")
        ts = [(u, [(tok, present(s, tk), present(e, tk)) for tok, s, e in t]) for u, t in case["ts"]]
        u2w = case.get("utt2wc")
        kw = {}
        mt = case.get("map_type")
        if isinstance(u2w, str):
            kw["utt2wc"] = u2w
        elif u2w is not None:
            kw["utt2wc"] = as_mapping({u: (w, c) for u, w, c in u2w}, mt)
        w2u = case.get("wc2utt")
        w2u_d = None if w2u is None else as_mapping({(w, c): u for w, c, u in w2u}, mt)
        write = lambda tgt: d.write_ctm(ts, tgt, **kw)
        (e1, b1), (e2, b2), path = write_both(write, "ctm")
        obs = {"write_path": e1 or "ok", "write_file": e2 or "ok", "write_same": (e1, b1) == (e2, b2)}
        if len(kw) == 1:           # the same call with the option positional
            (e3, b3), (e4, b4), _ = write_both(lambda tgt: d.write_ctm(ts, tgt, kw["utt2wc"]), "ctmpos")
            obs["write_same_positional"] = (e3, b3) == (e4, b4) and (e4, b4) == (e2, b2)
            obs["positional_path_same_as_keyword_path"] = (e3, b3) == (e1, b1)
        if e2 is not None:
            obs["lines"] = {"error": e2}
            return obs
        text = b2.decode("utf-8")
        obs["text"] = text
        lines = []
        for ln in text.split("\n")[:-1]:
            cols = ln.split(" ")
            if len(cols) == 5:     # (a malformed case may put white space into a column)
                w, c, s, du, tok = cols
                try:
                    lines.append([w, c, frac_str(float(s)), frac_str(float(du)), tok])
                    continue
                except ValueError:
                    pass
            lines.append(ln)
        obs["lines"] = lines
        obs["stringio_same"], obs["crlf_same"], p_crlf = write_more(write, "ctm", text)

        def rd(src):
            r = d.read_ctm(src, w2u_d)
            return [[u, [[tok, frac_str(s), frac_str(e)] for tok, s, e in t]] for u, t in r]
        rp, rf = read_both(rd, path)
        obs["read_same"] = rp == rf
        obs["read"] = rf["ok"] if "ok" in rf else {"error": rf["error"]}
        rc = read_crlf(rd, p_crlf)
        obs["read_crlf"] = {k: (v["ok"] if "ok" in v else {"error": v["error"]}) for k, v in rc.items()}
        return obs

    def impl_ctm_text(self, case):
        d = data()
        w2u = case.get("wc2utt")
        w2u_d = None if w2u is None else as_mapping({(w, c): u for w, c, u in w2u}, case.get("map_type"))
        path = os.path.join(tmpdir(), "hand.ctm")
        with open(path, "w", newline="") as f:      # the characters as given (CRLF stays CRLF)
            f.write(case["text"])

        def rd(src):
            r = d.read_ctm(src, w2u_d)
            return [[u, [[tok, frac_str(s), frac_str(e)] for tok, s, e in t]] for u, t in r]
        rp, rf = read_both(rd, path)
        obs = {"read_same": rp == rf, "read": rf["ok"] if "ok" in rf else {"error": rf["error"]}}
        try:
            obs["read_stringio"] = rd(io.StringIO(case["text"]))
        except Exception as e:
            obs["read_stringio"] = {"error": type(e).__name__}
        return obs

    def impl_tg_doc(self, case):
        d = data()
        text = tg_doc_text(case)
        path = os.path.join(tmpdir(), "doc.TextGrid")
        with open(path, "w") as f:
            f.write(text)

        tier_id = case["tier_id"] if isinstance(case["tier_id"], str) else \
            present(case["tier_id"], num_of(case, "tier_id") or "int")

        def rd(fill):
            def go(src):
                tr, a, b = d.read_textgrid(src, tier_id, fill)
                return {"t": [[tok, frac_str(s), frac_str(e)] for tok, s, e in tr],
                        "xmin": frac_str(a), "xmax": frac_str(b)}
            return go
        rp, rf = read_both(rd(case["fill"]), path)
        obs = {"read_same": rp == rf, "read": rf["ok"] if "ok" in rf else {"error": rf["error"]}}
        _, rn = read_both(rd(None), path)
        obs["read_nofill"] = rn["ok"] if "ok" in rn else {"error": rn["error"]}
        # defaults: tier_id = first tier, no filling
        try:
            with open(path) as f:
                tr, a, b = d.read_textgrid(f)
            obs["read_default"] = {"t": [[tok, frac_str(s), frac_str(e)] for tok, s, e in tr],
                                   "xmin": frac_str(a), "xmax": frac_str(b)}
        except Exception as e:
            obs["read_default"] = {"error": type(e).__name__}
        return obs

    def impl_textgrid(self, case):
        d = data()
        tk = num_of(case, "time")
        t = [(tok, present(s, tk), present(e, tk)) for tok, s, e in case["t"]]
        prec = present(case["precision"], num_of(case, "precision") or "int")
        tier_id = case["tier_id"] if isinstance(case["tier_id"], str) else \
            present(case["tier_id"], num_of(case, "tier_id") or "int")
        kw = {"tier_name": case["tier_name"], "precision": prec}
        import pydrobert.torch.config as config
        deft = {"tier_name": config.DEFT_TEXTGRID_TIER_NAME, "precision": config.DEFT_FLOAT_PRINT_PRECISION,
                "tier_id": config.DEFT_TEXTGRID_TIER_ID}
        for k_, v_ in deft.items():
            if TG_DEFAULTS[k_] != v_:
                raise RuntimeError(f"config default of {k_} changed: {v_!r}")
        omit = set(case.get("omit") or ())
        if case.get("use_defaults"):
            omit |= {"tier_name", "precision"}
        for k_ in omit:          # an omitted option is one whose value in the case is the documented default
            if case[k_] != TG_DEFAULTS[k_]:
                raise RuntimeError(f"case omits {k_} but carries {case[k_]!r}")
            kw.pop(k_, None)
        if case["point_tier"] is not None:
            kw["point_tier"] = case["point_tier"]
        for k in ("start_time", "end_time"):
            if case[k] is not None:
                kw[k] = present(case[k], tk)
        write = lambda tgt: d.write_textgrid(t, tgt, **kw)
        (e1, b1), (e2, b2), path = write_both(write, "tg")
        obs = {"write_path": e1 or "ok", "write_file": e2 or "ok", "write_same": (e1, b1) == (e2, b2)}
        # the same call with every option positional (the order of the signature)
        (e3, b3), (e4, b4), _ = write_both(
            lambda tgt: d.write_textgrid(t, tgt, kw.get("start_time"), kw.get("end_time"), case["tier_name"],
                                         kw.get("point_tier"), prec), "tgpos")
        obs["write_same_positional"] = (e3, b3) == (e4, b4) and (e4, b4) == (e2, b2)
        obs["positional_path_same_as_keyword_path"] = (e3, b3) == (e1, b1)
        if not obs["write_same"]:
            # is the path output what the file branch gives when point_tier is left at its default?
            kw2 = {k: v for k, v in kw.items() if k != "point_tier"}
            _, (e5, b5), _ = write_both(lambda tgt: d.write_textgrid(t, tgt, **kw2), "tgnopt")
            obs["path_equals_file_without_point_tier"] = (e5, b5) == (e1, b1)
        if e2 is not None:
            obs["lines"] = {"error": e2}
            return obs
        obs["text"] = b2.decode("utf-8")
        obs["lines"] = obs["text"].split("\n")
        obs["stringio_same"], obs["crlf_same"], p_crlf = write_more(write, "tg", obs["text"])
        # a transcript given as a one-shot iterator / as lists instead of tuples writes the same file
        alt = {}
        for kind, mk in (("iter", lambda: iter(t)), ("lists", lambda: [list(x) for x in t])):
            sio = io.StringIO()
            try:
                d.write_textgrid(mk(), sio, **kw)
                alt[kind] = sio.getvalue() == obs["text"]
            except Exception as e:
                alt[kind] = type(e).__name__
        obs["other_sequences_same"] = alt

        def rd(fill, style="positional"):
            def go(src):
                if style == "positional":
                    tr, a, b = d.read_textgrid(src, tier_id, fill)
                elif style == "keyword":
                    tr, a, b = d.read_textgrid(tg=src, fill_token=fill, tier_id=tier_id)
                else:          # options that are at their default left out
                    kwr = {}
                    if case["tier_id"] != TG_DEFAULTS["tier_id"] or isinstance(case["tier_id"], str):
                        kwr["tier_id"] = tier_id
                    if fill is not None:
                        kwr["fill_token"] = fill
                    tr, a, b = d.read_textgrid(src, **kwr)
                return {"t": [[tok, frac_str(s), frac_str(e)] for tok, s, e in tr],
                        "xmin": frac_str(a), "xmax": frac_str(b)}
            return go
        rp, rf = read_both(rd(case["fill"]), path)
        obs["read_same"] = rp == rf
        # the same read with the options by keyword / with defaults left out
        for style in ("keyword", "minimal"):
            rp2, rf2 = read_both(rd(case["fill"], style), path)
            if (rp2, rf2) != (rp, rf):
                obs["read_styles_same"] = False
        obs["read"] = rf["ok"] if "ok" in rf else {"error": rf["error"]}
        _, rn = read_both(rd(None), path)
        obs["read_nofill"] = rn["ok"] if "ok" in rn else {"error": rn["error"]}
        rc = read_crlf(rd(case["fill"]), p_crlf)
        obs["read_crlf"] = {k: (v["ok"] if "ok" in v else {"error": v["error"]}) for k, v in rc.items()}
        return obs

    def impl_frames(self, case):
        import torch
        d = data()
        tk, sk, ik = num_of(case, "time"), num_of(case, "shift"), num_of(case, "id")
        # an id (a token that is its own id, a value of token2id, an integer unk) as another integer type
        pid_ = (lambda v: v) if ik is None else (lambda v: present(v, ik) if isinstance(v, int) else v)
        if case["f"] is None:      # frame indices: integers, by whatever type
            t = [pid_(x) if not isinstance(x, list) else
                 (pid_(x[0]), present(x[1], tk or "int"), present(x[2], tk or "int")) for x in case["t"]]
        else:
            t = [pid_(x) if not isinstance(x, list) else (pid_(x[0]), present(x[1], tk), present(x[2], tk))
                 for x in case["t"]]
        t2i = None if case.get("token2id") is None else {k: pid_(v) for k, v in case["token2id"]}
        i2t = None if case.get("id2token") is None else {k: v for k, v in case["id2token"]}
        if case["f"] is None:
            f = None
        elif sk is not None:
            f = present(case["f"], sk)
        else:
            f = fl(case["f"])
            if case.get("f_int") and f == int(f):
                f = int(f)
        unk = pid_(case["unk"])
        try:
            tok = d.transcript_to_token(t, t2i, f, unk)
        except (TypeError, ValueError, RuntimeError) as e:
            return {"rows": {"error": "badId"}, "exc": type(e).__name__}
        rows = [[int(v) for v in r] for r in tok.tolist()]
        back = d.token_to_transcript(tok, i2t, f)
        # ids only
        tok1 = d.transcript_to_token(t, t2i, f, unk, skip_frame_times=True)
        back1 = d.token_to_transcript(tok1, i2t, f)
        back2 = d.token_to_transcript(tok1.unsqueeze(1), i2t, f)       # the documented (R, 1) shape
        # keyword spelling of every option
        tokk = d.transcript_to_token(transcript=t, token2id=t2i, frame_shift_ms=f, unk=unk, skip_frame_times=False)
        backk = d.token_to_transcript(ref=tok, id2token=i2t, frame_shift_ms=f)
        # options that are None / at their default left out altogether
        kw1 = {k_: v_ for k_, v_ in (("token2id", t2i), ("frame_shift_ms", f), ("unk", unk)) if v_ is not None}
        tokm = d.transcript_to_token(t, **kw1)
        kw2 = {k_: v_ for k_, v_ in (("id2token", i2t), ("frame_shift_ms", f)) if v_ is not None}
        backm = d.token_to_transcript(tok, **kw2)
        return {"rows": rows, "minimal_same": bool((tokm == tok).all()) and list(backm) == list(back),
                "back": [x if not isinstance(x, tuple) else [x[0], frac_str(x[1]), frac_str(x[2])] for x in back],
                "ids_only": [int(v) for v in tok1.tolist()], "back_ids_only": list(back1),
                "back_r1_same": list(back2) == list(back1),
                "keywords_same": bool((tokk == tok).all()) and list(backk) == list(back),
                "tensor": [str(tok.dtype), list(tok.shape), list(tok1.shape)]}

    # ------------------------------------------------------------------ model
    def model_request(self, case):
        k = case["kind"]
        if k == "dispatch":
            return {"op": "c11.dispatch", "case": {}}
        if k == "trn_lines":
            return {"op": "c11.trn_line", "case": {"lines": case["lines"]}}
        if k == "trn":
            return {"op": "c11.trn", "case": {"utts": case["utts"], "chunk": case["chunk"]}}
        if k == "ctm":
            u2w = case.get("utt2wc")
            if u2w is None:
                import pydrobert.torch.config as config
                u2w = config.DEFT_CTM_CHANNEL
            return {"op": "c11.ctm", "case": {"ts": case["ts"], "utt2wc": u2w, "wc2utt": case.get("wc2utt")}}
        if k == "ctm_text":
            # read_ctm gets the text through a file opened in text mode: universal newlines
            return {"op": "c11.ctm_text", "case": {"text": case["text"], "wc2utt": case.get("wc2utt"),
                                                    "universal": True}}
        if k == "tg_doc":
            c = {x: case[x] for x in ("tiers", "precision", "tier_id", "fill")}
            return {"op": "c11.tg_doc", "case": c}
        if k == "textgrid":
            c = {x: case[x] for x in ("t", "start_time", "end_time", "tier_name", "point_tier", "precision",
                                      "tier_id", "fill")}
            return {"op": "c11.textgrid", "case": c}
        if k == "frames":
            c = {x: case.get(x) for x in ("t", "token2id", "id2token", "f", "unk")}
            return {"op": "c11.frames", "case": c}
        raise ValueError(k)

    # ------------------------------------------------------------------ correspondence
    def compare(self, case, impl, model):
        k = case["kind"]
        model = unescape(model)
        if isinstance(impl, dict) and "error" in impl and "message" in impl:
            return [f"implementation raised {impl['error']}: {impl['message']}"]
        out = []
        if k == "dispatch":
            for fn, row in model["table"].items():
                got = impl["table"].get(fn)
                if got is None:
                    out.append(f"{fn}: no path branch found in the source")
                elif got["options"] != row["options"]:
                    out.append(f"{fn}: options impl={got['options']} model={row['options']}")
                elif got["forwarded"] != row["forwarded"]:
                    out.append(f"{fn}: path branch forwards {got['forwarded']}, model {row['forwarded']}")
            for fn in impl["table"]:
                if fn not in model["table"]:
                    out.append(f"{fn}: path branch in the source that the model does not list")
        elif k == "trn_lines":
            for line, a, b in zip(case["lines"], impl, model):
                b = {x: y for x, y in b.items() if x != "which"}
                if a != b:
                    out.append(f"line {line!r}: impl={a} model={b}")
        elif k == "trn":
            if impl["write_file"] != "ok":
                out.append(f"write_trn raised {impl['write_file']}")
                return out
            if impl["text"] != model["text"]:
                out.append(f"file text impl={impl['text']!r} model={model['text']!r}")
            mr = model["read"]
            if isinstance(mr, dict):
                if impl["read"] != {"error": "OSError"}:
                    out.append(f"read impl={framework.short(impl['read'])} model error {mr}")
            else:
                if impl["read"] != [{"utt": r["utt"], "t": r["t"]} for r in mr]:
                    out.append(f"read impl={framework.short(impl['read'])} model={framework.short(mr)}")
                elif case.get("warn") and impl.get("nwarn") != sum(1 for r in mr if r["found_alt"]):
                    out.append(f"warnings impl={impl.get('nwarn')} model={sum(1 for r in mr if r['found_alt'])}")
            mp = model["pool"]
            mp = {"error": mp["error"]} if isinstance(mp, dict) else [{"utt": r["utt"], "t": r["t"]} for r in mp]
            if impl["pool"] != mp:
                out.append(f"pool read impl={framework.short(impl['pool'])} model={framework.short(mp)}")
            mc = model["read_crlf_raw"]
            mc = {"error": "OSError"} if isinstance(mc, dict) else [{"utt": r["utt"], "t": r["t"]} for r in mc]
            if impl["read_crlf"]["raw"] != mc:
                out.append(f"CRLF file read raw impl={framework.short(impl['read_crlf']['raw'])} "
                           f"model={framework.short(mc)}")
            if impl["read_crlf"]["text"] != impl["read"]:
                out.append(f"CRLF file read in text mode {framework.short(impl['read_crlf']['text'])} != LF file "
                           f"{framework.short(impl['read'])}")
        elif k == "ctm":
            ml = model["lines"]
            if isinstance(ml, dict) or isinstance(impl["lines"], dict):
                if ml != impl["lines"]:
                    out.append(f"write_ctm impl={impl['lines']} model={ml}")
                return out
            exact = case.get("stream") != "tolerance"
            # (an integer / Decimal time prints "1" where a float prints "1.0": same records, other characters)
            # (the fine stream: repr(float) switches to exponent notation below 1e-4, the model prints plain decimals)
            if exact and model.get("text") is not None and num_of(case, "time") in NUM_TEXT_AS_FLOAT \
                    and case.get("stream") != "fine":
                # text layer: the very characters, and read_ctm on those characters
                if impl["text"] != model["text"]:
                    out.append(f"ctm text impl={impl['text']!r} model={model['text']!r}")
                want, want_raw = model["read_text"], model["read_crlf_raw"]
            else:
                if not self.lines_eq(impl["lines"], ml, exact):
                    out.append(f"ctm lines impl={framework.short(impl['lines'])} model={framework.short(ml)}")
                want = want_raw = model["read"]
            if not self.ts_eq(impl["read"], want, exact):
                out.append(f"read_ctm impl={framework.short(impl['read'])} model={framework.short(want)}")
            if not self.ts_eq(impl["read_crlf"]["raw"], want_raw, exact):
                out.append(f"read_ctm of the CRLF file (raw) impl={framework.short(impl['read_crlf']['raw'])} "
                           f"model={framework.short(want_raw)}")
            if impl["read_crlf"]["text"] != impl["read"]:
                out.append(f"read_ctm of the CRLF file in text mode {framework.short(impl['read_crlf']['text'])} "
                           f"!= LF file {framework.short(impl['read'])}")
        elif k == "ctm_text":
            if not self.ts_eq(impl["read"], model["read"], True):
                out.append(f"read_ctm impl={framework.short(impl['read'])} model={framework.short(model['read'])}")
        elif k == "tg_doc":
            for key in ("read", "read_nofill"):
                if not self.tg_eq(impl[key], model[key]):
                    out.append(f"{key} impl={framework.short(impl[key])} model={framework.short(model[key])}")
        elif k == "textgrid":
            ml = model["lines"]
            if isinstance(ml, dict) or isinstance(impl["lines"], dict):
                if ml != impl["lines"]:
                    out.append(f"write_textgrid impl={impl['lines']} model={ml}")
                return out
            if impl["write_same"] != model["via_path_same"]:
                out.append(f"path output == file output: impl {impl['write_same']}, model {model['via_path_same']}")
            if impl["text"] != model["text"]:
                out.append(f"TextGrid text impl={impl['text']!r} model={model['text']!r}")
            # the model reads from the characters wherever its text reader parses them (carriage returns in
            # labels included: text mode turns them into new lines); names with a line break are unreadable
            # for the regex reader in ways the model does not follow
            parsed = "unparsed" not in model["read_text"]
            mread = model["read_text"] if parsed else None
            if mread is not None and not self.tg_eq(impl["read"], mread):
                out.append(f"read impl={framework.short(impl['read'])} model={framework.short(mread)}")
            if model["text_domain"] and not self.tg_eq(impl["read_nofill"], model["read_nofill"]):
                out.append(f"read_nofill impl={framework.short(impl['read_nofill'])} "
                           f"model={framework.short(model['read_nofill'])}")
            if model["text_domain"]:
                if not self.tg_eq(impl["read_crlf"]["text"], model["read_text_crlf"]):
                    out.append(f"CRLF file read in text mode impl={framework.short(impl['read_crlf']['text'])} "
                               f"model={framework.short(model['read_text_crlf'])}")
                if not any("\n" in x[0] for x in case["t"]) and not self.tg_eq(impl["read_crlf"]["raw"], mread):
                    out.append(f"CRLF file read raw impl={framework.short(impl['read_crlf']['raw'])} "
                               f"model={framework.short(mread)}")
        elif k == "frames":
            if case.get("stream") == "oracle":
                return out
            if impl["rows"] != model["rows"]:
                out.append(f"token rows impl={impl['rows']} model={model['rows']}")
            elif not isinstance(impl["rows"], dict):
                # (a 0-dim tensor as frame shift makes token_to_transcript compute `frame * shift / 1000` in torch's
                # default float32: the times agree to float32 resolution, the property clause - within one frame
                # shift - is judged exactly as ever)
                tol = Fraction(1, 10 ** 6) if str(num_of(case, "shift")).startswith("torch.") else 0
                if not self.back_eq(impl["back"], model["back"], tol):
                    out.append(f"token_to_transcript impl={impl['back']} model={model['back']}")
                if impl["back_ids_only"] != model["back_plain"]:
                    out.append(f"token_to_transcript of the ids only impl={impl['back_ids_only']} "
                               f"model={model['back_plain']}")
        return out

    @staticmethod
    def lines_eq(a, b, exact):
        if len(a) != len(b):
            return False
        for x, y in zip(a, b):
            if (x[0], x[1], x[4]) != (y[0], y[1], y[4]):
                return False
            for i in (2, 3):
                if exact and F(x[i]) != F(y[i]):
                    return False
                if not exact and abs(F(x[i]) - F(y[i])) > Fraction(1, 10 ** 9):
                    return False
        return True

    @staticmethod
    def ts_eq(a, b, exact):
        if isinstance(a, dict) or isinstance(b, dict):
            return a == b
        if len(a) != len(b):
            return False
        for (u, t), (v, s) in zip(a, b):
            if u != v or len(t) != len(s):
                return False
            for x, y in zip(t, s):
                if x[0] != y[0]:
                    return False
                for i in (1, 2):
                    if exact and F(x[i]) != F(y[i]):
                        return False
                    if not exact and abs(F(x[i]) - F(y[i])) > Fraction(1, 10 ** 9):
                        return False
        return True

    @staticmethod
    def tg_eq(a, b):
        if a is None or b is None:
            return a == b
        if "error" in a or "error" in b:
            return a == b
        if len(a["t"]) != len(b["t"]):
            return False
        if not (same_float(b["xmin"], a["xmin"]) and same_float(b["xmax"], a["xmax"])):
            return False
        return all(x[0] == y[0] and same_float(y[1], x[1]) and same_float(y[2], x[2])
                   for x, y in zip(a["t"], b["t"]))

    @staticmethod
    def back_eq(a, b, tol=0):
        if len(a) != len(b):
            return False
        near = lambda m, i: same_float(m, i) or abs(F(m) - F(i)) <= tol * max(1, abs(F(m)))
        for x, y in zip(a, b):
            if isinstance(x, list) != isinstance(y, list):
                return False
            if isinstance(x, list):
                if x[0] != y[0] or not near(y[1], x[1]) or not near(y[2], x[2]):
                    return False
            elif x != y:
                return False
        return True

    # ------------------------------------------------------------------ the property on the implementation
    def predicate(self, case, impl, model):
        k = case["kind"]
        model = unescape(model)
        if isinstance(impl, dict) and "error" in impl and "message" in impl:
            return [(f"harness-visible exception {impl['error']}: {impl['message']}", None)]
        fails = []
        if k == "dispatch":
            for fn, row in impl["table"].items():
                dropped = [o for o in row["options"] if o not in row["forwarded"]]
                if dropped:
                    sig = f"C11.dispatch.{fn}"
                    if fn == "write_textgrid" and dropped == ["point_tier"]:
                        sig = SIG_POINT_TIER
                    fails.append((f"{fn}: the path branch does not pass {dropped} on to the file branch", sig))
            if impl["chunk_seen"]["path"] != impl["chunk_seen"]["file"]:
                fails.append((f"read_trn(path, processes=2, chunk_size=7) hands chunk size "
                              f"{impl['chunk_seen']['path']} to the pool, read_trn(file, ...) {impl['chunk_seen']['file']}",
                              "C11.dispatch.read_trn_iter"))
            return fails
        if k == "trn_lines":
            return fails
        if not impl.get("write_same", True):
            sig = f"C11.dispatch.write_{k}"
            if k == "textgrid" and impl.get("path_equals_file_without_point_tier") and case["point_tier"] is not None:
                sig = SIG_POINT_TIER     # exactly the listed behaviour: point_tier ignored, nothing else
            fails.append((f"{k}: writing through a path and through an open file differ "
                          f"(path: {impl['write_path']}, file: {impl['write_file']})", sig))
        elif not impl.get("write_same_positional", True) or not impl.get("positional_path_same_as_keyword_path", True):
            fails.append((f"{k}: path and open file differ when the options are given positionally",
                          f"C11.dispatch.write_{k}"))
        if not impl.get("read_same", True):
            fails.append((f"{k}: reading through a path and through an open file differ", f"C11.dispatch.read_{k}"))
        if impl.get("stringio_same") is False:
            fails.append((f"{k}: an io.StringIO receives other characters than a file on disk",
                          f"C11.dispatch.write_{k}"))
        if impl.get("crlf_same") is False:
            fails.append((f"{k}: a file opened with newline='\\r\\n' does not hold the same lines with CRLF ends",
                          f"C11.dispatch.write_{k}"))
        if k == "trn":
            if model is None or not model.get("in_domain"):
                return fails
            spec = model["spec"]
            if impl.get("write_file") != "ok":
                fails.append((f"write_trn raised {impl.get('write_file')} on an expressible transcript "
                              f"{framework.short(spec)} (bare alternates: {case.get('bare', False)})",
                              "C11.trn.write_error"))
                return fails
            if impl.get("read") != spec:
                fails.append((f"trn round trip: wrote {framework.short(spec)} read {framework.short(impl.get('read'))}",
                              "C11.trn.roundtrip"))
            if case["chunk"] < 1:
                # Pool.imap's contract: a chunk size below 1 is refused (C11_workers holds for chunk_size >= 1)
                if impl.get("pool") != {"error": "ValueError"}:
                    fails.append((f"trn: processes={case['processes']} chunk_size={case['chunk']} gives "
                                  f"{framework.short(impl.get('pool'))}, expected the pool's ValueError",
                                  "C11.trn.workers"))
            elif impl.get("pool") != impl.get("read"):
                fails.append((f"trn: processes={case['processes']} chunk_size={case['chunk']} gives "
                              f"{framework.short(impl.get('pool'))}, processes=0 {framework.short(impl.get('read'))}",
                              "C11.trn.workers"))
            if impl.get("iter_same") is False:
                fails.append(("read_trn_iter differs from read_trn", "C11.trn.iter"))
            if impl.get("processes0_same") is False:
                fails.append(("read_trn(path, warn, 0, chunk_size) differs from read_trn(path, warn) or starts a pool",
                              "C11.trn.workers"))
            for how in ("text", "raw"):
                if impl["read_crlf"][how] != spec:
                    fails.append((f"trn written with CRLF line ends, read {how}: wrote {framework.short(spec)} read "
                                  f"{framework.short(impl['read_crlf'][how])}", "C11.trn.crlf"))
            if impl.get("iter_pool_same") is False:
                fails.append(("read_trn_iter(path, processes, chunk_size) differs from read_trn", "C11.trn.iter"))
        elif k == "ctm":
            fails.extend(self.pred_ctm_mapping(case, impl))
            if model is None or not model.get("in_domain") or model.get("spec") is None or not model.get("fields_ok"):
                return fails
            exact = case.get("stream") != "tolerance"
            if impl.get("write_file") != "ok":
                fails.append((f"write_ctm raised {impl.get('write_file')} on expressible transcripts "
                              f"{framework.short(case['ts'])}{self.num_note(case)}", "C11.ctm.write_error"))
                return fails
            if not self.ts_eq(impl.get("read"), model["spec"], exact):
                fails.append((f"ctm round trip{self.num_note(case)}: expected {framework.short(model['spec'])} read "
                              f"{framework.short(impl.get('read'))}"
                              + (f"; the file holds {impl.get('text')!r}" if isinstance(impl.get("read"), dict) else ""),
                              "C11.ctm.roundtrip"))
            for how in ("text", "raw"):
                got = (impl.get("read_crlf") or {}).get(how)
                if not self.ts_eq(got, model["spec"], exact):
                    fails.append((f"ctm written with CRLF line ends, read {how}: expected "
                                  f"{framework.short(model['spec'])} read {framework.short(got)}", "C11.ctm.crlf"))
        elif k == "ctm_text":
            fails.extend(self.pred_ctm_text(case, impl))
        elif k == "tg_doc":
            fails.extend(self.pred_tg_doc(case, impl, model))
        elif k == "textgrid":
            fails.extend(self.pred_textgrid(case, impl, model))
        elif k == "frames":
            fails.extend(self.pred_frames(case, impl, model))
        return fails

    @staticmethod
    def num_note(case):
        n = case.get("num")
        return "" if not n else " [numbers handed over as " + ", ".join(f"{k}: {v}" for k, v in sorted(n.items())) + "]"

    @staticmethod
    def round_half_even(x, p):
        """the p-digit decimal '%.{p}f' prints for the exact value x (as an integer number of 10^-p)"""
        y = Fraction(x) * 10 ** p
        fl_ = y.numerator // y.denominator
        r = y - fl_
        if r < Fraction(1, 2):
            return fl_
        if r > Fraction(1, 2):
            return fl_ + 1
        return fl_ if fl_ % 2 == 0 else fl_ + 1

    def tier_clauses(self, written, read, read_fill, fill, p, point, bounds, sig_prefix, lean=None):
        """The clauses on one tier: `written` entries [(tok, s, e)] (exact), what came back without and with
        a fill token, the precision, whether it is a point tier, the tier bounds that were written."""
        half = Fraction(1, 2 * 10 ** p)
        slack = half * Fraction(1, 10 ** 9) + Fraction(1, 10 ** 12)
        fails = []
        # the reader orders by start time (a stable sort on the printed value): tier order is kept, entries
        # handed over out of order come back ordered
        order = sorted(range(len(written)), key=lambda i: self.round_half_even(written[i][1], p))
        exp = [written[i] for i in order]
        got = read["t"]
        if [x[0] for x in got] != [x[0] for x in exp]:
            fails.append((f"TextGrid round trip: labels written {[x[0] for x in written]} (starts "
                          f"{[str(x[1]) for x in written]}) read {[x[0] for x in got]}, expected {[x[0] for x in exp]}",
                          sig_prefix + ".order"))
            return fails
        for (tok, s, e), (_, w_s, w_e) in zip(got, exp):
            if abs(F(s) - w_s) > half + slack:
                fails.append((f"start of {tok!r}: wrote {w_s} = {float(w_s)!r} read {float(F(s))!r} at precision {p}",
                              sig_prefix + ".precision"))
            if point and F(e) != F(s):
                fails.append((f"point {tok!r} read with start {s} != end {e}", sig_prefix + ".point"))
            # the end comes back to within the print precision whatever tier type the writer chose: a tier may
            # only be written as points if that loses nothing at the precision asked for
            if abs(F(e) - w_e) > half + slack:
                fails.append((f"end of {tok!r}: wrote ({w_s}, {w_e}) = ({float(w_s)!r}, {float(w_e)!r}) read "
                              f"({float(F(s))!r}, {float(F(e))!r}) at precision {p} from a "
                              f"{'point' if point else 'interval'} tier", sig_prefix + ".precision"))
        # the tier's own bounds come back to within the print precision
        for name, have, want in (("start", read["xmin"], bounds[0]), ("end", read["xmax"], bounds[1])):
            if abs(F(have) - want) > half + slack:
                fails.append((f"tier {name} time: {want} written (entries {[(str(a), str(b)) for _, a, b in written]}), "
                              f"{F(have)} read at precision {p}", sig_prefix + ".bounds"))
        # gap filling: exactly where prev_end < next_start (on the values read), from the tier's start to its end
        if fill is not None and read_fill is not None and "error" not in read_fill and not fails:
            prev = F(read["xmin"])
            expf = []
            for tok, s, e in got:
                if prev < F(s):
                    expf.append([fill, str(prev), str(F(s))])
                expf.append([tok, str(F(s)), str(F(e))])
                prev = F(e)
            if prev < F(read["xmax"]):
                expf.append([fill, str(prev), str(F(read["xmax"]))])
            # the oracle is the Lean spec: `specFill` on what the model reads without a fill token. Wherever model
            # and implementation read the same tier, the rule above must be that function
            if lean is not None and lean[0] is not None and lean[1] is not None and self.tg_eq(read, lean[0]):
                if len(lean[1]) != len(expf) or not all(x[0] == y[0] and same_float(y[1], x[1]) and
                                                        same_float(y[2], x[2]) for x, y in zip(expf, lean[1])):
                    raise AssertionError(f"harness fill rule {expf} != Lean specFill {lean[1]}")
            have = [[tok, str(F(s)), str(F(e))] for tok, s, e in read_fill["t"]]
            if have != expf:
                show = lambda l: [(a, float(F(b)), float(F(c))) for a, b, c in l]
                fails.append((f"gap filling with fill_token={fill!r} (tier from {float(F(read['xmin']))!r} to "
                              f"{float(F(read['xmax']))!r}): expected {show(expf)} got {show(have)}", sig_prefix + ".fill"))
            if (read_fill["xmin"], read_fill["xmax"]) != (read["xmin"], read["xmax"]):
                fails.append(("tier bounds differ between reading with and without a fill token", sig_prefix + ".fill"))
        return fails

    def pred_textgrid(self, case, impl, model):
        t = case["t"]
        if not t or case.get("malformed"):
            return []
        # a recording cannot start after / end before one of its entries: such a start_time / end_time is refused
        # (0.0 included - it is a time, not "unset")
        lo, hi = min(F(x[1]) for x in t), max(F(x[2]) for x in t)
        if (case["start_time"] is not None and F(case["start_time"]) > lo) or \
                (case["end_time"] is not None and F(case["end_time"]) < hi):
            if impl.get("write_file") != "ValueError":
                return [(f"write_textgrid(start_time={case['start_time']}, end_time={case['end_time']}) with entries from "
                         f"{lo} to {hi}: expected ValueError, got {impl.get('write_file')}", "C11.textgrid.bounds_check")]
            return []
        if isinstance(impl.get("lines"), dict):
            # a non-empty transcript of printable labels with admissible bounds is expressible: it must be written
            return [(f"write_textgrid raised {impl['lines'].get('error')} on {framework.short(t)} with start_time="
                     f"{case['start_time']}, end_time={case['end_time']}, precision={case['precision']}, point_tier="
                     f"{case['point_tier']}{self.num_note(case)}", "C11.textgrid.write_error")]
        fails = []
        for kind, same in (impl.get("other_sequences_same") or {}).items():
            if same is not True:
                fails.append((f"write_textgrid given the transcript as {kind}: {same if same else 'different text'}",
                              "C11.textgrid.sequence"))
        starts = [F(x[1]) for x in t]
        ends = [F(x[2]) for x in t]
        # what the options mean (documentation of write_textgrid): the recording's start / end time are the ones
        # given (else the minimum start / maximum end), printed - like every time - with `precision` digits, in a
        # tier called `tier_name`
        lines, p = impl["lines"], case["precision"]
        want_lo = F(case["start_time"]) if case["start_time"] is not None else min(starts)
        want_hi = F(case["end_time"]) if case["end_time"] is not None else max(ends)
        for what, line, want in (("start_time", lines[2], want_lo), ("end_time", lines[3], want_hi),
                                 ("tier start", lines[8], min(starts)), ("tier end", lines[9], max(ends))):
            ip, dot, fp = line.partition(".")
            if not (ip.isdigit() and ip.isascii() and (fp.isdigit() and fp.isascii() and len(fp) == p if p else
                                                         (dot, fp) == ("", ""))):
                fails.append((f"{what} printed as {line!r} with precision={p}"
                              f"{' (left at its default)' if 'precision' in (case.get('omit') or ()) else ''}",
                              "C11.textgrid.digits"))
            elif abs(Fraction(line) - want) > Fraction(1, 2 * 10 ** p) * (1 + Fraction(1, 10 ** 9)):
                fails.append((f"{what}: {want} asked for (start_time={case['start_time']}, end_time={case['end_time']}, "
                              f"entries from {min(starts)} to {max(ends)}), file holds {line} at precision {p}",
                              "C11.textgrid.header"))
        if "\n" not in case["tier_name"] and lines[7] != f'"{case["tier_name"]}"':
            fails.append((f"tier_name={case['tier_name']!r} asked for, file holds {lines[7]}", "C11.textgrid.header"))
        # domain of the clause: a tier type that can hold the transcript, the tier can be found
        if case["point_tier"] is True and any(s != e for s, e in zip(starts, ends)):
            return fails
        if case["tier_id"] not in (0, -1, case["tier_name"]):
            return fails
        r = impl["read_nofill"]
        if "error" in r:
            return fails + [(f"TextGrid written but read_textgrid raised {r['error']}", "C11.textgrid.read_error")]
        p = case["precision"]
        point = impl["lines"][6] == '"TextTier"'
        # the tier type: the one asked for; unset: "a point tier if all segments are length 0 (within precision
        # `precision`); an interval tier otherwise" - the Lean spec (`inferPointAt precision`) is the oracle
        want_point = case["point_tier"]
        if want_point is None and model and isinstance(model.get("spec"), dict):
            want_point = model["spec"]["infer_point"]
            if model["spec"]["point_expected"] != want_point:
                raise AssertionError("driver: point_expected != infer_point with point_tier unset")
        if want_point is not None and point != want_point:
            fails.append((f"point_tier={case['point_tier']}, segments {[(str(a), str(b)) for a, b in zip(starts, ends)]}"
                          f" at precision {p}: expected {'a point' if want_point else 'an interval'} tier, file holds "
                          f"{impl['lines'][6]}", "C11.textgrid.tier_type"))
        written = [(x[0], s, e) for x, s, e in zip(t, starts, ends)]
        lean = None
        if model and isinstance(model.get("spec"), dict) and isinstance(model.get("read_nofill"), dict):
            lean = (model["read_nofill"], model["spec"].get("fill"))
        fails.extend(self.tier_clauses(written, r, impl["read"], case["fill"], p, point,
                                       (min(starts), max(ends)), "C11.textgrid", lean))
        if impl.get("read_styles_same") is False:
            fails.append(("read_textgrid: options given by keyword / defaults left out give another result than "
                          "positionally", "C11.textgrid.call_style"))
        # the same file with CRLF line ends reads the same (raw: unless a label holds a line break itself)
        rc = impl.get("read_crlf") or {}
        if rc and "error" not in impl["read"]:
            if not self.tg_eq(rc.get("text"), impl["read"]):
                fails.append((f"TextGrid with CRLF line ends read in text mode {framework.short(rc.get('text'))} "
                              f"!= {framework.short(impl['read'])}", "C11.textgrid.crlf"))
            if not any("\n" in x[0] for x in t) and not self.tg_eq(rc.get("raw"), impl["read"]):
                fails.append((f"TextGrid with CRLF line ends read raw {framework.short(rc.get('raw'))} "
                              f"!= {framework.short(impl['read'])}", "C11.textgrid.crlf"))
        return fails

    def pred_tg_doc(self, case, impl, model=None):
        tiers, tid = case["tiers"], case["tier_id"]
        n = len(tiers)
        fails = []
        if impl.get("read_stringio", impl["read"]) != impl["read"]:
            fails.append(("tg_doc: StringIO read differs", "C11.dispatch.read_tg_doc"))
        # the documented selection rule
        if isinstance(tid, str):
            sel = next((t for t in tiers if t["name"] == tid), None)
            want_err = None if sel is not None else "ValueError"
        else:
            sel = tiers[tid] if -n <= tid < n else None
            want_err = None if sel is not None else "IndexError"
        r = impl["read_nofill"]
        if want_err is not None:
            if r != {"error": want_err}:
                fails.append((f"tier_id={tid!r} on tiers {[t['name'] for t in tiers]}: expected {want_err}, got "
                              f"{framework.short(r)}", "C11.textgrid.tiers"))
            return fails
        if "error" in r:
            return [(f"tier_id={tid!r} on tiers {[t['name'] for t in tiers]} ({case['layout']} layout): "
                     f"read_textgrid raised {r['error']}", "C11.textgrid.tiers")]
        written = [(x[0], F(x[1]), F(x[2])) for x in sel["entries"]]
        lean = None
        if model and isinstance(model.get("read_nofill"), dict):
            lean = (model["read_nofill"], model.get("fill_spec"))
        fails.extend(self.tier_clauses(written, r, impl["read"], case["fill"], case["precision"], sel["point"],
                                       (F(sel["tmin"]), F(sel["tmax"])), "C11.textgrid.tiers", lean))
        d0 = impl.get("read_default")
        if d0 is not None and "error" not in d0 and [x[0] for x in d0["t"]] != [x[0] for x in tiers[0]["entries"]]:
            fails.append((f"read_textgrid(file) with the defaults returns {[x[0] for x in d0['t']]}, the first tier "
                          f"holds {[x[0] for x in tiers[0]['entries']]}", "C11.textgrid.tiers.order"))
        return fails

    def pred_ctm_mapping(self, case, impl):
        """"with any waveform/channel mapping": a mapping that was given is the one used - an utterance / a recording
        it does not hold is a KeyError, also when the mapping is empty (never a silent fall back to 'no mapping')."""
        if case.get("malformed") not in (None, "key", "key_read"):
            return []
        if not all(0 <= F(s) <= F(e) for _, tt in case["ts"] for _, s, e in tt):
            return []
        fails = []
        u2w, w2u = case.get("utt2wc"), case.get("wc2utt")
        if isinstance(u2w, list):
            keys = {u for u, _, _ in u2w}
            missing = [u for u, _ in case["ts"] if u not in keys]
            if missing and impl.get("write_file") != "KeyError":
                fails.append((f"write_ctm with utt2wc={ {u: (w, c) for u, w, c in u2w}!r} and utterances "
                              f"{[u for u, _ in case['ts']]}: expected KeyError for {missing[0]!r}, got "
                              f"{impl.get('write_file')} {framework.short(impl.get('lines'))}", "C11.ctm.mapping"))
        lines = impl.get("lines")
        if isinstance(w2u, list) and isinstance(lines, list) and all(isinstance(l, list) for l in lines):
            keys = {(w, c) for w, c, _ in w2u}
            missing = [(l[0], l[1]) for l in lines if (l[0], l[1]) not in keys]
            if missing and impl.get("read") != {"error": "KeyError"}:
                fails.append((f"read_ctm with wc2utt={ {(w, c): u for w, c, u in w2u}!r} on records "
                              f"{[(l[0], l[1]) for l in lines]}: expected KeyError for {missing[0]}, got "
                              f"{framework.short(impl.get('read'))}", "C11.ctm.mapping"))
        return fails

    def pred_ctm_text(self, case, impl):
        fails = []
        if impl.get("read_stringio") != impl.get("read"):
            fails.append(("ctm text: reading through an io.StringIO and through a file differ", "C11.dispatch.read_ctm"))
        if not case["well_formed"]:
            return fails
        w2u = case.get("wc2utt")
        m = None if w2u is None else {(w, c): u for w, c, u in w2u}
        exp = collections.OrderedDict()
        for rec in case["recs"]:
            if rec is None:
                continue
            w, c, s, du, tok = rec
            if m is not None and (w, c) not in m:
                # a mapping was given (an empty one included) and does not know this recording
                if impl["read"] != {"error": "KeyError"}:
                    fails.append((f"ctm text {case['text']!r} read with wc2utt={dict(m)!r}: ({w!r}, {c!r}) is not a key, "
                                  f"expected KeyError, got {framework.short(impl['read'])}", "C11.ctm.mapping"))
                return fails
            u = w if m is None else m[(w, c)]
            exp.setdefault(u, []).append([tok, F(s), F(s) + F(du)])
        want = [[u, [[tok, str(a), str(b)] for tok, a, b in sorted(t, key=lambda x: x[1])]] for u, t in exp.items()]
        got = impl["read"]
        if isinstance(got, dict):
            return fails + [(f"well-formed ctm text {case['text']!r}: read_ctm raised {got['error']}", "C11.ctm.text")]
        have = [[u, [[tok, str(F(s)), str(F(e))] for tok, s, e in t]] for u, t in got]
        if have != want:
            fails.append((f"ctm text {case['text']!r}: expected {want} read {have}", "C11.ctm.text"))
        return fails

    def pred_frames(self, case, impl, model):
        if case.get("malformed"):
            return []
        if isinstance(impl.get("rows"), dict):
            # refused although every id is an integer (the model, which follows the documented id rule, has rows)
            if case.get("stream") != "oracle" and model and isinstance(model.get("rows"), list):
                return [(f"transcript_to_token raised {impl.get('exc')} on {framework.short(case['t'])} with "
                         f"frame_shift_ms={case['f']}, unk={case.get('unk')!r}{self.num_note(case)}; documented result "
                         f"{framework.short(model['rows'])}", "C11.frames.error")]
            return []
        t = case["t"]
        t2i, i2t = case.get("token2id"), case.get("id2token")
        known = None if t2i is None else {k for k, _ in t2i}
        fails = []
        back = impl["back"]
        if len(back) != len(t):
            return [(f"frames: {len(t)} elements in, {len(back)} out", "C11.frames.length")]
        f = None if case["f"] is None else F(case["f"])
        shift = None if f is None else f / 1000
        slack = Fraction(1, 10 ** 9) if case.get("stream") == "oracle" else 0
        for x, y in zip(t, back):
            tok = x[0] if isinstance(x, list) else x
            if known is not None and tok not in known:
                continue       # out-of-vocabulary: replaced by unk, no round trip promised
            ytok = y[0] if isinstance(y, list) else y
            if ytok != tok:
                fails.append((f"frames: token {tok!r} came back as {ytok!r}", "C11.frames.token"))
            if isinstance(x, list) != isinstance(y, list):
                fails.append((f"frames: {x} came back as {y}", "C11.frames.shape"))
                continue
            if isinstance(x, list):
                s, e, s2, e2 = F(x[1]), F(x[2]), F(y[1]), F(y[2])
                if shift is None:
                    if (s2, e2) != (s, e):
                        fails.append((f"frames: frame indices {s},{e} came back as {s2},{e2}", "C11.frames.ints"))
                elif not (abs(s2 - s) < shift + slack and abs(e2 - e) < shift + slack):
                    fails.append((f"frames: ({s},{e}) s came back as ({s2},{e2}) s with shift {shift} s",
                                  "C11.frames.within_shift"))
        ids = [r[0] for r in impl["rows"]]
        if impl.get("ids_only") != ids:
            fails.append(("skip_frame_times=True gives different ids", "C11.frames.ids_only"))
        for x, y in zip(t, impl.get("back_ids_only") or []):
            tok = x[0] if isinstance(x, list) else x
            if (known is None or tok in known) and y != tok:
                fails.append((f"frames: ids only: token {tok!r} came back as {y!r}", "C11.frames.ids_only"))
        if impl.get("back_r1_same") is False:
            fails.append(("token_to_transcript of an (R, 1) tensor differs from the (R,) one", "C11.frames.ids_only"))
        if impl.get("keywords_same") is False:
            fails.append(("frames: options given by keyword give another result than positionally", "C11.frames.keywords"))
        if impl.get("minimal_same") is False:
            fails.append(("frames: leaving out the options that are None gives another result than passing None",
                          "C11.frames.keywords"))
        # out-of-vocabulary tokens (documentation of `unk`): token2id[unk] if unk is a key, else unk itself is the id;
        # no unk: the token itself; an empty token2id is a vocabulary in which every token is unknown
        if t2i is not None:
            table = {k: v for k, v in t2i}
            unk = case.get("unk")
            unk_id = table.get(unk, unk) if unk is not None else None
            oracle = ((model or {}).get("spec") or {}).get("ids")
            for j, (x, row) in enumerate(zip(t, impl["rows"])):
                tok = x[0] if isinstance(x, list) else x
                want = tok if unk is None else unk_id
                if tok in table:
                    want = table[tok]
                if oracle is not None and oracle[j] != (want if isinstance(want, int) else None):
                    raise AssertionError(f"harness id rule {want!r} != Lean specId {oracle[j]!r} for {tok!r}")
                if tok in table:
                    continue
                if isinstance(want, int) and row[0] != want:
                    fails.append((f"frames: token {tok!r} is not in token2id={table!r}, unk={unk!r}: expected id {want}, "
                                  f"got {row[0]}", "C11.frames.unk"))
        if impl.get("tensor") and (impl["tensor"][0] != "torch.int64" or impl["tensor"][1] != [len(t), 3]
                                   or impl["tensor"][2] != [len(t)]):
            fails.append((f"frames: token tensor dtype/shape {impl['tensor']}", "C11.frames.tensor"))
        return fails

    # ------------------------------------------------------------------ evidence
    def nontrivial(self, case, impl):
        k = case["kind"]
        if k == "trn":
            return len(case["utts"]) >= 2 or any(has_alt(u["t"]) for u in case["utts"])
        if k == "ctm":
            return len(case["ts"]) >= 2 or any(len(t) >= 2 for _, t in case["ts"])
        if k == "textgrid":
            return len(case["t"]) >= 2
        if k == "frames":
            return sum(1 for x in case["t"] if isinstance(x, list)) >= 2
        if k == "ctm_text":
            return sum(1 for r in case["recs"] if r is not None) >= 2
        if k == "tg_doc":
            return len(case["tiers"]) >= 2
        return True

    def gap_tags(self, entries, lo, hi, p, prefix):
        """where the FILE (times at precision p) has an unlabelled stretch of less than a millisecond"""
        out = set()
        unit = Fraction(1, 10 ** p)
        ents = sorted(([self.round_half_even(a, p), self.round_half_even(b, p)] for _, a, b in entries),
                      key=lambda x: x[0])
        prev, where = self.round_half_even(lo, p), "leading"
        for a, b in ents + [[self.round_half_even(hi, p), None]]:
            if b is None:
                where = "trailing"
            if prev < a and (a - prev) * unit < Fraction(1, 1000):
                out.add(f"{prefix}.gap_below_1ms={where}")
                if a - prev == 1:
                    out.add(f"{prefix}.gap_of_one_unit_of_the_last_digit")
            prev, where = b, "internal"
        return sorted(out)

    def tags(self, case, impl):
        k = case["kind"]
        t = [f"kind={k}"]
        for role, kind in sorted((case.get("num") or {}).items()):
            t.append(f"num.{k}.{role}={kind}")
        if case.get("malformed"):
            t.append(f"malformed={k}.{case['malformed']}")
        if case.get("stream"):
            t.append(f"stream={k}.{case['stream']}")
        if k == "trn":
            dep = 0

            def depth(x):
                if isinstance(x, (str, dict)):
                    return 0
                return 1 + max([depth(y) for b in x for y in b] + [0])
            for u in case["utts"]:
                for x in u["t"]:
                    dep = max(dep, depth(x))
            t.append(f"trn.depth={dep}")
            t.append(f"trn.utts={min(len(case['utts']), 3)}")
            if isinstance(impl, dict) and isinstance(impl.get("read"), dict):
                t.append("trn.read_error")
            t.append(f"trn.alternates={'bare' if case.get('bare') else 'wrapped'}")
            t.append(f"trn.iterable={case.get('iterable', 'list')}")
            if any(ord(ch) > 255 for u in case["utts"] for ch in json.dumps(u, ensure_ascii=False)):
                t.append("trn.beyond_latin1")
        elif k == "ctm":
            u2w = case.get("utt2wc")
            t.append("ctm.map=" + ("default" if u2w is None else "chan" if isinstance(u2w, str) else
                                   "dict" if u2w else "empty_dict"))
            if case.get("wc2utt") == []:
                t.append("ctm.wc2utt=empty_dict")
            if any(F(x[1]) == 0 for _, tt in case["ts"] for x in tt):
                t.append("ctm.start_at_0")
            if any(F(x[1]) >= 10 for _, tt in case["ts"] for x in tt):
                t.append("ctm.times>=10")
            t.append(f"ctm.mapping_type={case.get('map_type', 'dict')}")
            if isinstance(u2w, list) and len({w for _, w, _ in u2w}) < len(u2w):
                t.append("ctm.shared_wfn")
        elif k == "ctm_text":
            t.append(f"ctm_text.well_formed={case['well_formed']}")
            t.append("ctm_text.eol=" + ("crlf" if case["eol"] == "\r\n" else "lf"))
            t.append("ctm_text.map=" + ("none" if case.get("wc2utt") is None else case.get("map_type", "dict")))
            if case.get("wc2utt") == []:
                t.append("ctm_text.wc2utt=empty_dict")
            if any(";;" in l for l, _ in case["lines"]):
                t.append("ctm_text.comment")
            if any(i is not None and len(l.split(";;")[0].split()) == 6 for l, i in case["lines"]):
                t.append("ctm_text.confidence_column")
            if isinstance(impl, dict) and isinstance(impl.get("read"), dict):
                t.append("ctm_text.read_error=" + impl["read"]["error"])
        elif k == "tg_doc":
            t.append(f"tg_doc.layout={case['layout']}")
            t.append(f"tg_doc.tiers={len(case['tiers'])}")
            t.append("tg_doc.tier_id=" + ("name" if isinstance(case["tier_id"], str) else
                                          "negative" if case["tier_id"] < 0 else "index"))
            t.append("tg_doc.fill=" + ("none" if case["fill"] is None else "empty_string" if case["fill"] == "" else "token"))
            if case["tier_id"] == "":
                t.append("tg_doc.tier_id=empty_name")
            if any(F(x["tmin"]) == 0 for x in case["tiers"]):
                t.append("tg_doc.tier_starts_at_0")
            t.append(f"tg_doc.precision={case['precision']}")
            if case["fill"] is not None:
                for x in case["tiers"]:
                    t.extend(self.gap_tags(x["entries"], x["tmin"], x["tmax"], case["precision"], "tg_doc"))
                t[:] = list(dict.fromkeys(t))
            if len({x["name"] for x in case["tiers"]}) < len(case["tiers"]):
                t.append("tg_doc.duplicate_names")
            if isinstance(impl, dict) and isinstance(impl.get("read"), dict) and "error" in impl["read"]:
                t.append("tg_doc.read_error=" + impl["read"]["error"])
        elif k == "textgrid":
            t.append(f"tg.precision={case['precision']}")
            t.append(f"tg.point_tier={case['point_tier']}")
            t.append("tg.fill=" + ("none" if case["fill"] is None else "empty_string" if case["fill"] == "" else "token"))
            if case.get("style"):
                t.append(f"tg.style={case['style']}")
            if case.get("stream") == "falsy":
                for o_ in case.get("omit") or ():
                    t.append(f"tg.omitted={o_}")
                for o_, v_ in (("start_time", "0"), ("end_time", "0"), ("tier_name", ""), ("point_tier", False),
                               ("precision", 0), ("fill", ""), ("tier_id", 0), ("tier_id", "")):
                    if case[o_] == v_ and type(case[o_]) is type(v_) and o_ not in (case.get("omit") or ()):
                        t.append(f"tg.falsy={o_}:{v_!r}")
            if case["t"] and all(F(x[1]) != F(x[2]) and F(x[2]) - F(x[1]) < Fraction(1, 1000) for x in case["t"]):
                t.append("tg.all_segments_below_1ms")
            if case["t"] and case["fill"] is not None:
                t.extend(self.gap_tags(case["t"], min(F(x[1]) for x in case["t"]), max(F(x[2]) for x in case["t"]),
                                       case["precision"], "tg"))
            if any(x[0] == "" for x in case["t"]):
                t.append("tg.empty_label")
            if case["t"] and min(F(x[1]) for x in case["t"]) == 0:
                t.append("tg.starts_at_0")
            if any(F(x[1]) >= 10 for x in case["t"]) and any(F(x[1]) < 10 for x in case["t"]):
                t.append("tg.crosses_10s")
            st_ = [F(x[1]) for x in case["t"]]
            if any(a > b for a, b in zip(st_, st_[1:])):
                t.append("tg.out_of_order")
            if case["t"] and max(F(x[2]) for x in case["t"]) != F(case["t"][-1][2]):
                t.append("tg.last_entry_not_latest_end")
            if any("\n" in x[0] for x in case["t"]):
                t.append("tg.label_with_newline")
            if case.get("use_defaults"):
                t.append("tg.all_options_default")
            if isinstance(impl, dict) and isinstance(impl.get("lines"), list) and len(impl["lines"]) > 6:
                t.append("tg.type=" + impl["lines"][6].strip('"'))
            if isinstance(impl, dict) and isinstance(impl.get("lines"), dict):
                t.append("tg.write_error=" + impl["lines"]["error"])
            if isinstance(impl, dict) and isinstance(impl.get("read"), dict) and "error" in impl["read"]:
                t.append("tg.read_error=" + impl["read"]["error"])
        elif k == "frames":
            t.append(f"frames.shift={case['f']}")
            t.append("frames.map=" + ("dict" if case.get("token2id") is not None else "none"))
            if case.get("unk") is not None:
                t.append("frames.unk" + ("=0" if case["unk"] == 0 else "=''" if case["unk"] == "" else ""))
            if case.get("token2id") == []:
                t.append("frames.token2id=empty_dict")
            if any(x[0] == "" for x in case["t"] if isinstance(x, list)) or "" in case["t"]:
                t.append("frames.empty_token")
            if any(isinstance(x, list) and F(x[1]) == 0 for x in case["t"]):
                t.append("frames.start_at_0")
            if any(k_ == 0 for _, k_ in case.get("token2id") or []):
                t.append("frames.id_0")
            if case.get("f_int"):
                t.append("frames.shift_is_int")
            if isinstance(impl, dict) and isinstance(impl.get("rows"), dict):
                t.append("frames.bad_id")
        return t

    # ------------------------------------------------------------------ shrinking
    def shrink(self, case):
        k = case["kind"]
        for role in sorted(case.get("num") or {}):       # the number as a plain Python float / int again
            yield dict(case, num={r_: v_ for r_, v_ in case["num"].items() if r_ != role})
        if k == "trn":
            utts = case["utts"]
            for i in range(len(utts)):
                yield dict(case, utts=utts[:i] + utts[i + 1:])
            for i, u in enumerate(utts):
                for j in range(len(u["t"])):
                    nu = dict(u, t=u["t"][:j] + u["t"][j + 1:])
                    yield dict(case, utts=utts[:i] + [nu] + utts[i + 1:])
                    x = u["t"][j]
                    if isinstance(x, list):      # replace an alternate by its last branch's elements
                        nu = dict(u, t=u["t"][:j] + [y for y in x[-1]] + u["t"][j + 1:])
                        yield dict(case, utts=utts[:i] + [nu] + utts[i + 1:])
                if u["utt"] != "u":
                    yield dict(case, utts=utts[:i] + [dict(u, utt="u")] + utts[i + 1:])
            if case.get("iterable", "list") != "list":
                yield dict(case, iterable="list")
            if case.get("bare"):
                yield dict(case, bare=False)
        elif k == "ctm":
            ts = case["ts"]
            for i in range(len(ts)):
                if len(ts) > 1:
                    c = dict(case, ts=ts[:i] + ts[i + 1:])
                    if isinstance(case.get("utt2wc"), list):
                        c["utt2wc"] = [r for r in case["utt2wc"] if r[0] != ts[i][0]]
                    if isinstance(case.get("wc2utt"), list):
                        c["wc2utt"] = [r for r in case["wc2utt"] if r[2] != ts[i][0]]
                    yield c
                for j in range(len(ts[i][1])):
                    yield dict(case, ts=ts[:i] + [[ts[i][0], ts[i][1][:j] + ts[i][1][j + 1:]]] + ts[i + 1:])
        elif k == "textgrid":
            t = case["t"]
            for j in range(len(t)):
                if len(t) > 1:
                    yield dict(case, t=t[:j] + t[j + 1:])
            for j, x in enumerate(t):        # the same durations from time 0 on (keeps sub-millisecond segments)
                if F(x[1]) > 0 and len(t) == 1:
                    yield dict(case, t=[[x[0], "0", frac_str(F(x[2]) - F(x[1]))]])
            for key, dflt in (("fill", None), ("start_time", None), ("end_time", None), ("tier_id", 0),
                              ("tier_name", "transcript")):
                if case[key] != dflt:
                    yield dict(case, **{key: dflt})
            for j, x in enumerate(t):
                for i in (1, 2):
                    v = F(x[i])
                    if v.denominator > 1:
                        y = list(x)
                        y[i] = frac_str(Fraction(int(v)))
                        if F(y[1]) <= F(y[2]):
                            yield dict(case, t=t[:j] + [y] + t[j + 1:])
                if x[0] != "a":
                    yield dict(case, t=t[:j] + [["a", x[1], x[2]]] + t[j + 1:])
        elif k == "frames":
            t = case["t"]
            for j in range(len(t)):
                yield dict(case, t=t[:j] + t[j + 1:])
            if case.get("unk") is not None:
                yield dict(case, unk=None)
        elif k == "ctm_text":
            ls = case["lines"]
            for j in range(len(ls)):
                recs = list(case["recs"])
                if ls[j][1] is not None:
                    recs[ls[j][1]] = None
                c = dict(case, lines=ls[:j] + ls[j + 1:], recs=recs)
                c["text"] = ctm_text_of(c)
                yield c
            if case["eol"] != "\n":
                c = dict(case, eol="\n")
                c["text"] = ctm_text_of(c)
                yield c
        elif k == "tg_doc":
            tiers = case["tiers"]
            for j in range(len(tiers)):
                if len(tiers) > 1:
                    yield dict(case, tiers=tiers[:j] + tiers[j + 1:])
                for i in range(len(tiers[j]["entries"])):
                    nt = dict(tiers[j], entries=tiers[j]["entries"][:i] + tiers[j]["entries"][i + 1:])
                    yield dict(case, tiers=tiers[:j] + [nt] + tiers[j + 1:])
            if case["fill"] is not None:
                yield dict(case, fill=None)
            if case["precision"] != 3:
                yield dict(case, precision=3)
        elif k == "trn_lines":
            ls = case["lines"]
            if len(ls) > 1:
                yield dict(case, lines=ls[:len(ls) // 2])
                yield dict(case, lines=ls[len(ls) // 2:])
            elif ls and len(ls[0]) > 0:
                for i in range(len(ls[0])):
                    yield dict(case, lines=[ls[0][:i] + ls[0][i + 1:]])

    # ------------------------------------------------------------------ real worker processes (thorough)
    def extra_checks(self, rng, tier, report):
        # every (role, numeric type) on one fixed input: what the tree under test accepts. Recorded; a pair inside
        # NUM_DOMAIN (= accepted by the unmodified tree) that no longer round-trips is a failure, pairs outside are
        # not judged
        table = numeric_sweep()
        report["extra"]["numeric_types"] = {
            role: {"accepted": [k_ for k_, v_ in row.items() if v_ == "ok"],
                   "outside_the_domain": {k_: v_ for k_, v_ in row.items() if v_ != "ok"}}
            for role, row in table.items()}
        for role, row in table.items():
            for kind in NUM_DOMAIN[role]:
                if row[kind] != "ok":
                    report["failures"].append(Failure(
                        {"kind": "numeric_sweep", "role": role, "type": kind},
                        f"{role} handed over as {kind} (accepted by the unmodified tree): {row[kind]}",
                        f"C11.numeric_type.{role}"))
        if tier == "quick":
            report["extra"]["real_pools"] = "not run in the quick tier (pool replaced by an in-process ordered imap)"
            return
        script = Path(__file__).resolve().parent / "c11_pool.py"
        seed = rng.randrange(1 << 30)
        env = dict(os.environ)
        env["VERIF_REPO"] = str(framework.REPO)
        try:
            r = subprocess.run([sys.executable, str(script), str(seed)], capture_output=True, text=True,
                               timeout=300, env=env)
        except subprocess.TimeoutExpired:
            raise RuntimeError("c11_pool.py timed out after 300 s (worker pool hang) - machinery error, no verdict")
        if r.returncode != 0:
            raise RuntimeError(f"c11_pool.py exit {r.returncode}: {r.stderr[-800:]}")
        res = json.loads(r.stdout.strip().splitlines()[-1])
        report["extra"]["real_pools"] = {"configs": res["configs"], "lines": res["lines"], "wall_s": res["wall_s"]}
        for m in res["mismatches"]:
            report["failures"].append(Failure(
                {"kind": "pool", "seed": seed, **m["config"]},
                f"read_trn with {m['config']} differs from processes=0: {m['detail']}", "C11.trn.workers"))


CHECK = C11()
