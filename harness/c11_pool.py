"""C11, thorough tier only: read_trn with real worker processes.

Run as a separate, `__main__`-guarded process under a hard timeout by c11.py (a pool that hangs
must never hang the check). Prints one JSON line: configurations tried and mismatches against
the single-process result. What this exercises is OS scheduling of the workers; the logic (an
ordered imap over chunks is a map over the lines) is the theorem C11_workers.
"""
import json
import os
import random
import sys
import tempfile
import time
import warnings
from pathlib import Path

HERE = Path(__file__).resolve().parent
sys.path.insert(0, str(HERE))


def main():
    seed = int(sys.argv[1]) if len(sys.argv) > 1 else 0
    from common import framework
    framework.use_repo()
    import c11
    import pydrobert.torch.data as d
    warnings.simplefilter("ignore")
    rng = random.Random(seed)
    t0 = time.time()
    transcripts = []
    for i in range(400):
        depth = rng.randint(0, 4)
        transcripts.append((f"utt {i}", [c11.py_top(c11.gen_top(rng, depth)) for _ in range(rng.randint(0, 6))]))
    tmp = tempfile.mkdtemp(prefix="c11pool-")
    path = os.path.join(tmp, "big.trn")
    d.write_trn(transcripts, path)
    # blank lines are skipped by every reader
    with open(path) as f:
        lines = f.read().split("\n")
    with open(path, "w") as f:
        f.write("\n\n".join(lines))
    base = c11.canon_trn(d.read_trn(path, False, 0))
    configs, mismatches = [], []
    for processes in (1, 3):
        for chunk in (1, 2, 1000):
            for via in ("path", "file"):
                cfg = {"processes": processes, "chunk_size": chunk, "via": via}
                if via == "path":
                    got = d.read_trn(path, False, processes, chunk)
                else:
                    with open(path) as f:
                        got = d.read_trn(f, False, processes, chunk)
                got = c11.canon_trn(got)
                configs.append(cfg)
                if got != base:
                    k = next((i for i, (a, b) in enumerate(zip(got, base)) if a != b), min(len(got), len(base)))
                    mismatches.append({"config": cfg, "detail": f"{len(got)} vs {len(base)} entries, first difference at {k}"})
    # chunk_size=0 with workers: the real pool refuses it (the guard of C11_workers; model: TrnErr.badChunk)
    cfg = {"processes": 1, "chunk_size": 0, "via": "path"}
    configs.append(cfg)
    try:
        d.read_trn(path, False, 1, 0)
        mismatches.append({"config": cfg, "detail": "chunk_size=0 with a worker did not raise"})
    except ValueError:
        pass
    expected = [{"utt": u, "t": [c11.canon_item(x) for x in t]} for u, t in
                ((u, [x[0] if isinstance(x, tuple) and isinstance(x[0], str) else x for x in t]) for u, t in transcripts)]
    if base != expected:
        mismatches.append({"config": {"processes": 0}, "detail": "single-process read differs from what was written"})
    print(json.dumps({"configs": len(configs), "lines": len(transcripts), "mismatches": mismatches,
                      "wall_s": round(time.time() - t0, 2)}))


if __name__ == "__main__":
    main()
